package c19

import (
	"bytes"
	"compress/gzip"
	"context"
	"crypto/ecdsa"
	"encoding/base64"
	"fmt"
	"io"
	"net/http"
	"net/http/httptest"
	"os"
	"path/filepath"
	"strings"
	"testing"
	"time"

	"github.com/labstack/echo/v4"
	"github.com/nuts-foundation/go-did/did"
	"github.com/nuts-foundation/go-did/vc"
	"github.com/nuts-foundation/go-stoabs"
	"github.com/nuts-foundation/go-stoabs/bbolt"
	"github.com/nuts-foundation/nuts-node/core"
	"github.com/nuts-foundation/nuts-node/crypto/hash"
	"github.com/nuts-foundation/nuts-node/http/tokenV2"
	"github.com/nuts-foundation/nuts-node/network"
	"github.com/nuts-foundation/nuts-node/network/dag"
	"github.com/nuts-foundation/nuts-node/storage"
	"github.com/nuts-foundation/nuts-node/storage/orm"
	"github.com/nuts-foundation/nuts-node/vcr/revocation"
	"github.com/nuts-foundation/nuts-node/vcr/types"
	"github.com/nuts-foundation/nuts-node/vdr/didnuts"
	"github.com/nuts-foundation/nuts-node/vdr/didnuts/didstore"
	"github.com/nuts-foundation/nuts-node/vdr/resolver"
	"golang.org/x/crypto/ssh"

	"verif/crash"
	"verif/enum"
)

type stubNetwork struct {
	network.Transactions
	discovered int
}

func (s *stubNetwork) DiscoverServices(did.DID) { s.discovered++ }

type ambFix struct {
	store didstore.Store
	amb   didnuts.Ambassador
	db    stoabs.KVStore
}

var ambSeq int

func newAmbFix(t *testing.T) *ambFix {
	ambSeq++
	dir := filepath.Join(os.TempDir(), fmt.Sprintf("c19amb-%d-%d", os.Getpid(), ambSeq))
	_ = os.MkdirAll(dir, 0o755)
	db, err := bbolt.CreateBBoltStore(filepath.Join(dir, "didstore.db"), stoabs.WithNoSync())
	if err != nil {
		t.Fatal(err)
	}
	st := didstore.New(&storage.StaticKVStoreProvider{Store: db})
	if c, ok := st.(core.Configurable); ok {
		if err := c.Configure(core.ServerConfig{}); err != nil {
			t.Fatal(err)
		}
	}
	return &ambFix{store: st, db: db, amb: didnuts.NewAmbassador(&stubNetwork{}, st, nil)}
}

func init() {
	register("didnuts-ambassador", func(t *testing.T, s *crash.Sweep, thorough bool) {
		name := "didnuts.ambassador.callback"
		if !s.WantEntry(name) {
			return
		}
		doc := nutsDoc()
		id := mustDID(doc["id"].(string))
		kid0 := doc["assertionMethod"].([]any)[0].(string)
		var fix *ambFix
		var createTx dag.Transaction
		setup := func() {
			fix = newAmbFix(t)
			payload := mustJSON(doc)
			hdr := txHeader(nil, 0, true, nil)
			createTx, _ = mustTxPayloadHash(hdr, payload)
			if err := didnuts.VerifAmbassadorCallback(fix.amb, createTx, payload); err != nil {
				t.Fatalf("harness: valid DID document creation refused: %v", err)
			}
		}
		setup()
		digest := func() string {
			n, _ := fix.store.DocumentCount()
			c, _ := fix.store.ConflictedCount()
			d, md, err := fix.store.Resolve(id, &resolver.ResolveMetadata{AllowDeactivated: true})
			if err != nil {
				return fmt.Sprintf("%d/%d/err:%v", n, c, err)
			}
			return fmt.Sprintf("%d/%d/%s/%d/%s", n, c, md.Hash, len(md.SourceTransactions), hash.SHA256Sum(mustJSON(d)))
		}
		lc := uint32(0)
		call := func(payload []byte, update bool) func() string {
			return func() string {
				var hdr map[string]any
				if update {
					lc++
					hdr = txHeader([]hash.SHA256Hash{createTx.Ref()}, 1, false, nil)
					hdr["kid"] = kid0
				} else {
					hdr = txHeader(nil, 0, true, nil)
				}
				hdr["sigt"] = float64(time.Now().Unix()) + float64(lc)
				tx, _ := mustTxPayloadHash(hdr, payload)
				before := digest()
				if err := didnuts.VerifAmbassadorCallback(fix.amb, tx, payload); err != nil {
					if after := digest(); after != before {
						return fmt.Sprintf("!state-changed: rejected DID document changed the DID store: %s -> %s (%v)", before, after, err)
					}
					return "rejected"
				}
				return "ok"
			}
		}
		if !s.Replaying() {
			upd := nutsDoc()
			upd["service"] = upd["service"].([]any)[:1]
			if out := call(mustJSON(upd), true)(); out != "ok" {
				t.Fatalf("harness: valid DID document update refused: %s", out)
			}
		}
		// two steps: a (mutated) creation that the node ACCEPTS is followed by a valid update of the same DID, which makes
		// the node resolve keys and controllers from what it stored ("... or storage")
		name2 := "didnuts.ambassador.callback(create,update)"
		if s.WantEntry(name2) {
			embedded := nutsDoc()
			vms := embedded["verificationMethod"].([]any)
			embedded["capabilityInvocation"] = []any{vms[0], embedded["capabilityInvocation"].([]any)[0]}
			embedded["keyAgreement"] = []any{vms[1]}
			for di, base := range []map[string]any{doc, embedded} {
				base := base
				sweepStore(s, name2, fmt.Sprintf("doc%d", di), base, false, func(d any) ([]byte, func() string) {
					raw := mustJSON(d)
					return raw, func() string {
						fix = newAmbFix(t) // empty store
						hdr := txHeader(nil, 0, true, nil)
						tx, _ := mustTxPayloadHash(hdr, raw)
						if err := didnuts.VerifAmbassadorCallback(fix.amb, tx, raw); err != nil {
							_ = fix.db.Close(context.Background())
							return "create-rejected"
						}
						upd := nutsDoc()
						upd["service"] = upd["service"].([]any)[:1]
						uh := txHeader([]hash.SHA256Hash{tx.Ref()}, 1, false, nil)
						uh["kid"] = kid0
						utx, _ := mustTxPayloadHash(uh, mustJSON(upd))
						err := didnuts.VerifAmbassadorCallback(fix.amb, utx, mustJSON(upd))
						_, _, _ = fix.store.Resolve(id, nil)
						_, _, _ = (resolver.DIDKeyResolver{Resolver: didnuts.Resolver{Store: fix.store}}).ResolveKey(id, nil, resolver.CapabilityInvocation)
						_ = fix.db.Close(context.Background())
						if err != nil {
							return "update-rejected"
						}
						return "ok"
					}
				}, func() {})
			}
			setup()
		}
		for _, update := range []bool{false, true} {
			update := update
			inst := map[bool]string{false: "create", true: "update"}[update]
			sweepStore(s, name, inst, doc, false, func(d any) ([]byte, func() string) {
				raw := mustJSON(d)
				return raw, call(raw, update)
			}, setup)
		}
	})

	// ---- sequences: two documents exist (A, B), a third DID (N) was never created. The second transaction's signer DID,
	// payload DID and prevs range over {A, B, N} independently, for creations (embedded jwk) and updates (kid).
	register("didnuts-ambassador-seq", func(t *testing.T, s *crash.Sweep, thorough bool) {
		name := "didnuts.ambassador.callback(sequence)"
		if !s.WantEntry(name) {
			return
		}
		keyC := crash.FixedKey(1, 3)
		type party struct {
			key *ecdsa.PrivateKey
			doc map[string]any
			id  string
			kid string
		}
		mkParty := func(k0, k1 *ecdsa.PrivateKey) party {
			d := nutsDocFor(k0, k1)
			return party{key: k0, doc: d, id: d["id"].(string), kid: d["assertionMethod"].([]any)[0].(string)}
		}
		parties := map[string]party{"A": mkParty(keyA, keyB), "B": mkParty(keyB, keyC), "N": mkParty(keyC, keyA)}
		header := func(signer party, update bool, prevs []hash.SHA256Hash, lc uint32) map[string]any {
			h := txHeader(prevs, lc, !update, nil)
			if update {
				h["kid"] = signer.kid
			} else {
				h["jwk"] = crash.PublicJWK(signer.key)
			}
			return h
		}
		var fix *ambFix
		created := map[string]dag.Transaction{}
		setup := func() {
			fix = newAmbFix(t)
			for _, n := range []string{"A", "B"} {
				p := parties[n]
				raw := mustJSON(p.doc)
				tx, _ := mustTxPayloadHash(header(p, false, nil, 0), raw)
				if err := didnuts.VerifAmbassadorCallback(fix.amb, tx, raw); err != nil {
					t.Fatalf("harness: creation of %s refused: %v", n, err)
				}
				created[n] = tx
			}
		}
		setup()
		digest := func() string {
			n, _ := fix.store.DocumentCount()
			c, _ := fix.store.ConflictedCount()
			out := fmt.Sprintf("%d/%d", n, c)
			for _, pn := range []string{"A", "B", "N"} {
				d, md, err := fix.store.Resolve(mustDID(parties[pn].id), &resolver.ResolveMetadata{AllowDeactivated: true})
				if err != nil {
					out += "/-"
					continue
				}
				out += fmt.Sprintf("/%s:%d:%s", md.Hash, len(md.SourceTransactions), hash.SHA256Sum(mustJSON(d)))
			}
			return out
		}
		baseline := digest()
		unknownRef := hash.SHA256Sum([]byte("never seen transaction"))
		step := func(signer party, update bool, prevName string, payload []byte) string {
			var prevs []hash.SHA256Hash
			lc := uint32(1)
			switch prevName {
			case "A", "B":
				prevs = []hash.SHA256Hash{created[prevName].Ref()}
			case "N":
				prevs = []hash.SHA256Hash{unknownRef}
			case "A+B":
				prevs = []hash.SHA256Hash{created["A"].Ref(), created["B"].Ref()}
			case "none":
				lc = 0
			}
			tx, _ := mustTxPayloadHash(header(signer, update, prevs, lc), payload)
			before := digest()
			if err := didnuts.VerifAmbassadorCallback(fix.amb, tx, payload); err != nil {
				if after := digest(); after != before {
					return fmt.Sprintf("!state-changed: rejected DID document changed the DID store: %s -> %s (%v)", before, after, err)
				}
				return "rejected"
			}
			// what the node does with stored documents afterwards
			for _, pn := range []string{"A", "B", "N"} {
				id := mustDID(parties[pn].id)
				_, _, _ = fix.store.Resolve(id, nil)
				_, _, _ = (resolver.DIDKeyResolver{Resolver: didnuts.Resolver{Store: fix.store}}).ResolveKey(id, nil, resolver.CapabilityInvocation)
			}
			return "ok"
		}
		prev := s.OnAbandon
		s.OnAbandon = setup
		defer func() { s.OnAbandon = prev }()
		run := func(desc string, signerName string, update bool, prevName string, payload func() []byte) {
			res, ran := s.Case(name, desc, true, true, func() ([]byte, func() string) {
				if digest() != baseline {
					// an earlier accepted transaction changed the store: every case starts from {A, B}
					_ = fix.db.Close(context.Background())
					setup()
				}
				raw := payload()
				return raw, func() string { return step(parties[signerName], update, prevName, raw) }
			})
			if ran && (res.Panicked || res.TimedOut) {
				setup()
			}
		}
		kinds := map[bool]string{false: "create", true: "update"}
		for _, update := range []bool{false, true} {
			for _, signer := range []string{"A", "B", "N"} {
				for _, payloadDID := range []string{"A", "B", "N"} {
					for _, prevName := range []string{"A", "B", "N", "A+B", "none"} {
						update, signer, payloadDID, prevName := update, signer, payloadDID, prevName
						run(fmt.Sprintf("%s/signer=%s/payload=%s/prevs=%s/valid", kinds[update], signer, payloadDID, prevName), signer, update, prevName, func() []byte { return mustJSON(parties[payloadDID].doc) })
					}
				}
			}
		}
		// every single mutant of the documents of A and N, for the signer / prevs combinations
		for _, payloadDID := range []string{"A", "N"} {
			for _, m := range enum.Singles(parties[payloadDID].doc, enum.Options{ExtremeInts: true}) {
				for _, update := range []bool{false, true} {
					for _, signer := range []string{"A", "B", "N"} {
						for _, prevName := range []string{"A", "B", "N"} {
							if !update && signer != payloadDID && prevName != "A" {
								continue // a creation is judged on signer == document id before prevs matter
							}
							m, update, signer, prevName := m, update, signer, prevName
							run(fmt.Sprintf("%s/signer=%s/payload=%s/prevs=%s/%s", kinds[update], signer, payloadDID, prevName, m.Desc()), signer, update, prevName, func() []byte { return mustJSON(m.Doc) })
						}
					}
				}
				if s.Stopped() {
					return
				}
			}
		}
	})

	register("tokenv2", func(t *testing.T, s *crash.Sweep, thorough bool) {
		name := "tokenV2.middleware"
		if !s.WantEntry(name) {
			return
		}
		pub, err := ssh.NewPublicKey(keyA.Public())
		if err != nil {
			t.Fatal(err)
		}
		keys := strings.TrimSpace(string(ssh.MarshalAuthorizedKey(pub))) + " alice\n"
		mw, err := tokenV2.New(nil, "verif-aud", []byte(keys))
		if err != nil {
			t.Fatal(err)
		}
		e := echo.New()
		next := func(c echo.Context) error { return c.String(200, "handler ran") }
		call := func(authz string) string {
			req := httptest.NewRequest(http.MethodGet, "/internal/x", nil)
			req.Header.Set("Authorization", authz)
			rec := httptest.NewRecorder()
			c := e.NewContext(req, rec)
			if err := mw.Handler(next)(c); err != nil {
				e.HTTPErrorHandler(err, c)
			}
			if rec.Code == 200 {
				return "ok"
			}
			return fmt.Sprintf("status-%d", rec.Code)
		}
		now := float64(time.Now().Unix())
		hdr := map[string]any{"typ": "JWT", "alg": "ES256", "kid": ssh.FingerprintSHA256(pub)}
		claims := map[string]any{"jti": "b6b3a1d8-6d6b-4a3c-8f0a-0d2b6d0c2d11", "iat": now - 60, "nbf": now - 60, "exp": now + 3600, "aud": []any{"verif-aud"}, "iss": "alice", "sub": "alice-laptop"}
		joseSweep(s, name, "i0", hdr, claims, keyA, thorough, false, func(tok string) string { return call("Bearer " + tok) })
		tok := crash.CompactJSON(hdr, claims, keyA)
		for i, a := range []string{"", "Bearer", "Bearer ", "bearer " + tok, "Basic " + tok, "Bearer " + tok + " x", "Bearer\t" + tok, "Bearer " + strings.Repeat("a", 5000), "Bearer \x00", tok, "Bearer .", "Bearer a.b.c"} {
			a := a
			s.Case(name, fmt.Sprintf("authz#%d", i), true, false, func() ([]byte, func() string) { return []byte(a), func() string { return call(a) } })
		}
	})

	register("statuslist", func(t *testing.T, s *crash.Sweep, thorough bool) {
		nameE := "revocation.expand"
		nameV := "revocation.StatusList2021.Verify"
		if s.WantEntry(nameE) {
			gz := func(b []byte) []byte {
				var buf bytes.Buffer
				w := gzip.NewWriter(&buf)
				_, _ = w.Write(b)
				_ = w.Close()
				return buf.Bytes()
			}
			valid := gz(make([]byte, 16*1024))
			two := append(append([]byte{}, valid...), gz([]byte{1, 2, 3})...)
			raws := map[string][]byte{"valid": valid, "empty-gzip": gz(nil), "two-members": two, "header-only": valid[:10], "magic-only": valid[:2], "empty": {},
				"not-gzip": []byte("hello world, not gzip"), "zeroes": make([]byte, 64), "ff": bytes.Repeat([]byte{0xff}, 64), "trailing-garbage": append(append([]byte{}, valid...), 1, 2, 3),
				"bad-crc": append(append([]byte{}, valid[:len(valid)-8]...), 0, 0, 0, 0, 0, 0, 0, 0), "flags-all": append([]byte{0x1f, 0x8b, 8, 0xff}, valid[4:]...), "method-0": append([]byte{0x1f, 0x8b, 0, 0}, valid[4:]...)}
			for i := 0; i < len(valid); i++ {
				raws[fmt.Sprintf("trunc-%03d", i)] = valid[:i]
				fl := append([]byte{}, valid...)
				fl[i] ^= 0xff
				raws[fmt.Sprintf("flip-%03d", i)] = fl
			}
			for _, rn := range sortedKeys(raws) {
				for en, enc := range map[string]func([]byte) string{"rawurl": base64.RawURLEncoding.EncodeToString, "url": base64.URLEncoding.EncodeToString, "std": base64.StdEncoding.EncodeToString} {
					in := enc(raws[rn])
					s.Case(nameE, rn+"/"+en, true, false, func() ([]byte, func() string) {
						return []byte(in), func() string { _, err := revocation.VerifExpand(in); return errClass(err) }
					})
				}
			}
			for i, in := range append([]string{"=", "====", "a", "ab", "abc", "a=bc", "H4sI", "H4sIAAAAAAAA", "H4sIAAAAAAAA/w", " H4sI", "H4sI\n"}, hostileStrings()...) {
				in := in
				s.Case(nameE, fmt.Sprintf("text#%d", i), true, false, func() ([]byte, func() string) {
					return []byte(in), func() string { _, err := revocation.VerifExpand(in); return errClass(err) }
				})
			}
		}
		if !s.WantEntry(nameV) {
			return
		}
		db := orm.NewTestDatabase(t)
		listURL := "https://issuer.example.com/statuslist/1"
		bits := make([]byte, 16*1024)
		bits[0] = 0x04 // index 5 is revoked
		encoded, err := revocation.VerifCompress(bits)
		if err != nil {
			t.Fatal(err)
		}
		list := map[string]any{
			"@context":          []any{"https://www.w3.org/2018/credentials/v1", "https://w3id.org/vc/status-list/2021/v1"},
			"id":                listURL,
			"type":              []any{"VerifiableCredential", "StatusList2021Credential"},
			"issuer":            issuerDID,
			"issuanceDate":      time.Now().Add(-time.Hour).UTC().Format(time.RFC3339),
			"expirationDate":    time.Now().Add(time.Hour).UTC().Format(time.RFC3339),
			"credentialSubject": map[string]any{"id": listURL, "type": "StatusList2021", "statusPurpose": "revocation", "encodedList": encoded},
			"proof":             ldProofStub(issuerDID + "#0"),
		}
		cred := func(index string) map[string]any {
			c := orgVC("st1")
			c["@context"] = append(c["@context"].([]any), "https://w3id.org/vc/status-list/2021/v1")
			c["credentialStatus"] = map[string]any{"id": listURL + "#" + index, "type": "StatusList2021Entry", "statusPurpose": "revocation", "statusListIndex": index, "statusListCredential": listURL}
			return c
		}
		client := &stubHTTP{contentType: "application/json", status: 200}
		cs := revocation.NewStatusList2021(db, client, "https://node.example.com")
		cs.VerifySignature = func(vc.VerifiableCredential, *time.Time) error { return nil } // the signature check is swept through verifier.Verify
		count := func() int64 {
			var n int64
			db.Table("status_list_credential").Count(&n)
			return n
		}
		call := func(credRaw, listRaw []byte) func() string {
			return func() string {
				db.Exec("DELETE FROM status_list_credential")
				client.body = listRaw
				var c vc.VerifiableCredential
				if err := c.UnmarshalJSON(credRaw); err != nil {
					return "parse-err"
				}
				err := cs.Verify(c)
				switch {
				case err == nil:
					return "not-revoked"
				case err == types.ErrRevoked || strings.Contains(err.Error(), "revoked"):
					return "revoked"
				default:
					// only a list that was itself refused (download / validation / signature) must leave no record; a list
					// that is accepted and then does not fit the credential's entry (purpose, index range) is legitimately cached
					if n := count(); n != 0 && strings.HasPrefix(err.Error(), "status list:") {
						return fmt.Sprintf("!state-changed: failed status check stored %d status list record(s): %v", n, err)
					}
					return "err"
				}
			}
		}
		if !s.Replaying() {
			if out := call(mustJSON(cred("5")), mustJSON(list))(); out != "revoked" {
				t.Fatalf("harness: revoked index not reported: %s", out)
			}
			if out := call(mustJSON(cred("6")), mustJSON(list))(); out != "not-revoked" {
				t.Fatalf("harness: unrevoked index not reported: %s", out)
			}
		}
		credRaw := mustJSON(cred("6"))
		s.JSON(nameV, "list", list, hostile, thorough, false, func(d any) ([]byte, func() string) {
			raw := mustJSON(d)
			return raw, call(credRaw, raw)
		})
		rawVariants(s, nameV, "list", mustJSON(list), false, func(raw []byte) func() string { return call(credRaw, raw) })
		listRaw := mustJSON(list)
		s.JSON(nameV, "entry", cred("6"), enumNoBig(), false, false, func(d any) ([]byte, func() string) {
			raw := mustJSON(d)
			return raw, call(raw, listRaw)
		})
		for i, idx := range []string{"0", "-1", "131071", "131072", "9223372036854775807", "9223372036854775808", "1e3", "0x10", " 5", "5 ", "+5", "٥", ""} {
			idx := idx
			s.Case(nameV, fmt.Sprintf("index#%d", i), true, false, func() ([]byte, func() string) {
				raw := mustJSON(cred(idx))
				return raw, call(raw, listRaw)
			})
		}
		// server answers
		for i, st := range []int{200, 204, 299, 300, 404, 500, 0, -1} {
			st := st
			s.Case(nameV, fmt.Sprintf("status#%d", i), true, false, func() ([]byte, func() string) {
				return []byte(fmt.Sprint(st)), func() string {
					client.status = st
					defer func() { client.status = 200 }()
					return call(credRaw, listRaw)()
				}
			})
		}
		// ---- HISTORY: verify (the list is downloaded and cached) -> time passes {16 min: stale, 25 h: expired} -> verify again
		// while the remote answers every mutant of the valid list / transport failures. Time is advanced by ageing the cached
		// record (created_at / expires columns), which is what the passing of time changes for this code.
		nameH := "revocation.StatusList2021.Verify(history: cached, aged, refresh)"
		if s.WantEntry(nameH) {
			history := func(age string, credRaw, secondList []byte, secondStatus int) func() string {
				return func() string {
					db.Exec("DELETE FROM status_list_credential")
					client.body, client.status = listRaw, 200
					var c vc.VerifiableCredential
					if err := c.UnmarshalJSON(credRaw); err != nil {
						panic("harness: " + err.Error())
					}
					if err := cs.Verify(c); (err != nil && !strings.Contains(err.Error(), "revoked")) || count() != 1 {
						panic(fmt.Sprintf("harness: first verification did not cache the list: %v", err))
					}
					now := time.Now()
					switch age {
					case "16min":
						db.Exec("UPDATE status_list_credential SET created_at = ?", now.Add(-16*time.Minute).Unix())
					case "25h":
						db.Exec("UPDATE status_list_credential SET created_at = ?, expires = ?", now.Add(-25*time.Hour).Unix(), now.Add(-24*time.Hour).Unix())
					case "25h-no-expiry":
						db.Exec("UPDATE status_list_credential SET created_at = ?, expires = NULL", now.Add(-25*time.Hour).Unix())
					}
					client.body, client.status = secondList, secondStatus
					defer func() { client.status = 200 }()
					err := cs.Verify(c)
					switch {
					case err == nil:
						return "not-revoked"
					case strings.Contains(err.Error(), "revoked"):
						return "revoked"
					}
					return "err"
				}
			}
			ages := []string{"0", "16min", "25h", "25h-no-expiry"}
			if !s.Replaying() {
				for _, a := range ages {
					if out := history(a, credRaw, listRaw, 200)(); out != "not-revoked" {
						t.Fatalf("harness: history with a valid refresh (age %s): %s", a, out)
					}
				}
			}
			for _, a := range ages[1:] {
				a := a
				s.JSON(nameH, "age="+a+"/list", list, enumNoBig(), false, false, func(d any) ([]byte, func() string) {
					raw := mustJSON(d)
					return raw, history(a, credRaw, raw, 200)
				})
				rawVariants(s, nameH, "age="+a+"/list", listRaw, false, func(raw []byte) func() string { return history(a, credRaw, raw, 200) })
				for i, st := range []int{200, 204, 299, 300, 404, 500, 0, -1} {
					for _, idx := range []string{"5", "6"} {
						st, idx := st, idx
						s.Case(nameH, fmt.Sprintf("age=%s/status#%d/index=%s", a, i, idx), true, false, func() ([]byte, func() string) {
							return []byte(fmt.Sprint(st)), history(a, mustJSON(cred(idx)), listRaw, st)
						})
					}
				}
			}
		}
		_ = context.Background
		_ = io.Discard
	})
}

func mustTxPayloadHash(header any, payload []byte) (dag.Transaction, []byte) {
	return mustTx(header, payload)
}
