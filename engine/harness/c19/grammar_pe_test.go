package c19

import (
	"context"
	"encoding/json"
	"errors"
	"fmt"
	"strings"
	"sync"
	"testing"
	"time"

	"github.com/lestrrat-go/jwx/v2/jwk"
	"github.com/nuts-foundation/go-did/did"
	"github.com/nuts-foundation/go-did/vc"
	"github.com/nuts-foundation/nuts-node/audit"
	nutsCrypto "github.com/nuts-foundation/nuts-node/crypto"
	"github.com/nuts-foundation/nuts-node/jsonld"
	"github.com/nuts-foundation/nuts-node/vcr/holder"
	"github.com/nuts-foundation/nuts-node/vcr/pe"
	"github.com/nuts-foundation/nuts-node/vdr/didjwk"
	"github.com/nuts-foundation/nuts-node/vdr/resolver"
	"github.com/piprate/json-gold/ld"

	"verif/crash"
)

// ---------------------------------------------------------------------------------------------------------------
// fixture: a did:jwk holder with a real in-memory wallet (the one the node builds for user wallets), and "wide"
// credentials whose subject carries one member per JSON type.

type peGrammarFix struct {
	holder did.DID
	signer nutsCrypto.JWTSigner
	keys   resolver.KeyResolver
	loader ld.DocumentLoader
	// credentials by format name
	creds map[string]vc.VerifiableCredential
	// verifier side: a presentation of a remote party holding exactly that credential, and the matching submission
	envs map[string]*pe.Envelope
	subs map[string][]byte
}

var (
	peGFixOnce sync.Once
	peGFix     *peGrammarFix
)

// valueKinds: member of credentialSubject -> JSON type of the value the field path selects.
var valueKinds = []string{"vs", "vn", "vi", "vb", "vz", "vas", "van", "vam", "vaa", "vae", "vao", "vo", "vx"}

func wideSubject(holderID string) map[string]any {
	return map[string]any{
		"id":  holderID,
		"vs":  "IJbergen",
		"vn":  42.5,
		"vi":  float64(42),
		"vb":  true,
		"vz":  nil,
		"vas": []any{"nurse", "IJbergen"},
		"van": []any{float64(1), float64(42)},
		"vam": []any{"IJbergen", float64(1), true, nil, map[string]any{"k": "v"}, []any{"n"}},
		"vaa": []any{[]any{"IJbergen"}, []any{"z"}},
		"vae": []any{},
		"vao": []any{map[string]any{"k": "IJbergen"}, map[string]any{"k": "w"}},
		"vo":  map[string]any{"k": "IJbergen", "n": float64(1)},
		// "vx" is missing
	}
}

func wideLD(holderID, id string, withProof bool) map[string]any {
	c := map[string]any{
		"@context":          []any{"https://www.w3.org/2018/credentials/v1"},
		"id":                issuerDID + "#" + id,
		"type":              []any{"WideCredential", "VerifiableCredential"},
		"issuer":            issuerDID,
		"issuanceDate":      "2024-01-01T00:00:00Z",
		"expirationDate":    "2034-01-01T00:00:00Z",
		"credentialSubject": wideSubject(holderID),
	}
	if withProof {
		c["proof"] = ldProofStub(issuerDID + "#0")
	}
	return c
}

func wideJWT(holderID, id string, signed bool) string {
	doc := wideLD(holderID, id, false)
	inner := map[string]any{"@context": doc["@context"], "type": doc["type"], "credentialSubject": doc["credentialSubject"]}
	claims := map[string]any{"iss": issuerDID, "sub": holderID, "jti": issuerDID + "#" + id, "nbf": float64(1704067200), "exp": float64(2019686400), "vc": inner}
	tok := crash.CompactJSON(map[string]any{"alg": "ES256", "typ": "JWT", "kid": issuerDID + "#0"}, claims, keyB)
	if !signed {
		tok = tok[:strings.LastIndex(tok, ".")+1]
	}
	return tok
}

func getPEGrammarFix(t *testing.T) *peGrammarFix {
	peGFixOnce.Do(func() {
		f := &peGrammarFix{creds: map[string]vc.VerifiableCredential{}, envs: map[string]*pe.Envelope{}, subs: map[string][]byte{}}
		id := didJWK(keyA)
		f.holder = did.MustParseDID(id)
		j, err := jwk.FromRaw(keyA)
		if err != nil {
			t.Fatal(err)
		}
		_ = j.Set(jwk.KeyIDKey, id+"#0")
		f.signer = nutsCrypto.MemoryJWTSigner{Key: j}
		f.keys = resolver.DIDKeyResolver{Resolver: didjwk.NewResolver()}
		f.loader = jsonld.NewTestJSONLDManager(t).DocumentLoader()
		f.creds["ld"] = parseVC(string(mustJSON(wideLD(id, "w-ld", true))))
		f.creds["ld-noproof"] = parseVC(string(mustJSON(wideLD(id, "w-ldnp", false))))
		f.creds["jwt"] = parseVC(wideJWT(id, "w-jwt", true))
		f.creds["jwt-nosig"] = parseVC(wideJWT(id, "w-jwtns", false))
		// verifier side
		for _, cf := range []string{"ld", "ld-noproof"} {
			var doc any
			_ = json.Unmarshal(mustJSON(f.creds[cf]), &doc)
			env, err := pe.ParseEnvelope(mustJSON(ldVP(doc)))
			if err != nil {
				t.Fatalf("harness: %v", err)
			}
			f.envs[cf] = env
			f.subs[cf] = []byte(`{"id":"s","definition_id":"pd","descriptor_map":[{"id":"d","format":"ldp_vc","path":"$.verifiableCredential"}]}`)
		}
		for _, cf := range []string{"jwt", "jwt-nosig"} {
			hdr, claims := jwtVPClaims(f.creds[cf].Raw())
			env, err := pe.ParseEnvelope([]byte(crash.CompactJSON(hdr, claims, keyA)))
			if err != nil {
				t.Fatalf("harness: %v", err)
			}
			f.envs[cf] = env
			f.subs[cf] = []byte(`{"id":"s","definition_id":"pd","descriptor_map":[{"id":"d","format":"jwt_vc","path":"$.verifiableCredential[0]"}]}`)
		}
		peGFix = f
	})
	if peGFix == nil {
		t.Fatal("harness: PE grammar fixture not available")
	}
	return peGFix
}

var jwtVPOnly = map[string]map[string][]string{"jwt_vp_json": {"alg_values_supported": {"ES256"}}}

// walletPath: what the node does with a definition received from a remote verifier (inline presentation_definition or
// fetched from presentation_definition_uri: plain json.Unmarshal, no schema) — hand it to the holder's wallet.
func (f *peGrammarFix) walletPath(defRaw []byte, creds []vc.VerifiableCredential, vpFormats map[string]map[string][]string) (string, *vc.VerifiablePresentation, *pe.PresentationSubmission) {
	var pd *pe.PresentationDefinition
	if err := json.Unmarshal(defRaw, &pd); err != nil {
		return "unmarshal-err", nil, nil
	}
	if pd == nil {
		return "null", nil, nil
	}
	w := holder.NewMemoryWallet(f.loader, f.keys, f.signer, map[did.DID][]vc.VerifiableCredential{f.holder: creds})
	vp, sub, err := w.BuildSubmission(audit.TestContext(), []did.DID{f.holder}, nil, *pd, holder.BuildParams{
		Audience: "https://verifier.example.com/oauth2/v", Expires: time.Now().Add(15 * time.Minute), Format: vpFormats, Nonce: "nonce"})
	if err != nil {
		if errors.Is(err, pe.ErrNoCredentials) {
			return "no-credentials", nil, nil
		}
		return "build-err", nil, nil
	}
	return "ok", vp, sub
}

// verifierPath: what the node does with a presentation + submission of a remote party against one of its (schema-gated)
// definitions: Validate, then resolve the constraint fields for the introspection result.
func verifierPath(defRaw []byte, env *pe.Envelope, subRaw []byte) string {
	pd, err := pe.ParsePresentationDefinition(defRaw)
	if err != nil {
		return "schema-err"
	}
	if env == nil {
		return "no-envelope"
	}
	sub, err := pe.ParsePresentationSubmission(subRaw)
	if err != nil {
		return "submission-err"
	}
	creds, err := sub.Validate(*env, *pd)
	if err != nil {
		return "invalid"
	}
	if _, err := pd.ResolveConstraintsFields(creds); err != nil {
		return "resolve-err"
	}
	return "ok"
}

// both runs a definition through the wallet path and the verifier path; the verifier sees the prepared presentation of
// the remote party (env) or, when there is none, whatever the wallet itself produced.
func (f *peGrammarFix) both(defRaw []byte, creds []vc.VerifiableCredential, vpFormats map[string]map[string][]string, env *pe.Envelope, subRaw []byte) string {
	wo, vp, sub := f.walletPath(defRaw, creds, vpFormats)
	if env == nil && vp != nil && sub != nil {
		raw := mustJSON(vp)
		if vp.Format() == vc.JWTPresentationProofFormat {
			raw = []byte(vp.Raw())
		}
		if e, err := pe.ParseEnvelope(raw); err == nil {
			env, subRaw = e, mustJSON(sub)
		}
	}
	return "w:" + wo + "/v:" + verifierPath(defRaw, env, subRaw)
}

// ---------------------------------------------------------------------------------------------------------------
// alphabets

var (
	fTypes = []alt{{"string", `"string"`}, {"number", `"number"`}, {"integer", `"integer"`}, {"boolean", `"boolean"`}, {"array", `"array"`},
		{"object", `"object"`}, {"null", `"null"`}, {"unknown", `"unknown"`}, {"absent", ""}}
	fConsts   = []alt{{"absent", ""}, {"eq", `"IJbergen"`}, {"elem", `"nurse"`}, {"other", `"other"`}, {"empty", `""`}, {"numstr", `"42"`}}
	fEnums    = []alt{{"absent", ""}, {"empty", `[]`}, {"eq", `["IJbergen"]`}, {"elem2nd", `["other","nurse"]`}, {"other", `["other"]`}}
	fPatterns = []alt{{"absent", ""}, {"g0", `"^IJ"`}, {"g1", `"^(IJ.*)$"`}, {"g2", `"^(I)(J)"`}, {"nomatch", `"^zz"`}, {"invalid", `"("`}, {"empty", `""`}, {"nonstr", `"^[4tn1]"`}}
	// values the Go struct refuses (json.Unmarshal error) or the schema refuses: tried singly in an otherwise typical filter
	fOdd = map[string][]alt{
		"type":    {{"json-null", "null"}, {"empty", `""`}, {"list", `["string","number"]`}, {"num", "5"}, {"obj", "{}"}, {"upper", `"String"`}, {"bool", "true"}},
		"const":   {{"int", "42"}, {"float", "42.5"}, {"bool", "true"}, {"json-null", "null"}, {"array", `["nurse"]`}, {"object", `{"k":"IJbergen"}`}, {"huge", "1e400"}},
		"enum":    {{"ints", "[42]"}, {"mixed", `["IJbergen",1]`}, {"json-null", "null"}, {"string", `"x"`}, {"nulls", "[null]"}, {"nested", `[["IJbergen"]]`}, {"object", "{}"}, {"bools", "[true,false]"}},
		"pattern": {{"int", "5"}, {"json-null", "null"}, {"array", `["^IJ"]`}, {"object", "{}"}, {"bool", "true"}},
	}
	// the pairwise-covering core of the filter grammar: every declared type x every SUBSET of the keywords
	coreSubsets = []struct{ name, c, e, p string }{
		{"none", "", "", ""}, {"c", `"IJbergen"`, "", ""}, {"e", "", `["other","IJbergen"]`, ""}, {"p", "", "", `"^(IJ.*)$"`},
		{"ce", `"IJbergen"`, `["other","IJbergen"]`, ""}, {"cp", `"IJbergen"`, "", `"^(IJ.*)$"`}, {"ep", "", `["other","IJbergen"]`, `"^(IJ.*)$"`},
		{"cep", `"IJbergen"`, `["other","IJbergen"]`, `"^(IJ.*)$"`},
	}
)

func filterJSON(typ, cnst, enm, pat string) string {
	return jobj("type", typ, "const", cnst, "enum", enm, "pattern", pat)
}

func directPaths(k string) string {
	return jarr(jstr("$.credentialSubject."+k), jstr("$.credentialSubject[0]."+k))
}

// fieldDef renders a one-descriptor definition with the given field members (raw JSON).
func fieldDef(fieldMembers ...string) []byte {
	return []byte(`{"id":"pd","input_descriptors":[{"id":"d","constraints":{"fields":[` + jobj(fieldMembers...) + `]}}]}`)
}

// coreFilters: name -> raw filter, every declared type x every keyword subset (+ "no filter member at all").
func coreFilters() []alt {
	var out []alt
	for _, ty := range fTypes {
		for _, sub := range coreSubsets {
			out = append(out, alt{"type=" + ty.name + "/kw=" + sub.name, filterJSON(ty.raw, sub.c, sub.e, sub.p)})
		}
	}
	out = append(out, alt{"nofilter", ""})
	return out
}

// pathForms: forms that depend on the selected member k, and fixed forms.
func pathFormsFor(k string) []alt {
	d0, d1 := "$.credentialSubject."+k, "$.credentialSubject[0]."+k
	two := func(suffix string) string { return jarr(jstr(d0+suffix), jstr(d1+suffix)) }
	return []alt{
		{"miss-first", jarr(jstr("$.credentialSubject.nope"), jstr("$.nope.deeper"), jstr(d0), jstr(d1))},
		{"hit-other-first", jarr(jstr("$.issuer"), jstr(d0), jstr(d1))},
		{"hit-array-first", jarr(jstr("$.type"), jstr(d0), jstr(d1))},
		{"hit-object-first", jarr(jstr("$.credentialSubject"), jstr(d0), jstr(d1))},
		{"bracket", jarr(jstr("$.credentialSubject['"+k+"']"), jstr("$.credentialSubject[0]['"+k+"']"))},
		{"bracket-dq", jarr(jstr(`$["credentialSubject"]["`+k+`"]`), jstr(`$["credentialSubject"][0]["`+k+`"]`))},
		{"recursive", jarr(jstr("$.." + k))},
		{"recursive-index", jarr(jstr("$.." + k + "[0]"))},
		{"index0", two("[0]")}, {"index-neg", two("[-1]")}, {"index-out", two("[7]")}, {"index-huge", two("[9223372036854775807]")},
		{"wildcard", two("[*]")}, {"wildcard-dot", two(".*")}, {"slice", two("[0:1]")}, {"slice-open", two("[1:]")}, {"slice-neg", two("[-1:]")}, {"slice-step", two("[::2]")},
		{"union", two("[1,0]")}, {"descend", two(".k")}, {"descend-deep", two(".k.k.k")},
		{"filter-exists", two("[?(@.k)]")}, {"filter-eq", two(`[?(@ == "IJbergen")]`)}, {"filter-gt", two("[?(@ > 1)]")}, {"filter-regex", two(`[?(@ =~ /IJ.*/)]`)},
		{"script-index", two("[(@.length-1)]")}, {"length", two(".length")},
		{"same-twice", jarr(jstr(d0), jstr(d0), jstr(d1), jstr(d1))},
	}
}

func fixedPathForms() []alt {
	deep := "$" + strings.Repeat(".a", 3000)
	brackets := "$" + strings.Repeat("[", 3000)
	many := make([]string, 60)
	for i := range many {
		many[i] = jstr(fmt.Sprintf("$.credentialSubject.m%d", i))
	}
	return []alt{
		{"root", `["$"]`}, {"all", `["$..*"]`}, {"root-wild", `["$.*"]`}, {"root-wild-bracket", `["$[*]"]`}, {"subject", `["$.credentialSubject"]`},
		{"subject-wild", `["$.credentialSubject.*","$.credentialSubject[0].*"]`}, {"subject-index-wild", `["$.credentialSubject[*]"]`},
		{"type", `["$.type"]`}, {"type0", `["$.type[0]"]`}, {"proof", `["$.proof"]`}, {"proof-type", `["$.proof.type","$.proof[0].type"]`}, {"date", `["$.issuanceDate"]`},
		{"context", `["$['@context']"]`}, {"context-dot", `["$.@context"]`},
		{"filter-number", `["$.credentialSubject[?(@.vn > 1)]","$..[?(@.vn > 1)]"]`}, {"filter-regex", `["$..[?(@.vs =~ /IJ.*/)]"]`}, {"filter-any", `["$..[?(@.k)]"]`},
		{"filter-bad-regex", `["$..[?(@.vs =~ /(/)]"]`}, {"filter-arith", `["$..[?(@.vn / 0 > 1)]"]`}, {"filter-type-clash", `["$..[?(@.vs > 1)]","$..[?(@.vo == @.vas)]"]`},
		{"union-keys", `["$['credentialSubject','issuer']"]`}, {"union-subject", `["$.credentialSubject['vs','vn']"]`},
		{"empty-string", `[""]`}, {"open-bracket", `["$["]`}, {"no-root", `["credentialSubject.vs"]`}, {"dot-only", `["$."]`}, {"dots", `["$.."]`}, {"triple-dot", `["$...vs"]`},
		{"number-literal", `["42"]`}, {"string-literal", `["\"IJbergen\""]`}, {"bool-literal", `["true"]`}, {"null-literal", `["null"]`}, {"arith", `["$.credentialSubject.vn + 1","1/0"]`},
		{"array-literal", `["[1,2]"]`}, {"object-literal", `["{\"a\":1}"]`}, {"placeholder", `["$x","@","@.vs","#","$[#]"]`}, {"root-index", `["$[0]","$[-1]"]`},
		{"paren", `["($.credentialSubject.vs)","$.credentialSubject.vs)"]`}, {"func-call", `["$.credentialSubject.vs.length()","len($.type)"]`},
		{"whitespace", `[" $.credentialSubject.vs "," ","\t"]`}, {"nul", `["$.credentialSubject.v\u0000s","\u0000"]`}, {"unicode", `["$.credentialSubject.‮vs","$.ÿ"]`},
		{"quote-odd", `["$['vs","$['v\\'s']","$[\"]"]`}, {"deep", jarr(jstr(deep))}, {"deep-brackets", jarr(jstr(brackets))},
		{"no-paths", `[]`}, {"many-paths", jarr(many...)},
	}
}

func init() {
	// ---- (a1) the full filter product x value type x credential format
	registerG("pe-a1-filter-product", func(t *testing.T, s *crash.Sweep, thorough bool) {
		name := "pe.grammar(filter product)"
		if !s.WantEntry(name) {
			return
		}
		f := getPEGrammarFix(t)
		run := func(def []byte, cf string) func() string {
			return func() string { return f.both(def, []vc.VerifiableCredential{f.creds[cf]}, jwtVPOnly, f.envs[cf], f.subs[cf]) }
		}
		if !s.Replaying() {
			// vacuity guards: the typical filter matches on both paths, in both formats; a type clash does not
			for _, cf := range []string{"ld", "jwt"} {
				typical := fieldDef("id", `"f"`, "path", directPaths("vs"), "filter", filterJSON(`"string"`, "", "", `"^(IJ.*)$"`))
				if out := run(typical, cf)(); out != "w:ok/v:ok" {
					t.Fatalf("harness: typical definition not fulfilled (%s): %s", cf, out)
				}
				clash := fieldDef("id", `"f"`, "path", directPaths("vn"), "filter", filterJSON(`"string"`, "", "", `"^(IJ.*)$"`))
				if out := run(clash, cf)(); out != "w:no-credentials/v:invalid" {
					t.Fatalf("harness: string filter on a number value is not refused (%s): %s", cf, out)
				}
			}
		}
		formats := []string{"ld", "jwt"}
		for _, ty := range fTypes {
			for _, c := range fConsts {
				for _, e := range fEnums {
					for _, p := range fPatterns {
						filter := filterJSON(ty.raw, c.raw, e.raw, p.raw)
						isCore := (c.name == "absent" || c.name == "eq") && (e.name == "absent" || e.name == "eq") && (p.name == "absent" || p.name == "g1")
						for _, k := range valueKinds {
							for _, cf := range formats {
								if !thorough && cf == "jwt" && !isCore {
									continue // quick: the full keyword-value product on one credential format, the type x keyword-subset x value core on both
								}
								k, cf := k, cf
								s.Case(name, fmt.Sprintf("type=%s/const=%s/enum=%s/pattern=%s/value=%s/cred=%s", ty.name, c.name, e.name, p.name, k, cf), true, false, func() ([]byte, func() string) {
									def := fieldDef("id", `"f"`, "path", directPaths(k), "filter", filter)
									return def, run(def, cf)
								})
							}
						}
						if s.Stopped() {
							return
						}
					}
				}
			}
		}
		// struct- or schema-incompatible keyword values, singly, in every declared type, on every value type
		for _, kw := range []string{"type", "const", "enum", "pattern"} {
			for _, odd := range fOdd[kw] {
				for _, ty := range fTypes {
					if kw == "type" && ty.name != "string" {
						continue
					}
					m := map[string]string{"type": ty.raw, "const": "", "enum": "", "pattern": `"^(IJ.*)$"`}
					m[kw] = odd.raw
					filter := filterJSON(m["type"], m["const"], m["enum"], m["pattern"])
					for _, k := range valueKinds {
						k := k
						s.Case(name, fmt.Sprintf("odd-%s=%s/type=%s/value=%s/cred=ld", kw, odd.name, ty.name, k), true, false, func() ([]byte, func() string) {
							def := fieldDef("id", `"f"`, "path", directPaths(k), "filter", filter)
							return def, run(def, "ld")
						})
					}
				}
			}
		}
	})

	// ---- (a2) core filters x path forms x value type; (a3) core filters x flags x value type
	registerG("pe-a2-paths-flags", func(t *testing.T, s *crash.Sweep, thorough bool) {
		name := "pe.grammar(path forms + flags)"
		if !s.WantEntry(name) {
			return
		}
		f := getPEGrammarFix(t)
		run := func(def []byte, cf string) func() string {
			return func() string { return f.both(def, []vc.VerifiableCredential{f.creds[cf]}, jwtVPOnly, f.envs[cf], f.subs[cf]) }
		}
		core := coreFilters()
		formats := []string{"ld", "jwt"}
		for _, cfilt := range core {
			if !thorough && (strings.HasSuffix(cfilt.name, "/kw=ce") || strings.HasSuffix(cfilt.name, "/kw=cp") || strings.HasSuffix(cfilt.name, "/kw=ep")) {
				continue // quick: keyword subsets {}, {const}, {enum}, {pattern}, {const, enum, pattern} in the path-form dimension
			}
			for _, k := range valueKinds {
				for _, pf := range pathFormsFor(k) {
					for _, cf := range formats {
						if !thorough && cf == "jwt" && !strings.HasPrefix(pf.name, "recursive") && pf.name != "miss-first" {
							continue // quick: the path-form dimension on one credential format (jwt differs only in the [0] hop)
						}
						cfilt, pf, cf := cfilt, pf, cf
						s.Case(name, fmt.Sprintf("path=%s(%s)/%s/cred=%s", pf.name, k, cfilt.name, cf), true, false, func() ([]byte, func() string) {
							def := fieldDef("id", `"f"`, "path", pf.raw, "filter", cfilt.raw)
							return def, run(def, cf)
						})
					}
				}
			}
			for _, pf := range fixedPathForms() {
				for _, cf := range formats {
					cfilt, pf, cf := cfilt, pf, cf
					s.Case(name, fmt.Sprintf("path=%s/%s/cred=%s", pf.name, cfilt.name, cf), true, false, func() ([]byte, func() string) {
						def := fieldDef("id", `"f"`, "path", pf.raw, "filter", cfilt.raw)
						return def, run(def, cf)
					})
				}
			}
			if s.Stopped() {
				return
			}
		}
		// flags: optional x id (what the Go code reads) x predicate x intent_to_retain (schema only); thorough: full product
		optionals := []alt{{"absent", ""}, {"true", "true"}, {"false", "false"}, {"null", "null"}}
		ids := []alt{{"absent", ""}, {"f", `"f"`}, {"empty", `""`}}
		predicates := []alt{{"absent", ""}, {"required", `"required"`}, {"preferred", `"preferred"`}}
		retains := []alt{{"absent", ""}, {"true", "true"}}
		flagKinds := valueKinds
		if !thorough {
			predicates, retains, optionals = predicates[:2], retains[:1], optionals[:3]
			flagKinds = []string{"vs", "vn", "vz", "vas", "vo", "vx"}
		}
		for _, cfilt := range core {
			for _, k := range flagKinds {
				for _, o := range optionals {
					for _, id := range ids {
						for _, pr := range predicates {
							for _, rt := range retains {
								for _, second := range []bool{false, true} {
									if second && !thorough && id.name != "f" {
										continue
									}
									cfilt, k, o, id, pr, rt, second := cfilt, k, o, id, pr, rt, second
									s.Case(name, fmt.Sprintf("optional=%s/id=%s/predicate=%s/retain=%s/second-field=%v/%s/value=%s", o.name, id.name, pr.name, rt.name, second, cfilt.name, k), true, false, func() ([]byte, func() string) {
										field := jobj("id", id.raw, "path", directPaths(k), "filter", cfilt.raw, "optional", o.raw, "predicate", pr.raw, "intent_to_retain", rt.raw)
										fields := field
										if second {
											// the same field id again behind it, selecting another value: the value map is keyed by field id
											fields = field + "," + jobj("id", id.raw, "path", directPaths("vas"), "optional", "true")
										}
										def := []byte(`{"id":"pd","input_descriptors":[{"id":"d","constraints":{"fields":[` + fields + `]}}]}`)
										return def, run(def, "ld")
									})
								}
							}
						}
					}
				}
			}
			if s.Stopped() {
				return
			}
		}
	})

	// ---- (b) submission requirements
	registerG("pe-b-requirements", func(t *testing.T, s *crash.Sweep, thorough bool) {
		name := "pe.grammar(submission requirements)"
		if !s.WantEntry(name) {
			return
		}
		f := getPEGrammarFix(t)
		org := parseVC(string(mustJSON(orgVC("org1"))))
		walletCreds := []vc.VerifiableCredential{f.creds["ld"], org, f.creds["jwt"]}
		// d1 (A) and d4 (A,B) match the wide credential, d2 (A,B) matches nothing, d3 (B) matches the organisation credential, d5 has no group
		descriptors := `[` +
			`{"id":"d1","group":["A"],"constraints":{"fields":[{"path":["$.type"],"filter":{"type":"string","const":"WideCredential"}}]}},` +
			`{"id":"d2","group":["A","B"],"constraints":{"fields":[{"path":["$.credentialSubject.vs","$.credentialSubject[0].vs"],"filter":{"type":"string","const":"nomatch"}}]}},` +
			`{"id":"d3","group":["B"],"constraints":{"fields":[{"path":["$.type"],"filter":{"type":"string","const":"NutsOrganizationCredential"}}]}},` +
			`{"id":"d4","group":["B","A"],"constraints":{"fields":[{"id":"n","path":["$.credentialSubject.vn","$.credentialSubject[0].vn"],"filter":{"type":"number"}}]}},` +
			`{"id":"d5","constraints":{"fields":[{"path":["$.issuer"]}]}}]`
		def := func(reqs string) []byte {
			return []byte(`{"id":"pd","submission_requirements":` + reqs + `,"input_descriptors":` + descriptors + `}`)
		}
		run := func(d []byte) func() string {
			return func() string { return f.both(d, walletCreds, jwtVPOnly, nil, nil) }
		}
		if !s.Replaying() {
			if out := run(def(`[{"rule":"pick","count":1,"from":"A"},{"rule":"pick","min":1,"from":"B"}]`))(); out != "w:ok/v:ok" {
				t.Fatalf("harness: typical submission requirements not fulfilled: %s", out)
			}
			if out := run(def(`[{"rule":"all","from":"A"},{"rule":"pick","min":0,"from":"B"}]`))(); out != "w:no-credentials/v:no-envelope" {
				t.Fatalf("harness: unsatisfiable requirement not refused: %s", out)
			}
		}
		rules := []alt{{"all", `"all"`}, {"pick", `"pick"`}, {"other", `"any"`}, {"absent", ""}, {"empty", `""`}}
		ints := func(extra ...alt) []alt {
			return append([]alt{{"absent", ""}, {"0", "0"}, {"1", "1"}, {"2", "2"}, {"5", "5"}, {"-1", "-1"}, {"2^31", "2147483648"}, {"2^63-1", "9223372036854775807"}, {"-2^63", "-9223372036854775808"}}, extra...)
		}
		counts, mins, maxs := ints(), ints(), ints()
		if !thorough {
			counts = []alt{{"absent", ""}, {"0", "0"}, {"1", "1"}, {"5", "5"}, {"-1", "-1"}, {"2^63-1", "9223372036854775807"}}
			mins = []alt{{"absent", ""}, {"0", "0"}, {"1", "1"}, {"5", "5"}, {"-1", "-1"}}
			maxs = []alt{{"absent", ""}, {"0", "0"}, {"1", "1"}, {"-1", "-1"}, {"2^63-1", "9223372036854775807"}}
		}
		froms := []alt{{"A", `"A"`}, {"B", `"B"`}, {"unknown", `"C"`}, {"empty", `""`}, {"absent", ""}}
		// groups referenced by nobody make the definition unmatchable ("group is required but not available"): pair every
		// requirement with one that references the other groups, in both orders, so that the rule logic is reached
		for _, rl := range rules {
			for _, c := range counts {
				for _, mn := range mins {
					for _, mx := range maxs {
						for _, fr := range froms {
							req := jobj("name", `"r"`, "rule", rl.raw, "count", c.raw, "min", mn.raw, "max", mx.raw, "from", fr.raw)
							for _, ctx := range []string{"alone", "with-rest-before", "with-rest-after"} {
								if !thorough && ctx == "with-rest-before" {
									continue
								}
								ctx := ctx
								s.Case(name, fmt.Sprintf("rule=%s/count=%s/min=%s/max=%s/from=%s/%s", rl.name, c.name, mn.name, mx.name, fr.name, ctx), true, false, func() ([]byte, func() string) {
									rest := `{"rule":"pick","min":0,"from":"A"},{"rule":"pick","min":0,"from":"B"}`
									var d []byte
									switch ctx {
									case "alone":
										d = def(jarr(req))
									case "with-rest-before":
										d = def(jarr(rest, req))
									default:
										d = def(jarr(req, rest))
									}
									return d, run(d)
								})
							}
						}
					}
				}
			}
			if s.Stopped() {
				return
			}
		}
		// struct-incompatible numbers and shapes, singly
		for i, req := range []string{
			`{"rule":"pick","count":1.5,"from":"A"}`, `{"rule":"pick","count":1e30,"from":"A"}`, `{"rule":"pick","count":"1","from":"A"}`, `{"rule":"pick","count":null,"min":null,"max":null,"from":"A"}`,
			`{"rule":"pick","max":1e400,"from":"A"}`, `{"rule":"pick","min":18446744073709551616,"from":"A"}`, `{"rule":"pick","count":true,"from":"A"}`, `{"rule":["pick"],"from":"A"}`,
			`{"rule":"pick","from":["A"]}`, `{"rule":"pick","from":null}`, `{"rule":"pick","from_nested":null}`, `{"rule":"pick","from_nested":{}}`, `{"rule":"pick","from_nested":[null]}`,
			`{"rule":"pick","from_nested":[[]]}`, `{"rule":"pick","from_nested":["A"]}`, `null`, `[]`, `"A"`, `{}`,
		} {
			req := req
			s.Case(name, fmt.Sprintf("odd-requirement#%d", i), true, false, func() ([]byte, func() string) {
				d := def(jarr(req, `{"rule":"pick","min":0,"from":"A"}`, `{"rule":"pick","min":0,"from":"B"}`))
				return d, run(d)
			})
		}
		for i, reqs := range []string{`null`, `{}`, `"x"`, `[null]`, `[[]]`, `[null,{"rule":"all","from":"A"},{"rule":"all","from":"B"}]`} {
			reqs := reqs
			s.Case(name, fmt.Sprintf("odd-requirements#%d", i), true, false, func() ([]byte, func() string) { d := def(reqs); return d, run(d) })
		}
		// nested: inner alphabet S x outer (rule x bound) x shapes
		type bound struct{ name, c, mn, mx string }
		bounds := []bound{{"none", "", "", ""}, {"count1", "1", "", ""}, {"count3", "3", "", ""}, {"count-1", "-1", "", ""}, {"count0", "0", "", ""}, {"min0", "", "0", ""}, {"min2", "", "2", ""},
			{"max0", "", "", "0"}, {"max1", "", "", "1"}, {"max-1", "", "", "-1"}, {"min1max0", "", "1", "0"}, {"all3", "1", "1", "1"}, {"minhuge", "", "9223372036854775807", ""}, {"maxhuge", "", "", "9223372036854775807"}}
		var inner []alt
		for _, rl := range []alt{{"all", `"all"`}, {"pick", `"pick"`}} {
			for _, b := range bounds {
				for _, fr := range []alt{{"A", `"A"`}, {"B", `"B"`}, {"C", `"C"`}} {
					if !thorough && fr.name == "C" && b.name != "none" && b.name != "count1" {
						continue
					}
					inner = append(inner, alt{rl.name + "." + b.name + "." + fr.name, jobj("rule", rl.raw, "count", b.c, "min", b.mn, "max", b.mx, "from", fr.raw)})
				}
			}
		}
		small := []alt{}
		for _, in := range inner {
			if strings.HasSuffix(in.name, ".C") {
				continue
			}
			if strings.Contains(in.name, ".none.") || strings.Contains(in.name, ".count1.") || strings.Contains(in.name, ".max0.") || strings.Contains(in.name, ".min2.") {
				small = append(small, in)
			}
		}
		for _, rl := range []alt{{"all", `"all"`}, {"pick", `"pick"`}} {
			for _, b := range bounds {
				outer := func(nested string, withFrom string) string {
					return jobj("name", `"outer"`, "rule", rl.raw, "count", b.c, "min", b.mn, "max", b.mx, "from", withFrom, "from_nested", nested)
				}
				emit := func(desc, reqs string) {
					s.Case(name, fmt.Sprintf("nested/outer=%s.%s/%s", rl.name, b.name, desc), true, false, func() ([]byte, func() string) { d := def(reqs); return d, run(d) })
				}
				for _, in := range inner {
					emit("one="+in.name, jarr(outer(jarr(in.raw), ""), `{"rule":"pick","min":0,"from":"A"}`, `{"rule":"pick","min":0,"from":"B"}`))
				}
				pairOuter := thorough || b.name == "none" || b.name == "count1" || b.name == "count3" || b.name == "max0" || b.name == "min2" || b.name == "min1max0"
				for _, i1 := range small {
					if !pairOuter {
						break
					}
					for _, i2 := range small {
						emit("two="+i1.name+"+"+i2.name, jarr(outer(jarr(i1.raw, i2.raw), "")))
					}
				}
				// depth 2, empty nesting, both from and from_nested, self-similar deep nesting
				for _, in := range small {
					mid := jobj("rule", `"pick"`, "count", "1", "from_nested", jarr(in.raw, `{"rule":"all","from":"B"}`))
					emit("depth2="+in.name, jarr(outer(jarr(mid, `{"rule":"pick","min":0,"from":"A"}`), "")))
					emit("from+nested="+in.name, jarr(outer(jarr(in.raw), `"A"`), `{"rule":"pick","min":0,"from":"B"}`))
				}
				emit("empty-nested", jarr(outer("[]", ""), `{"rule":"pick","min":0,"from":"A"}`, `{"rule":"pick","min":0,"from":"B"}`))
				deep := `{"rule":"all","from":"A"}`
				for i := 0; i < 200; i++ {
					deep = `{"rule":"pick","min":0,"from_nested":[` + deep + `,{"rule":"pick","min":0,"from":"B"}]}`
				}
				emit("depth200", jarr(outer(jarr(deep), "")))
				if s.Stopped() {
					return
				}
			}
		}
		// descriptor group forms under a typical requirement pair
		for i, grp := range []string{"", "[]", `[""]`, `["A","A"]`, `["C"]`, `["A","C"]`, "null", `["A","B","A","B"]`} {
			for j, reqs := range []string{`[{"rule":"all","from":"A"},{"rule":"pick","min":0,"from":"B"}]`, `[{"rule":"pick","count":2,"from":"A"}]`, `[{"rule":"all","from":""}]`, `[{"rule":"pick","max":1,"from":"C"},{"rule":"pick","min":0,"from":"A"},{"rule":"pick","min":0,"from":"B"}]`} {
				grp, reqs := grp, reqs
				s.Case(name, fmt.Sprintf("descriptor-group#%d/requirements#%d", i, j), true, false, func() ([]byte, func() string) {
					d := []byte(`{"id":"pd","submission_requirements":` + reqs + `,"input_descriptors":[` +
						jobj("id", `"d1"`, "group", grp, "constraints", `{"fields":[{"path":["$.type"],"filter":{"type":"string","const":"WideCredential"}}]}`) + `,` +
						`{"id":"d3","group":["B"],"constraints":{"fields":[{"path":["$.type"],"filter":{"type":"string","const":"NutsOrganizationCredential"}}]}},` +
						jobj("id", `"d6"`, "group", grp) + `]}`)
					return d, run(d)
				})
			}
		}
	})

	// ---- (b2) null / empty at every pointer-, slice- and map-typed slot of the definition struct (accepted by json.Unmarshal)
	registerG("pe-b2-slots", func(t *testing.T, s *crash.Sweep, thorough bool) {
		name := "pe.grammar(null and empty slots)"
		if !s.WantEntry(name) {
			return
		}
		f := getPEGrammarFix(t)
		org := parseVC(string(mustJSON(orgVC("org1"))))
		walletCreds := []vc.VerifiableCredential{f.creds["ld"], org}
		run := func(d []byte) func() string {
			return func() string { return f.both(d, walletCreds, jwtVPOnly, nil, nil) }
		}
		F := `{"id":"f","path":["$.type"],"filter":{"type":"string","const":"WideCredential"}}`
		D := `{"id":"d","group":["A"],"constraints":{"fields":[` + F + `]}}`
		E := `{"id":"e","group":["A"],"constraints":{"fields":[{"path":["$.issuer"]}]}}`
		R := `{"rule":"all","from":"A"}`
		descriptorLists := []alt{{"absent", ""}, {"null", "null"}, {"empty", "[]"}, {"[null]", "[null]"}, {"[D]", jarr(D)}, {"[null,D]", jarr("null", D)}, {"[D,null]", jarr(D, "null")},
			{"[D,D]", jarr(D, D)}, {"[D,E]", jarr(D, E)}, {"[{}]", "[{}]"}, {"[D,{}]", jarr(D, "{}")}}
		requirementLists := []alt{{"absent", ""}, {"null", "null"}, {"empty", "[]"}, {"[null]", "[null]"}, {"[R]", jarr(R)}, {"[null,R]", jarr("null", R)}, {"[R,null]", jarr(R, "null")},
			{"nested-null", `[{"rule":"all","from_nested":[null]}]`}, {"nested-null-R", `[{"rule":"pick","count":1,"from_nested":[null,` + R + `]}]`}, {"nested-R-null", `[{"rule":"pick","min":0,"from_nested":[` + R + `,null]}]`},
			{"from+empty-nested", `[{"rule":"all","from":"A","from_nested":[]}]`}, {"nested-deep-null", `[{"rule":"all","from_nested":[{"rule":"all","from_nested":[null]},` + R + `]}]`}, {"[{}]", "[{}]"}}
		tops := []struct{ name, id, other string }{{"plain", `"pd"`, ""}, {"nulls", `"pd"`, "null"}, {"empties", `"pd"`, `""`}, {"id-null", "null", ""}, {"id-absent", "", ""}}
		for _, top := range tops {
			for _, dl := range descriptorLists {
				for _, rl := range requirementLists {
					top, dl, rl := top, dl, rl
					s.Case(name, fmt.Sprintf("top=%s/input_descriptors=%s/submission_requirements=%s", top.name, dl.name, rl.name), true, false, func() ([]byte, func() string) {
						fm := top.other
						if fm == `""` {
							fm = "{}"
						}
						d := []byte(jobj("id", top.id, "name", top.other, "purpose", top.other, "format", fm, "frame", fm, "input_descriptors", dl.raw, "submission_requirements", rl.raw))
						return d, run(d)
					})
				}
			}
		}
		constraints := []alt{{"absent", ""}, {"null", "null"}, {"empty", "{}"}, {"fields-null", `{"fields":null}`}, {"fields-empty", `{"fields":[]}`}, {"fields-[null]", `{"fields":[null]}`}, {"fields-[{}]", `{"fields":[{}]}`},
			{"path-null", `{"fields":[{"path":null}]}`}, {"path-empty", `{"fields":[{"path":[]}]}`}, {"path-[null]", `{"fields":[{"path":[null]}]}`}, {"filter-null", `{"fields":[{"path":["$.type"],"filter":null}]}`}, {"filter-empty", `{"fields":[{"path":["$.type"],"filter":{}}]}`},
			{"field-nulls", `{"fields":[{"id":null,"optional":null,"path":["$.type"],"purpose":null,"name":null,"intent_to_retain":null,"filter":{"type":null,"const":null,"enum":null,"pattern":null}}]}`},
			{"directives-[null]", `{"fields":[` + F + `],"is_holder":[null],"same_subject":[null],"statuses":null,"limit_disclosure":null,"subject_is_issuer":null}`},
			{"directives-nulls", `{"fields":[` + F + `],"is_holder":[{"directive":null,"field_id":null}],"same_subject":[{"directive":"required","field_id":[null]}],"statuses":{"active":null,"revoked":{"directive":null,"type":null},"suspended":{}}}`},
			{"F", `{"fields":[` + F + `]}`}, {"F+null", `{"fields":[` + F + `,null]}`}}
		ids := []alt{{"d", `"d"`}, {"empty", `""`}, {"null", "null"}, {"absent", ""}}
		groups := []alt{{"absent", ""}, {"null", "null"}, {"empty", "[]"}, {"A", `["A"]`}, {"[null]", "[null]"}, {"A,null", `["A",null]`}}
		dformats := []alt{{"absent", ""}, {"null", "null"}, {"empty", "{}"}, {"inner-null", `{"ldp_vc":null,"jwt_vc":{"alg":null}}`}}
		for _, c := range constraints {
			for _, id := range ids {
				for _, g := range groups {
					for _, df := range dformats {
						for _, rl := range []alt{{"absent", ""}, {"all-A", jarr(R)}, {"pick-A", `[{"rule":"pick","min":0,"from":"A"}]`}} {
							c, id, g, df, rl := c, id, g, df, rl
							s.Case(name, fmt.Sprintf("constraints=%s/id=%s/group=%s/format=%s/requirements=%s", c.name, id.name, g.name, df.name, rl.name), true, false, func() ([]byte, func() string) {
								desc := jobj("id", id.raw, "name", "null", "purpose", "null", "group", g.raw, "format", df.raw, "constraints", c.raw)
								d := []byte(jobj("id", `"pd"`, "input_descriptors", jarr(desc), "submission_requirements", rl.raw))
								return d, run(d)
							})
						}
					}
				}
			}
			if s.Stopped() {
				return
			}
		}
	})

	// ---- (b3) submissions of a remote party: format x path form x path_nested chain x envelope shape
	registerG("pe-b3-submissions", func(t *testing.T, s *crash.Sweep, thorough bool) {
		name := "pe.grammar(submission product)"
		if !s.WantEntry(name) {
			return
		}
		f := getPEGrammarFix(t)
		pd := mustPD(decode(fieldDef("id", `"f"`, "path", directPaths("vs"), "filter", filterJSON(`"string"`, "", "", `"^(IJ.*)$"`))))
		var ld any
		_ = json.Unmarshal(mustJSON(f.creds["ld"]), &ld)
		ldPresentation := ldVP(ld)
		hdr, claims := jwtVPClaims(f.creds["jwt"].Raw())
		jwtPresentation := crash.CompactJSON(hdr, claims, keyA)
		// a JWT presentation that carries a JSON-LD credential and a JWT credential
		hdr2, claims2 := jwtVPClaims(ld, f.creds["jwt"].Raw())
		mixedPresentation := crash.CompactJSON(hdr2, claims2, keyA)
		envelopes := []struct {
			name string
			raw  []byte
		}{{"ld", mustJSON(ldPresentation)}, {"jwt", []byte(jwtPresentation)}, {"jwt-mixed", []byte(mixedPresentation)}, {"[ld,jwt]", mustJSON([]any{ldPresentation, jwtPresentation})},
			{"[jwt]", mustJSON([]any{jwtPresentation})}, {"[]", []byte("[]")}, {"[jwt,jwt]", mustJSON([]any{jwtPresentation, jwtPresentation})}}
		formats := []string{"ldp_vc", "jwt_vc", "ldp_vp", "jwt_vp", "ldp", "jwt", "jwt_vc_json", "unknown", ""}
		paths := []string{"$", "$.verifiableCredential", "$.verifiableCredential[0]", "$.verifiableCredential[1]", "$.verifiableCredential[-1]", "$.verifiableCredential[*]", "$..verifiableCredential", "$[0]", "$[1]", "$[-1]", "$[*]",
			"$[0].verifiableCredential", "$[1].verifiableCredential[0]", "$.vp.verifiableCredential[0]", "$.holder", "$.type", "$.proof", "$..*", "$.nope", "", "$[", "42", `"` + f.creds["jwt"].Raw() + `"`, "$.verifiableCredential.credentialSubject",
			"$..credentialSubject", "$.verifiableCredential[?(@.issuer)]", "$" + strings.Repeat("[0]", 2000)}
		run := func(envRaw, subRaw []byte) func() string {
			return func() string {
				env, err := pe.ParseEnvelope(envRaw)
				if err != nil {
					return "envelope-err"
				}
				sub, err := pe.ParsePresentationSubmission(subRaw)
				if err != nil {
					return "schema-err"
				}
				creds, err := sub.Validate(*env, pd)
				if err != nil {
					return "invalid"
				}
				if _, err := pd.ResolveConstraintsFields(creds); err != nil {
					return "resolve-err"
				}
				return "ok"
			}
		}
		entry := func(format, path, nested string) string {
			return jobj("id", `"d"`, "format", jstr(format), "path", jstr(path), "path_nested", nested)
		}
		submission := func(entries ...string) []byte {
			return []byte(`{"id":"s","definition_id":"pd","descriptor_map":` + jarr(entries...) + `}`)
		}
		if !s.Replaying() {
			if out := run(envelopes[0].raw, submission(entry("ldp_vc", "$.verifiableCredential", "")))(); out != "ok" {
				t.Fatalf("harness: typical submission refused: %s", out)
			}
			if out := run(envelopes[3].raw, submission(entry("ldp_vp", "$[0]", entry("ldp_vc", "$.verifiableCredential", ""))))(); out != "ok" {
				t.Fatalf("harness: typical nested submission refused: %s", out)
			}
		}
		for _, env := range envelopes {
			for _, format := range formats {
				for pi, path := range paths {
					env, format, pi, path := env, format, pi, path
					s.Case(name, fmt.Sprintf("envelope=%s/format=%s/path#%d", env.name, format, pi), true, false, func() ([]byte, func() string) {
						sub := submission(entry(format, path, ""))
						return sub, run(env.raw, sub)
					})
					// one nesting level: every inner format x the inner paths that can select something in a decoded presentation / credential
					for fi, innerFormat := range formats[:6] {
						for ii, innerPath := range []string{"$.verifiableCredential", "$.verifiableCredential[0]", "$.verifiableCredential[1]", "$", "$.credentialSubject", "$.nope", "$["} {
							if !thorough && !((pi == 0 || pi == 2 || pi == 7 || pi == 8 || pi == 10 || pi == 22) && fi < 4 && (format == "unknown" || strings.Contains(format, "_v"))) {
								continue // quick: nesting below the path forms that select a presentation, a credential or the smuggled literal; registry formats
							}
							innerFormat, ii, innerPath := innerFormat, ii, innerPath
							s.Case(name, fmt.Sprintf("envelope=%s/format=%s/path#%d/nested=%s/path#%d", env.name, format, pi, innerFormat, ii), true, false, func() ([]byte, func() string) {
								sub := submission(entry(format, path, entry(innerFormat, innerPath, "")))
								return sub, run(env.raw, sub)
							})
						}
					}
				}
			}
			if s.Stopped() {
				return
			}
		}
		// nesting chains (a presentation or credential re-selected `$` again and again), and lists of entries
		for _, env := range envelopes {
			for _, format := range []string{"ldp_vp", "jwt_vp", "ldp_vc", "jwt_vc"} {
				for _, depth := range []int{2, 5, 50, 1000} {
					for _, leaf := range []string{"$.verifiableCredential", "$.verifiableCredential[0]", "$"} {
						env, format, depth, leaf := env, format, depth, leaf
						s.Case(name, fmt.Sprintf("envelope=%s/chain=%s x%d/leaf=%s", env.name, format, depth, leaf), true, false, func() ([]byte, func() string) {
							leafFormat := "ldp_vc"
							if strings.HasPrefix(format, "jwt") {
								leafFormat = "jwt_vc"
							}
							nested := entry(leafFormat, leaf, "")
							for i := 0; i < depth; i++ {
								nested = entry(format, "$", nested)
							}
							top := "$"
							if strings.HasPrefix(env.name, "[") {
								top = "$[0]"
							}
							sub := submission(entry(format, top, nested))
							return sub, run(env.raw, sub)
						})
					}
				}
			}
			for i, entries := range [][]string{{}, {entry("ldp_vc", "$.verifiableCredential", ""), entry("ldp_vc", "$.verifiableCredential", "")}, {entry("ldp_vc", "$.verifiableCredential", ""), jobj("id", `"e"`, "format", `"ldp_vc"`, "path", `"$.verifiableCredential"`)},
				{jobj("id", `""`, "format", `"ldp_vc"`, "path", `"$.verifiableCredential"`)}, {jobj("id", `"d"`, "format", `"ldp_vc"`, "path", `"$.verifiableCredential"`, "path_nested", "null")}} {
				env, i, entries := env, i, entries
				s.Case(name, fmt.Sprintf("envelope=%s/entry-list#%d", env.name, i), true, false, func() ([]byte, func() string) {
					sub := submission(entries...)
					return sub, run(env.raw, sub)
				})
			}
		}
	})

	// ---- (c) format designation maps
	registerG("pe-c-formats", func(t *testing.T, s *crash.Sweep, thorough bool) {
		name := "pe.grammar(format designations)"
		if !s.WantEntry(name) {
			return
		}
		f := getPEGrammarFix(t)
		designations := []alt{
			{"absent", ""}, {"empty", "{}"}, {"json-null", "null"},
			{"ldp", `{"ldp_vc":{"proof_type":["JsonWebSignature2020"]}}`}, {"ldp-other", `{"ldp_vc":{"proof_type":["Ed25519Signature2018"]}}`}, {"ldp-emptylist", `{"ldp_vc":{"proof_type":[]}}`},
			{"ldp-noparams", `{"ldp_vc":{}}`}, {"ldp-null", `{"ldp_vc":null}`}, {"ldp-nulllist", `{"ldp_vc":{"proof_type":null}}`}, {"ldp-wrongparam", `{"ldp_vc":{"alg":["ES256"]}}`},
			{"jwt", `{"jwt_vc":{"alg":["ES256"]}}`}, {"jwt-other", `{"jwt_vc":{"alg":["PS256","ES384"]}}`}, {"jwt-emptylist", `{"jwt_vc":{"alg":[]}}`}, {"jwt-noparams", `{"jwt_vc":{}}`},
			{"jwt-null", `{"jwt_vc":null}`}, {"jwt-nulllist", `{"jwt_vc":{"alg":null}}`}, {"jwt-wrongparam", `{"jwt_vc":{"proof_type":["JsonWebSignature2020"]}}`}, {"jwt-none", `{"jwt_vc":{"alg":["none",""]}}`},
			{"both", `{"ldp_vc":{"proof_type":["JsonWebSignature2020"]},"jwt_vc":{"alg":["ES256"]}}`}, {"vp-only", `{"ldp_vp":{"proof_type":["JsonWebSignature2020"]},"jwt_vp":{"alg":["ES256"]}}`},
			{"unknown", `{"mso_mdoc":{"alg":["ES256"]},"":{"":[""]}}`}, {"generic", `{"jwt":{"alg":["ES256"]},"ldp":{"proof_type":["JsonWebSignature2020"]}}`},
			{"json-aliases", `{"jwt_vc_json":{"alg":["ES256"]},"jwt_vp_json":{"alg":["ES256"]}}`},
			// struct-incompatible
			{"odd-array", "[]"}, {"odd-string", `"jwt_vc"`}, {"odd-inner-string", `{"jwt_vc":"ES256"}`}, {"odd-list-string", `{"jwt_vc":{"alg":"ES256"}}`}, {"odd-list-ints", `{"jwt_vc":{"alg":[1]}}`}, {"odd-list-nulls", `{"jwt_vc":{"alg":[null]}}`},
		}
		type vpf = map[string]map[string][]string
		vpFormats := []struct {
			name string
			m    vpf
		}{
			{"jwt", jwtVPOnly}, {"nil", nil}, {"empty", vpf{}}, {"ldp", vpf{"ldp_vp": {"proof_type_values_supported": {"JsonWebSignature2020"}}}},
			{"both-dif-names", vpf{"jwt_vp": {"alg": {"ES256"}}, "ldp_vp": {"proof_type": {"JsonWebSignature2020"}}}}, {"nil-params", vpf{"jwt_vp_json": nil, "ldp_vp": nil}},
			{"empty-lists", vpf{"jwt_vp_json": {"alg_values_supported": {}}, "ldp_vp": {"proof_type_values_supported": nil}}}, {"unknown", vpf{"mso_mdoc": {"alg": {"ES256"}}}},
		}
		order := []string{"ld", "ld-noproof", "jwt", "jwt-nosig"}
		rotation := func(n int) []vc.VerifiableCredential {
			var out []vc.VerifiableCredential
			for i := range order {
				out = append(out, f.creds[order[(i+n)%len(order)]])
			}
			return out
		}
		def := func(top, d1, d2 string) []byte {
			return []byte(jobj("id", `"pd"`, "format", top, "input_descriptors", jarr(
				jobj("id", `"d"`, "format", d1, "constraints", `{"fields":[{"path":["$.type"],"filter":{"type":"string","const":"WideCredential"}}]}`),
				jobj("id", `"e"`, "format", d2, "constraints", `{"fields":[{"id":"s","path":["$.credentialSubject.vs","$.credentialSubject[0].vs"],"filter":{"type":"string","pattern":"^(IJ.*)$"}}]}`))))
		}
		if !s.Replaying() {
			if out := f.both(def("", "", ""), rotation(0), jwtVPOnly, nil, nil); out != "w:ok/v:ok" {
				t.Fatalf("harness: definition without format designations not fulfilled: %s", out)
			}
		}
		for _, top := range designations {
			for _, d1 := range designations {
				for rot := 0; rot < len(order); rot++ {
					top, d1, rot := top, d1, rot
					s.Case(name, fmt.Sprintf("definition=%s/descriptor=%s/wallet-rotation=%d/vp_formats=jwt", top.name, d1.name, rot), true, false, func() ([]byte, func() string) {
						d := def(top.raw, d1.raw, "")
						return d, func() string { return f.both(d, rotation(rot), jwtVPOnly, nil, nil) }
					})
				}
				if s.Stopped() {
					return
				}
			}
		}
		for _, top := range designations {
			for _, d1 := range designations {
				if !thorough && !(d1.name == "absent" || d1.name == top.name) {
					continue
				}
				for _, vf := range vpFormats[1:] {
					for _, single := range []string{"all", "ld", "jwt"} {
						if !thorough && single != "all" && vf.name != "ldp" {
							continue
						}
						top, d1, vf, single := top, d1, vf, single
						s.Case(name, fmt.Sprintf("definition=%s/descriptor=%s/wallet=%s/vp_formats=%s", top.name, d1.name, single, vf.name), true, false, func() ([]byte, func() string) {
							d := def(top.raw, d1.raw, d1.raw)
							creds := rotation(0)
							if single != "all" {
								creds = []vc.VerifiableCredential{f.creds[single]}
							}
							return d, func() string { return f.both(d, creds, vf.m, nil, nil) }
						})
					}
				}
			}
		}
		// the credential's own proof format as the remote party chooses it: JOSE serialisations and compact oddities of the JWT credential
		_, claims := jwtParts(wideJWT(f.holder.String(), "w-ser", true))
		hdr := map[string]any{"alg": "ES256", "typ": "JWT", "kid": issuerDID + "#0"}
		variants := map[string]string{}
		for n, v := range crash.JSONSerialisations(hdr, mustJSON(claims), keyB) {
			variants["json-"+n] = string(mustJSON(v))
		}
		for n, v := range crash.CompactOddities(crash.CompactJSON(hdr, claims, keyB)) {
			variants["compact-"+n] = v
		}
		for _, alg := range []string{"none", "ES384", "HS256", "", "EdDSA"} {
			variants["alg-"+alg] = crash.CompactJSON(map[string]any{"alg": alg, "typ": "JWT", "kid": issuerDID + "#0"}, claims, keyB)
		}
		variants["no-alg"] = crash.CompactJSON(map[string]any{"typ": "JWT"}, claims, keyB)
		variants["alg-number"] = crash.CompactJSON(map[string]any{"alg": 5, "typ": "JWT"}, claims, keyB)
		for _, vn := range sortedKeys(variants) {
			for _, top := range designations {
				if strings.HasPrefix(top.name, "odd-") {
					continue
				}
				vn, top := vn, top
				s.Case(name, fmt.Sprintf("credential-serialisation=%s/definition=%s", vn, top.name), true, false, func() ([]byte, func() string) {
					raw := variants[vn]
					d := def(top.raw, "", "")
					return []byte(raw), func() string {
						c, err := vc.ParseVerifiableCredential(raw)
						if err != nil {
							return "credential-parse-err"
						}
						// verifier: a JWT presentation of the remote party carrying the credential in this serialisation
						var env *pe.Envelope
						var sub []byte
						h, cl := jwtVPClaims(raw)
						if e, err := pe.ParseEnvelope([]byte(crash.CompactJSON(h, cl, keyA))); err == nil {
							env = e
							sub = []byte(`{"id":"s","definition_id":"pd","descriptor_map":[{"id":"d","format":"jwt_vc","path":"$.verifiableCredential[0]"},{"id":"e","format":"jwt_vc","path":"$.verifiableCredential[0]"}]}`)
						}
						return f.both(d, []vc.VerifiableCredential{*c}, jwtVPOnly, env, sub)
					}
				})
			}
		}
	})
}

var _ = context.Background
