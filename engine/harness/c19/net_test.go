package c19

import (
	"bytes"
	"context"
	"crypto"
	"encoding/binary"
	"fmt"
	"os"
	"path/filepath"
	"testing"
	"time"

	"github.com/nuts-foundation/go-stoabs"
	"github.com/nuts-foundation/go-stoabs/bbolt"
	"github.com/nuts-foundation/nuts-node/core"
	"github.com/nuts-foundation/nuts-node/crypto/hash"
	"github.com/nuts-foundation/nuts-node/network/dag"
	"github.com/nuts-foundation/nuts-node/network/dag/tree"

	"verif/crash"
)

// dagFix is a real dag.State on its own bbolt file, owned by the harness (never closed after a panic:
// a panic inside a bbolt transaction leaves the store locked).
type dagFix struct {
	state dag.State
	db    stoabs.KVStore
	root  dag.Transaction
}

type stubTxKeyResolver struct{}

func (stubTxKeyResolver) ResolvePublicKey(kid string, _ []hash.SHA256Hash) (crypto.PublicKey, error) {
	if kid == "did:nuts:signer#key-a" {
		return keyA.Public(), nil
	}
	return nil, fmt.Errorf("key not found")
}

var dagSeq int
var dagRootTx dag.Transaction
var dagRootPayload []byte

func newDagFix(t *testing.T) *dagFix {
	dagSeq++
	dir := filepath.Join(os.TempDir(), fmt.Sprintf("c19dag-%d-%d", os.Getpid(), dagSeq))
	_ = os.MkdirAll(dir, 0o755)
	db, err := bbolt.CreateBBoltStore(filepath.Join(dir, "dag.db"), stoabs.WithNoSync())
	if err != nil {
		t.Fatal(err)
	}
	st, err := dag.NewState(db, dag.NewPrevTransactionsVerifier(), dag.NewTransactionSignatureVerifier(stubTxKeyResolver{}))
	if err != nil {
		t.Fatal(err)
	}
	if err := st.Configure(core.ServerConfig{}); err != nil {
		t.Fatal(err)
	}
	f := &dagFix{state: st, db: db}
	// one root per process, so that a fixture that replaces a poisoned one holds the same DAG
	if dagRootTx == nil {
		dagRootTx, dagRootPayload = mustTx(txHeader(nil, 0, true, nil), payloadNum(0))
	}
	rootTx, rootPayload := dagRootTx, dagRootPayload
	if err := st.Add(context.Background(), rootTx, rootPayload); err != nil {
		t.Fatalf("harness: root transaction refused: %v", err)
	}
	f.root = rootTx
	return f
}

func (f *dagFix) close() {
	_ = f.state.Shutdown()
	_ = f.db.Close(context.Background())
}

func payloadNum(n uint32) []byte {
	b := make([]byte, 4)
	binary.BigEndian.PutUint32(b, n)
	return b
}

// txHeader builds the protected header of a network transaction (RFC004).
func txHeader(prevs []hash.SHA256Hash, lc uint32, embedJWK bool, pal [][]byte) map[string]any {
	ps := []any{}
	for _, p := range prevs {
		ps = append(ps, p.String())
	}
	h := map[string]any{"alg": "ES256", "cty": "application/did+json", "crit": []any{"sigt", "ver", "prevs", "lc"},
		"sigt": float64(time.Now().Unix()), "ver": float64(1), "prevs": ps, "lc": float64(lc)}
	if embedJWK {
		h["jwk"] = crash.PublicJWK(keyA)
	} else {
		h["kid"] = "did:nuts:signer#key-a"
	}
	if pal != nil {
		var enc []any
		for _, p := range pal {
			enc = append(enc, p) // json marshals []byte as std base64
		}
		h["pal"] = enc
	}
	return h
}

func signTx(header any, payload []byte) []byte {
	return []byte(crash.Compact(header, []byte(hash.SHA256Sum(payload).String()), keyA))
}

func mustTx(header any, payload []byte) (dag.Transaction, []byte) {
	tx, err := dag.ParseTransaction(signTx(header, payload))
	if err != nil {
		panic("harness: valid transaction does not parse: " + err.Error())
	}
	return tx, payload
}

func init() {
	register("dag-transaction", func(t *testing.T, s *crash.Sweep, thorough bool) {
		name := "dag.ParseTransaction+State.Add"
		if !s.WantEntry(name) {
			return
		}
		fix := newDagFix(t)
		defer func() {
			if fix != nil {
				fix.close()
			}
		}()
		ctx := context.Background()
		digest := func() string {
			x, lc := fix.state.XOR(dag.MaxLamportClock)
			txs, _ := fix.state.FindBetweenLC(ctx, 0, dag.MaxLamportClock)
			head, _ := fix.state.Head(ctx)
			return fmt.Sprintf("%s/%d/%d/%s", x, lc, len(txs), head)
		}
		// call parses and offers the transaction to the DAG the way handleTransactionList does
		call := func(raw []byte, payload []byte) func() string {
			return func() string {
				tx, err := dag.ParseTransaction(raw)
				if err != nil {
					return "parse-err"
				}
				before := digest()
				if err := fix.state.Add(ctx, tx, payload); err != nil {
					if after := digest(); after != before {
						return fmt.Sprintf("!state-changed: rejected transaction changed the DAG: %s -> %s (%v)", before, after, err)
					}
					return "add-err"
				}
				return "ok"
			}
		}
		run := func(desc string, raw, payload []byte) {
			res, ran := s.Case(name, desc, true, true, func() ([]byte, func() string) { return raw, call(raw, payload) })
			if ran && (res.Panicked || res.TimedOut) {
				// poison guard: the store may be locked for ever; continue on a fresh one, never close the old one
				fix = newDagFix(t)
			}
		}
		s.OnAbandon = func() { fix = newDagFix(t) }
		defer func() { s.OnAbandon = nil }()
		_ = run
		type inst struct {
			hdr     map[string]any
			payload []byte
		}
		rootRef := fix.root.Ref()
		insts := []inst{
			{txHeader([]hash.SHA256Hash{rootRef}, 1, true, nil), payloadNum(1)},
			{txHeader([]hash.SHA256Hash{rootRef}, 1, false, nil), payloadNum(2)},
			{txHeader([]hash.SHA256Hash{rootRef}, 1, true, [][]byte{bytes.Repeat([]byte{1}, 120), bytes.Repeat([]byte{2}, 120)}), payloadNum(3)},
		}
		for i, in := range insts {
			in := in
			id := fmt.Sprintf("tx%d", i)
			if !s.Replaying() {
				if out := call(signTx(in.hdr, in.payload), in.payload)(); out != "ok" {
					t.Fatalf("harness: valid transaction %s refused: %s", id, out)
				}
			}
			wrap := func(doc any) ([]byte, func() string) {
				raw := signTx(doc, in.payload)
				return raw, call(raw, in.payload)
			}
			// header mutations (re-signed)
			sweepStore(s, name, id+"/header", in.hdr, thorough && i == 0, wrap, func() { fix = newDagFix(t) })
			// JSON serialisations, mutated
			sers := crash.JSONSerialisations(in.hdr, []byte(hash.SHA256Sum(in.payload).String()), keyA)
			for _, sn := range sortedKeys(sers) {
				sweepStore(s, name, id+"/json-"+sn, sers[sn], false, func(doc any) ([]byte, func() string) {
					raw := mustJSON(doc)
					return raw, call(raw, in.payload)
				}, func() { fix = newDagFix(t) })
			}
			odd := crash.CompactOddities(string(signTx(in.hdr, in.payload)))
			for _, on := range sortedKeys(odd) {
				run(id+"/compact:"+on, []byte(odd[on]), in.payload)
			}
			// payload (JWS body) variants: the body must be the hex payload hash
			for j, body := range [][]byte{nil, []byte("x"), []byte("00"), bytes.Repeat([]byte("0"), 63), bytes.Repeat([]byte("0"), 64), bytes.Repeat([]byte("0"), 65), bytes.Repeat([]byte("g"), 64), []byte(hash.SHA256Sum(in.payload).String() + "\n"), bytes.Repeat([]byte("0"), 1<<16), {0xff}} {
				raw := []byte(crash.Compact(in.hdr, body, keyA))
				run(fmt.Sprintf("%s/body#%d", id, j), raw, in.payload)
			}
			// right transaction, wrong payloads
			for j, pl := range [][]byte{nil, {}, {0}, payloadNum(99), bytes.Repeat([]byte{0}, 1<<16)} {
				run(fmt.Sprintf("%s/payload#%d", id, j), signTx(in.hdr, in.payload), pl)
			}
		}
	})

	// ---- clock x prevs x DAG cross product for root-shaped and child-shaped transactions, each case on its own store.
	// (mutants of valid transactions keep their prevs; a ROOT-shaped transaction with an extreme clock is a case of its own.)
	register("dag-clock-cross", func(t *testing.T, s *crash.Sweep, thorough bool) {
		name := "dag.ParseTransaction+State.Add(clock x prevs x DAG)"
		if !s.WantEntry(name) {
			return
		}
		s.R.Observation("latent: tree.updateOrCreatePath doubles a uint32 tree size in `for clock >= t.treeSize { reRoot() }`; for clocks >= 2^31 it overflows to 0 and never ends. Unreachable on the unchanged tree only because the prevs verifier bounds a transaction's clock by its prevs (seen by reading; the cross product below guards the bound)", "network/dag/tree/tree.go")
		s.EntryDeadline[name] = 3 * time.Second
		prevAbandon := s.OnAbandon
		s.OnAbandon = func() {}
		defer func() { s.OnAbandon = prevAbandon }()
		ctx := context.Background()
		seq := 0
		for _, withRoot := range []bool{false, true} {
			for _, prevKind := range []string{"none", "root", "unknown"} {
				for _, lc := range []uint32{0, 1, 2, 1<<31 - 1, 1 << 31, 1<<32 - 1} {
					for _, embed := range []bool{true, false} {
						withRoot, prevKind, lc, embed := withRoot, prevKind, lc, embed
						s.Case(name, fmt.Sprintf("dag-has-root=%v/prevs=%s/lc=%d/jwk=%v", withRoot, prevKind, lc, embed), true, true, func() ([]byte, func() string) {
							root, rootPayload := mustTx(txHeader(nil, 0, true, nil), payloadNum(0))
							var prevs []hash.SHA256Hash
							switch prevKind {
							case "root":
								prevs = []hash.SHA256Hash{root.Ref()}
							case "unknown":
								prevs = []hash.SHA256Hash{hash.SHA256Sum([]byte("unknown"))}
							}
							raw := signTx(txHeader(prevs, lc, embed, nil), payloadNum(7))
							return raw, func() string {
								seq++
								dir := filepath.Join(os.TempDir(), fmt.Sprintf("c19cross-%d-%d", os.Getpid(), seq))
								_ = os.MkdirAll(dir, 0o755)
								db, err := bbolt.CreateBBoltStore(filepath.Join(dir, "dag.db"), stoabs.WithNoSync())
								if err != nil {
									panic("harness: " + err.Error())
								}
								st, err := dag.NewState(db, dag.NewPrevTransactionsVerifier(), dag.NewTransactionSignatureVerifier(stubTxKeyResolver{}))
								if err != nil {
									panic("harness: " + err.Error())
								}
								_ = st.Configure(core.ServerConfig{})
								if withRoot {
									if err := st.Add(ctx, root, rootPayload); err != nil {
										panic("harness: root refused: " + err.Error())
									}
								}
								tx, err := dag.ParseTransaction(raw)
								out := "parse-err"
								if err == nil {
									out = "ok"
									if err := st.Add(ctx, tx, payloadNum(7)); err != nil {
										out = "add-err"
									}
									_, _ = st.XOR(dag.MaxLamportClock)
									_, _ = st.IBLT(dag.MaxLamportClock)
								}
								_ = st.Shutdown()
								_ = db.Close(ctx)
								_ = os.RemoveAll(dir)
								return out
							}
						})
					}
				}
			}
		}
	})

	register("iblt", func(t *testing.T, s *crash.Sweep, thorough bool) {
		name := "tree.Iblt.UnmarshalBinary+Subtract+Decode"
		if !s.WantEntry(name) {
			return
		}
		ref := func(n int) hash.SHA256Hash { return hash.SHA256Sum([]byte(fmt.Sprintf("tx-%d", n))) }
		// the way handleTransactionSet uses it: unmarshal the peer's table, subtract it from the local one, decode the local one
		call := func(numBuckets int, local []int, data []byte) func() string {
			return func() string {
				peer := tree.NewIblt(numBuckets)
				if err := peer.UnmarshalBinary(data); err != nil {
					return "unmarshal-err"
				}
				mine := tree.NewIblt(numBuckets)
				for _, n := range local {
					mine.Insert(ref(n))
				}
				if err := mine.Subtract(peer); err != nil {
					return "subtract-err"
				}
				_, _, err := mine.Decode()
				if err != nil {
					return "decode-err"
				}
				return "ok"
			}
		}
		// not sharded: the whole table enumeration costs about a second, and a non-terminating decoder must not
		// leave abandoned goroutines in every worker. Deadline 4 s = more than 10^5 x the normal cost of a call.
		if !s.FirstShard() {
			return
		}
		s.EntryDeadline[name] = 4 * time.Second
		run := func(desc string, nb int, local []int, data []byte) {
			s.Case(name, desc, false, false, func() ([]byte, func() string) { return data, call(nb, local, data) })
		}
		valid := func(nb int, set []int) []byte {
			i := tree.NewIblt(nb)
			for _, n := range set {
				i.Insert(ref(n))
			}
			b, _ := i.MarshalBinary()
			return b
		}
		nb := dag.IbltNumBuckets
		locals := [][]int{{}, {1, 2, 3}, {1, 2, 3, 4, 5, 6, 7, 8, 9, 10}}
		for li, local := range locals {
			base := valid(nb, []int{2, 3, 4})
			tables := map[string][]byte{
				"empty": {}, "one-byte": {1}, "43": base[:43], "44": base[:44], "45": base[:45], "valid": base, "valid-same": valid(nb, local),
				"other-set":   valid(nb, []int{100, 101, 102, 103, 104, 105, 106, 107, 108, 109, 110, 111, 112, 113, 114, 115, 116, 117, 118, 119, 120}),
				"truncated-1": base[:len(base)-1], "truncated-bucket": base[:len(base)-44], "one-too-long": append(append([]byte{}, base...), 0),
				"bucket-too-long": append(append([]byte{}, base...), make([]byte, 44)...), "all-ff": bytes.Repeat([]byte{0xff}, len(base)), "all-zero": make([]byte, len(base)),
				"all-01": bytes.Repeat([]byte{1}, len(base)), "half": base[:len(base)/2], "six-buckets": valid(6, []int{1}), "five-buckets": make([]byte, 5*44), "one-bucket": make([]byte, 44),
			}
			for _, tn := range sortedKeys(tables) {
				run(fmt.Sprintf("local%d/%s", li, tn), nb, local, tables[tn])
			}
			// every single-field corruption of the first 8 buckets of a valid table
			for b := 0; b < 8; b++ {
				for fi, off := range []int{0, 4, 12} {
					for vi, v := range [][]byte{{1, 0, 0, 0}, {0xff, 0xff, 0xff, 0xff}, {2, 0, 0, 0}, {0, 0, 0, 0x80}, {0xff, 0xff, 0xff, 0x7f}} {
						d := append([]byte{}, base...)
						copy(d[b*44+off:], v)
						run(fmt.Sprintf("local%d/corrupt-b%d-f%d-v%d", li, b, fi, vi), nb, local, d)
					}
				}
			}
		}
		// all tables with <= 3 (quick: <= 2) non-empty buckets over a 12-bucket table, count in {-1,0,1,2},
		// keySum in {a known key (pure), another key}, hashSum in {matching, zero}
		small := 12
		type bk struct {
			count int32
			key   int
			match bool
		}
		var alphabet []bk
		for _, c := range []int32{-1, 0, 1, 2} {
			for _, k := range []int{1, 2} {
				for _, m := range []bool{true, false} {
					alphabet = append(alphabet, bk{c, k, m})
				}
			}
		}
		hashKey := func(n int) uint64 {
			// the bucket of a table holding exactly this one key carries its key hash
			i := tree.NewIblt(small)
			i.Insert(ref(n))
			b, _ := i.MarshalBinary()
			for j := 0; j < small; j++ {
				if binary.LittleEndian.Uint32(b[j*44:]) == 1 {
					return binary.LittleEndian.Uint64(b[j*44+4:])
				}
			}
			panic("no bucket")
		}
		hk := map[int]uint64{1: hashKey(1), 2: hashKey(2)}
		enc := func(b bk) []byte {
			out := make([]byte, 44)
			binary.LittleEndian.PutUint32(out, uint32(b.count))
			if b.match {
				binary.LittleEndian.PutUint64(out[4:], hk[b.key])
			}
			r := ref(b.key)
			copy(out[12:], r.Slice())
			return out
		}
		maxNonEmpty := 2
		if thorough {
			maxNonEmpty = 3
		}
		var rec func(start int, chosen []int, vals []int)
		emit := func(pos []int, vals []int) {
			d := make([]byte, small*44)
			desc := "small"
			for i, p := range pos {
				copy(d[p*44:], enc(alphabet[vals[i]]))
				desc += fmt.Sprintf("/b%d=%d", p, vals[i])
			}
			run(desc, small, []int{1}, d)
		}
		rec = func(start int, pos []int, vals []int) {
			if len(pos) > 0 {
				emit(pos, vals)
			}
			if len(pos) == maxNonEmpty {
				return
			}
			for p := start; p < small; p++ {
				for v := range alphabet {
					rec(p+1, append(append([]int{}, pos...), p), append(append([]int{}, vals...), v))
				}
			}
		}
		rec(0, nil, nil)
	})
}

// sweepStore is Sweep.JSON for store-touching entry points: after a panic the fixture is replaced.
func sweepStore(s *crash.Sweep, entryName, inst string, doc any, pairs bool, run func(doc any) ([]byte, func() string), refresh func()) {
	prev := s.OnAbandon
	s.OnAbandon = refresh
	defer func() { s.OnAbandon = prev }()
	before := s.Panics
	s.JSON(entryName, inst, doc, hostile, pairs, true, func(d any) ([]byte, func() string) {
		if s.Panics != before {
			before = s.Panics
			refresh()
		}
		return run(d)
	})
	if s.Panics != before {
		refresh()
	}
}
