// C13 — Subject operations change all of a subject's DIDs together or not at all.
//
// Real vdr/didsubject.SqlManager on SQLite (storage.NewTestStorageEngine + Start) through fault.Pool, real
// didweb.Manager, and a second MethodManager "nuts" that is
//
//	scripted: real didnuts.Manager for NewDocument / NewVerificationMethod; Commit / IsCommitted are the
//	          environment (a set of published change ids; IsCommitted answers the truth, or an error first);
//	real:     real didnuts.Manager + real did:nuts store + real IsCommitted; only the network publish inside
//	          Commit is emulated (the document the manager would publish is added to the real store).
//
// Every operation sequence up to the bound, for EACH operation EACH cut point (every SQL step of both
// transactions, before / after each method's Commit, after the operation) x {error, stop}; after a cut:
// observe, run the sweep WITHOUT ageing (must change nothing), age all rows by 2 minutes, run the sweep,
// compare with the fault-free twin run of the same sequence, retry, continue. Plus: an un-aged sweep INSIDE
// every operation at every method-commit boundary (the sweep racing an in-flight operation).
package c13

import (
	"context"
	"database/sql"
	"encoding/json"
	"errors"
	"fmt"
	"io"
	"sort"
	"strings"
	"testing"
	"time"

	ssi "github.com/nuts-foundation/go-did"
	"github.com/nuts-foundation/go-did/did"
	"github.com/nuts-foundation/go-stoabs"
	"github.com/nuts-foundation/nuts-node/audit"
	nutsCrypto "github.com/nuts-foundation/nuts-node/crypto"
	"github.com/nuts-foundation/nuts-node/crypto/hash"
	"github.com/nuts-foundation/nuts-node/storage"
	"github.com/nuts-foundation/nuts-node/storage/orm"
	"github.com/nuts-foundation/nuts-node/vdr/didnuts"
	"github.com/nuts-foundation/nuts-node/vdr/didnuts/didstore"
	"github.com/nuts-foundation/nuts-node/vdr/didsubject"
	"github.com/nuts-foundation/nuts-node/vdr/didweb"
	"github.com/nuts-foundation/nuts-node/vdr/resolver"
	"github.com/sirupsen/logrus"
	"gorm.io/gorm"

	"verif/ev"
	"verif/fault"
)

const (
	opCreateA = "createA"
	opCreateB = "createB"
	opAddSvc  = "addsvc"
	opUpdSvc  = "updsvc"
	opDelSvc  = "delsvc"
	opAddKey  = "addkey"
	opDeact   = "deact"
)

var alphabet = []string{opCreateA, opCreateB, opAddSvc, opUpdSvc, opDelSvc, opAddKey, opDeact}

func opClass(op string) string {
	if strings.HasPrefix(op, "create") {
		return "create"
	}
	return op
}

func opSubject(op string) string {
	if op == opCreateB {
		return "B"
	}
	return "A"
}

// caseT is one explored case (also the replay artefact).
type caseT struct {
	Start   string   `json:"start,omitempty"`   // "" = empty database | pre = subject A exists and has a service
	Methods string   `json:"methods,omitempty"` // enabled DID methods: "" = web,nuts | nuts | web
	Nuts    string   `json:"nuts"`              // scripted | real
	Seq     []string `json:"seq"`               // operation sequence
	At      int      `json:"at"`                // index of the operation that is cut
	Step    int      `json:"step"`              // step number inside that operation (numbering of the fault-free twin)
	Ext     string   `json:"ext,omitempty"`     // cut at this named non-SQL step instead (e.g. "nuts.Commit")
	Mode    string   `json:"mode"`              // error | stop | race
	Race    string   `json:"race,omitempty"`    // mode race: boundary at which an un-aged sweep runs inside the operation
	Sweep   string   `json:"sweep"`             // plain | iserr (first aged sweep gets an IsCommitted error from did:nuts)
	Label   string   `json:"label,omitempty"`
}

// ------------------------------------------------------------------ environment ("the network")

type network struct {
	published     map[string]bool // change (= document version) ids whose did:nuts document was published
	publishedDocs []string
	isErr         int // number of IsCommitted calls still to be answered with an error (scripted only)
	clock         uint32
}

var errPublish = errors.New("verif: environment refuses IsCommitted")

type world struct {
	methods string // enabled DID methods ("" = web and nuts)
	t       testing.TB
	commits []string // documents handed to successful method Commits during the running operation
	kind    string
	se      storage.Engine
	db      *gorm.DB
	sqldb   *sql.DB
	pool    *fault.Pool
	ks      *nutsCrypto.Crypto
	store   didstore.Store
	net     *network
	mgr     *didsubject.SqlManager
	hook    func(label string)
	asked   []string // IsCommitted calls of the running sweep, in order
	ctx     context.Context
	sweeps  int
}

// method is the wrapper around a MethodManager that makes Commit a numbered cut point.
type method struct {
	w     *world
	name  string
	inner didsubject.MethodManager
}

func (m *method) NewDocument(ctx context.Context, f orm.DIDKeyFlags) (*orm.DidDocument, error) {
	return m.inner.NewDocument(ctx, f)
}
func (m *method) NewVerificationMethod(ctx context.Context, c did.DID, f orm.DIDKeyFlags) (*did.VerificationMethod, error) {
	return m.inner.NewVerificationMethod(ctx, c, f)
}

func (m *method) Commit(ctx context.Context, change orm.DIDChangeLog) error {
	if err := m.w.ext(m.name + ".Commit"); err != nil {
		return err // "publishing fails"
	}
	if m.name == "web" {
		if err := m.inner.Commit(ctx, change); err != nil { // the real (empty) did:web commit
			return err
		}
	} else if err := m.w.publish(change); err != nil {
		return err
	}
	m.w.commits = append(m.w.commits, m.name+": "+docSummary(change))
	// only stops are armed here (a publish that succeeded but reports an error is outside the statement)
	_ = m.w.ext(m.name + ".Commit:done")
	return nil
}

func (m *method) IsCommitted(ctx context.Context, change orm.DIDChangeLog) (bool, error) {
	m.w.asked = append(m.w.asked, m.name)
	if m.name == "web" || m.w.kind == "real" {
		return m.inner.IsCommitted(ctx, change) // real code
	}
	if m.w.net.isErr > 0 {
		m.w.net.isErr--
		return false, errPublish
	}
	return m.w.net.published[change.DIDDocumentVersionID], nil
}

// docSummary is what a method manager is asked to publish, free of random identifiers.
func docSummary(change orm.DIDChangeLog) string {
	doc, err := change.DIDDocumentVersion.ToDIDDocument()
	if err != nil {
		return "unreadable: " + err.Error()
	}
	var svcs []string
	for _, svc := range doc.Service {
		svcs = append(svcs, fmt.Sprintf("%s|%v", svc.Type, svc.ServiceEndpoint))
	}
	sort.Strings(svcs)
	return fmt.Sprintf("%s v%d vms=%d svc=%v", change.Type, change.DIDDocumentVersion.Version, len(doc.VerificationMethod), svcs)
}

func (w *world) ext(label string) error {
	err := w.pool.External(label)
	if err == nil && w.hook != nil {
		w.hook(label)
	}
	return err
}

// publish is the environment's side of a successful did:nuts Commit.
func (w *world) publish(change orm.DIDChangeLog) error {
	doc, err := change.DIDDocumentVersion.ToDIDDocument()
	if err != nil {
		return err
	}
	payload, err := json.Marshal(doc) // what onCreate / onUpdate put on the network
	if err != nil {
		return err
	}
	if w.kind == "real" {
		var prevs []hash.SHA256Hash
		if change.Type != orm.DIDChangeCreated {
			_, meta, err := w.store.Resolve(change.DID(), &resolver.ResolveMetadata{AllowDeactivated: true})
			if err != nil {
				return fmt.Errorf("publish: %w", err)
			}
			prevs = meta.SourceTransactions
		}
		w.net.clock++
		tx := didstore.Transaction{Ref: hash.RandomHash(), PayloadHash: hash.SHA256Sum(payload), SigningTime: time.Now(),
			Previous: prevs, Clock: w.net.clock}
		if err := w.store.Add(doc, tx); err != nil {
			return fmt.Errorf("publish: %w", err)
		}
	}
	w.net.published[change.DIDDocumentVersionID] = true
	w.net.publishedDocs = append(w.net.publishedDocs, string(payload))
	return nil
}

var rootDID = did.MustParseDID("did:web:example.com")

func newWorld(t testing.TB, kind string) *world { return newWorldM(t, kind, "") }

func newWorldM(t testing.TB, kind, methods string) *world {
	se := storage.NewTestStorageEngine(t)
	if err := se.Start(); err != nil {
		t.Fatal(err)
	}
	db := se.GetSQLDatabase()
	w := &world{t: t, kind: kind, methods: methods, se: se, db: db, ctx: audit.TestContext(),
		net: &network{published: map[string]bool{}}}
	w.pool = fault.InstallPool(db)
	w.pool.SchedPoints = false
	var err error
	if w.sqldb, err = w.pool.GetDBConn(); err != nil {
		t.Fatal(err)
	}
	w.ks = nutsCrypto.NewDatabaseCryptoInstance(db)
	if kind == "real" {
		w.store = didstore.TestStore(t.(*testing.T), se)
	}
	w.build()
	return w
}

// preset brings the world into a non-initial start state (fault-free, not part of the sequence).
func (w *world) preset(start string) {
	if start != "pre" {
		return
	}
	for _, op := range []string{opCreateA, opAddSvc} {
		if err := w.apply(op, w.prepare(op)); err != nil {
			w.t.Fatalf("harness: start state %s: %s: %v", start, op, err)
		}
	}
}

// build constructs the component under test (again after a stop: the restarted process).
func (w *world) build() {
	web := didweb.NewManager(rootDID, "iam", w.ks, w.db)
	var nuts didsubject.MethodManager
	if w.kind == "real" {
		nuts = didnuts.NewManager(w.ks, nil, w.store, &didnuts.Resolver{Store: w.store}, w.db)
	} else {
		nuts = didnuts.NewManager(w.ks, nil, nil, nil, w.db)
	}
	// the node enables a subset of its DID methods (configuration didmethods); vdr.Module builds the map the same way
	managers, order := map[string]didsubject.MethodManager{}, []string{}
	if w.methods != "nuts" {
		managers["web"] = &method{w: w, name: "web", inner: web}
		order = append(order, "web")
	}
	if w.methods != "web" {
		managers["nuts"] = &method{w: w, name: "nuts", inner: nuts}
		order = append(order, "nuts")
	}
	w.mgr = didsubject.New(w.db, managers, w.ks, order)
}

func (w *world) sweep() {
	w.asked = nil
	w.sweeps++
	w.mgr.Rollback(w.ctx)
}

// age makes every document version two minutes older (the environment's clock moving on).
func (w *world) age() {
	if _, err := w.sqldb.Exec("UPDATE did_document_version SET updated_at = updated_at - 120"); err != nil {
		w.t.Fatal(err)
	}
}

// ------------------------------------------------------------------ operations

type opArgs struct{ Frag string }

const svcType = "T"

func (w *world) prepare(op string) *opArgs {
	a := &opArgs{Frag: "none"}
	if op == opUpdSvc || op == opDelSvc {
		st := svcType
		if svcs, err := w.mgr.FindServices(w.ctx, "A", &st); err == nil && len(svcs) > 0 {
			a.Frag = svcs[0].ID.Fragment
		}
	}
	return a
}

func (w *world) apply(op string, a *opArgs) error {
	switch op {
	case opCreateA, opCreateB:
		_, _, err := w.mgr.Create(w.ctx, didsubject.DefaultCreationOptions().With(didsubject.SubjectCreationOption{Subject: opSubject(op)}))
		return err
	case opAddSvc:
		_, err := w.mgr.CreateService(w.ctx, "A", did.Service{Type: svcType, ServiceEndpoint: "https://a.example/1"})
		return err
	case opUpdSvc:
		_, err := w.mgr.UpdateService(w.ctx, "A", ssi.MustParseURI("#"+a.Frag), did.Service{Type: svcType, ServiceEndpoint: "https://a.example/2"})
		return err
	case opDelSvc:
		return w.mgr.DeleteService(w.ctx, "A", ssi.MustParseURI("#"+a.Frag))
	case opAddKey:
		_, err := w.mgr.AddVerificationMethod(w.ctx, "A", orm.AssertionKeyUsage())
		return err
	case opDeact:
		return w.mgr.Deactivate(w.ctx, "A")
	}
	w.t.Fatalf("unknown op %s", op)
	return nil
}

func classify(err error) string {
	switch {
	case err == nil:
		return "ok"
	case errors.Is(err, didsubject.ErrSubjectAlreadyExists):
		return "exists"
	case errors.Is(err, didsubject.ErrSubjectNotFound):
		return "notfound"
	}
	return "error"
}

// ------------------------------------------------------------------ observation

type rawObs struct {
	DIDs map[string][]string // subject -> DIDs (sorted)
	VMs  map[string][]string // DID -> verification method ids of the latest resolvable document
	Docs map[string]string   // DID -> the document it shows (JSON, arrays sorted)
}

func (w *world) queryStrings(q string) [][]string {
	rows, err := w.sqldb.Query(q)
	if err != nil {
		w.t.Fatalf("%s: %v", q, err)
	}
	defer rows.Close()
	cols, _ := rows.Columns()
	var out [][]string
	for rows.Next() {
		vals := make([]sql.NullString, len(cols))
		ptrs := make([]any, len(cols))
		for i := range vals {
			ptrs[i] = &vals[i]
		}
		if err := rows.Scan(ptrs...); err != nil {
			w.t.Fatal(err)
		}
		rec := make([]string, len(cols))
		for i, v := range vals {
			rec[i] = v.String
		}
		out = append(out, rec)
	}
	return out
}

// dump is the complete content of the tables of the statement (for "changed nothing").
func (w *world) dump() string {
	var sb strings.Builder
	for _, q := range []string{
		"SELECT id, subject FROM did ORDER BY id",
		"SELECT id, did, version, created_at, updated_at, raw FROM did_document_version ORDER BY id",
		"SELECT did_document_version_id, transaction_id, type FROM did_change_log ORDER BY did_document_version_id",
		"SELECT did_document_id, verification_method_id FROM did_document_to_verification_method ORDER BY 1, 2",
		"SELECT did_document_id, service_id FROM did_document_to_service ORDER BY 1, 2",
	} {
		for _, rec := range w.queryStrings(q) {
			sb.WriteString(strings.Join(rec, "\x1f"))
			sb.WriteByte('\n')
		}
		sb.WriteString("--\n")
	}
	return sb.String()
}

func methodRank(m string) int {
	if m == "web" {
		return 0
	}
	return 1
}

func (w *world) observe() (absState, rawObs) {
	st := absState{Subjects: map[string]absSubject{}}
	raw := rawObs{DIDs: map[string][]string{}, VMs: map[string][]string{}, Docs: map[string]string{}}
	st.ChangeLog = len(w.queryStrings("SELECT did_document_version_id FROM did_change_log"))
	bySubject := map[string][]string{}
	for _, rec := range w.queryStrings("SELECT id, subject FROM did ORDER BY id") {
		bySubject[rec[1]] = append(bySubject[rec[1]], rec[0])
	}
	versions := map[string][]int{}
	for _, rec := range w.queryStrings("SELECT did, version FROM did_document_version ORDER BY did, version") {
		var v int
		fmt.Sscanf(rec[1], "%d", &v)
		versions[rec[0]] = append(versions[rec[0]], v)
	}
	res := didsubject.Resolver{DB: w.db}
	for _, subject := range []string{"A", "B"} {
		var s absSubject
		var err error
		if s.Exists, err = w.mgr.Exists(w.ctx, subject); err != nil {
			s.Err += "Exists:" + err.Error() + ";"
		}
		listed, err := w.mgr.ListDIDs(w.ctx, subject)
		switch {
		case errors.Is(err, didsubject.ErrSubjectNotFound):
			s.Listed = -1
		case err != nil:
			s.Err += "ListDIDs:" + err.Error() + ";"
		default:
			s.Listed = len(listed)
		}
		ids := append([]string{}, bySubject[subject]...)
		sort.Strings(ids)
		raw.DIDs[subject] = ids
		for _, id := range ids {
			parsed, err := did.ParseDID(id)
			if err != nil {
				w.t.Fatal(err)
			}
			d := absDID{Method: parsed.Method, Versions: versions[id], Services: []string{}}
			doc, _, err := res.Resolve(*parsed, &resolver.ResolveMetadata{AllowDeactivated: true})
			if err == nil {
				d.Resolvable = true
				if b, err := json.Marshal(doc); err == nil {
					raw.Docs[id] = canonJSON(b)
				}
				d.NumVMs = len(doc.VerificationMethod)
				d.Deactivated = resolver.IsDeactivated(*doc)
				for _, vm := range doc.VerificationMethod {
					raw.VMs[id] = append(raw.VMs[id], vm.ID.String())
				}
				for _, svc := range doc.Service {
					d.Services = append(d.Services, fmt.Sprintf("%s|%v", svc.Type, svc.ServiceEndpoint))
				}
				sort.Strings(d.Services)
			} else if !errors.Is(err, resolver.ErrNotFound) {
				s.Err += "Resolve:" + err.Error() + ";"
			}
			d.RelVersion, d.RelServices = -1, []string{}
			if rel, err := didsubject.NewDIDDocumentManager(w.db).Latest(*parsed, nil); err == nil {
				d.RelVersion, d.RelVMs = rel.Version, len(rel.VerificationMethods)
				for _, svc := range rel.Services {
					var parsedSvc did.Service
					if err := json.Unmarshal(svc.Data, &parsedSvc); err != nil {
						d.RelServices = append(d.RelServices, "unreadable")
						continue
					}
					d.RelServices = append(d.RelServices, fmt.Sprintf("%s|%v", parsedSvc.Type, parsedSvc.ServiceEndpoint))
				}
				sort.Strings(d.RelServices)
			} else if !errors.Is(err, gorm.ErrRecordNotFound) {
				s.Err += "Latest:" + err.Error() + ";"
			}
			s.DIDs = append(s.DIDs, d)
		}
		sort.SliceStable(s.DIDs, func(i, j int) bool { return methodRank(s.DIDs[i].Method) < methodRank(s.DIDs[j].Method) })
		stype := svcType
		svcs, err := w.mgr.FindServices(w.ctx, subject, &stype)
		if err == nil {
			for _, svc := range svcs {
				s.Svc = append(s.Svc, fmt.Sprintf("%s|%v", svc.Type, svc.ServiceEndpoint))
			}
			sort.Strings(s.Svc)
		} else if !errors.Is(err, didsubject.ErrSubjectNotFound) && !errors.Is(err, gorm.ErrRecordNotFound) {
			s.Err += "FindServices:" + err.Error() + ";"
		} else if errors.Is(err, gorm.ErrRecordNotFound) {
			s.Svc = []string{"<no document>"}
		}
		st.Subjects[subject] = s
	}
	return st, raw
}

// ------------------------------------------------------------------ fault-free twin

type twin struct {
	Commits [][]string // per operation: what the method managers were asked to publish
	Results []string
	States  []absState // States[i] = before op i; States[len] = final
	Steps   [][]fault.PoolStep
	Raw     []rawObs
}

// successClause judges a fault-free (or completed) operation: success => every DID of the subject gained the
// same number (0 or 1) of versions and no change record remains.
func successClause(before, after absState, subject, res string) (string, string) {
	if res != "ok" {
		if before.key() != after.key() {
			return "refused-op-changed-state", fmt.Sprintf("operation answered %s but the state changed: %s -> %s", res, before.key(), after.key())
		}
		return "", ""
	}
	if after.ChangeLog != 0 {
		return "change-log-not-empty", fmt.Sprintf("%d change records after a successful operation", after.ChangeLog)
	}
	b, a := before.Subjects[subject], after.Subjects[subject]
	delta := -1
	for _, d := range a.DIDs {
		prev := 0
		for _, bd := range b.DIDs {
			if bd.Method == d.Method {
				prev = len(bd.Versions)
			}
		}
		g := len(d.Versions) - prev
		if g < 0 || g > 1 {
			return "version-lost", fmt.Sprintf("method %s went from %d to %d versions in one successful operation", d.Method, prev, len(d.Versions))
		}
		if delta >= 0 && g != delta {
			return "partial", fmt.Sprintf("successful operation: DIDs of subject %s gained different numbers of versions: %s", subject, after.key())
		}
		delta = g
	}
	return "", ""
}

func sortedCopy(xs []string) []string {
	out := append([]string{}, xs...)
	sort.Strings(out)
	return out
}

func dryRun(t *testing.T, r *ev.Run, kind, methods, start string, seq []string) *twin {
	var tw *twin
	t.Run(uniq("twin"), func(t *testing.T) {
		w := newWorldM(t, kind, methods)
		w.preset(start)
		tw = &twin{}
		st, raw := w.observe()
		tw.States, tw.Raw = append(tw.States, st), append(tw.Raw, raw)
		for i, op := range seq {
			a := w.prepare(op)
			w.pool.ResetSteps()
			w.commits = nil
			err := w.apply(op, a)
			_ = w.pool.External("end")
			tw.Commits = append(tw.Commits, sortedCopy(w.commits))
			tw.Steps = append(tw.Steps, w.pool.Steps())
			tw.Results = append(tw.Results, classify(err))
			st, raw := w.observe()
			if cl, what := successClause(tw.States[i], st, opSubject(op), tw.Results[i]); cl != "" {
				r.Violation(fmt.Sprintf("C13|fault-free|%s|%s|none|%s-nuts", cl, opClass(op), kind), what,
					caseT{Start: start, Methods: methods, Nuts: kind, Seq: seq[:i+1], At: i, Mode: "none"})
			}
			if cl, what := st.invariant(); cl != "" {
				r.Violation(fmt.Sprintf("C13|fault-free|%s|%s|none|%s-nuts", cl, opClass(op), kind), what,
					caseT{Start: start, Methods: methods, Nuts: kind, Seq: seq[:i+1], At: i, Mode: "none"})
			}
			tw.States, tw.Raw = append(tw.States, st), append(tw.Raw, raw)
		}
	})
	return tw
}

// ------------------------------------------------------------------ one case

type caseResult struct {
	reached    bool
	pending    int    // change records found by the aged sweep
	firstAsked string // method whose IsCommitted was asked first by the aged sweep
	published  bool
	outcome    string
	cutClass   string
}

func cutClass(s fault.PoolStep) string {
	switch {
	case s.Kind == "ext":
		return s.Label
	case s.Tx == 0:
		return "standalone"
	}
	tx := "tx1"
	if s.Tx > 1 {
		tx = "tx2"
	}
	if s.Kind == "stmt" {
		return tx
	}
	return tx + ":" + s.Kind
}

// canonJSON renders a JSON document with every array sorted (verification methods, relationships and services
// are sets; the order in which a regenerated document lists them depends on row order).
func canonJSON(b []byte) string {
	var v any
	if err := json.Unmarshal(b, &v); err != nil {
		return string(b)
	}
	var norm func(v any) any
	norm = func(v any) any {
		switch x := v.(type) {
		case map[string]any:
			for k, e := range x {
				x[k] = norm(e)
			}
			return x
		case []any:
			keys := make([]string, len(x))
			for i, e := range x {
				eb, _ := json.Marshal(norm(e))
				keys[i] = string(eb)
			}
			sort.Strings(keys)
			out := make([]any, len(keys))
			for i, k := range keys {
				out[i] = json.RawMessage(k)
			}
			return out
		}
		return v
	}
	out, _ := json.Marshal(norm(v))
	return string(out)
}

// sameDocs: every DID the subject had before still shows exactly the document it showed before.
func sameDocs(before, after rawObs, subject string) bool {
	if len(before.DIDs[subject]) == 0 || !sameSets(before.DIDs[subject], after.DIDs[subject]) {
		return false
	}
	for _, id := range before.DIDs[subject] {
		if before.Docs[id] == "" || before.Docs[id] != after.Docs[id] {
			return false
		}
	}
	return true
}

func sameSets(a, b []string) bool { return strings.Join(a, ",") == strings.Join(b, ",") }

func runCase(t *testing.T, r *ev.Run, c caseT, tw *twin) caseResult {
	var cr caseResult
	t.Run(uniq("case"), func(t *testing.T) {
		w := newWorldM(t, c.Nuts, c.Methods)
		w.preset(c.Start)
		op := c.Seq[c.At]
		subject := opSubject(op)
		reported := false
		violation := func(clause, what string) {
			if reported {
				return
			}
			reported = true
			scenario := "cut"
			if c.Mode == "race" {
				scenario = "race"
			}
			cfg := ""
			if c.Methods != "" {
				cfg = "/only-" + c.Methods
			}
			r.Violation(fmt.Sprintf("C13|%s|%s|%s|%s|%s-nuts%s", scenario, clause, opClass(op), c.Mode, c.Nuts, cfg),
				fmt.Sprintf("%s [methods %q, start %q, sequence %v, operation %d (%s) cut by %s at step %d (%s), sweep variant %s]", what, c.Methods, c.Start, c.Seq, c.At, op, c.Mode, c.Step, cr.cutClass+c.Race, c.Sweep), c)
		}
		diverged := func(what string) {
			r.AssumptionCheck("twin-determinism", false, fmt.Sprintf("%s in case %s", what, ev.Key(c)))
			t.Errorf("harness: fault-free prefix diverges from its twin: %s", what)
		}
		// fault-free prefix
		for j := 0; j < c.At; j++ {
			if res := classify(w.apply(c.Seq[j], w.prepare(c.Seq[j]))); res != tw.Results[j] {
				diverged(fmt.Sprintf("op %d answered %s, twin %s", j, res, tw.Results[j]))
				return
			}
		}
		pre, preRaw := w.observe()
		if pre.key() != tw.States[c.At].key() {
			diverged("state before the cut: " + pre.key() + " vs " + tw.States[c.At].key())
			return
		}
		args := w.prepare(op)
		nPublished := len(w.net.published)
		w.pool.ResetSteps()
		raced := false
		if c.Mode == "race" {
			w.hook = func(label string) {
				if label == c.Race && !raced {
					raced = true
					w.sweep() // the periodic sweep fires while the operation is in flight (rows are seconds old)
				}
			}
		} else {
			mode := fault.PoolError
			if c.Mode == "stop" {
				mode = fault.PoolStop
			}
			if c.Ext != "" {
				// method-commit boundaries are addressed by name: which method commits first is Go map order
				w.pool.ArmWhen(func(s fault.PoolStep) bool { return s.Kind == "ext" && s.Label == c.Ext }, mode)
			} else {
				w.pool.Arm(c.Step, mode)
			}
		}
		var err error
		stopped := fault.PoolRecover(func() {
			err = w.apply(op, args)
			_ = w.pool.External("end")
		})
		w.hook = nil
		res := classify(err)
		if stopped != nil {
			res = "stopped"
		}
		if c.Mode == "race" {
			cr.reached = raced
			cr.cutClass = ""
		} else if f := w.pool.Fired(); f != nil {
			cr.reached = true
			cr.cutClass = cutClass(*f)
		}
		if !cr.reached {
			cr.outcome = "cut-not-reached"
			return
		}
		if stopped != nil {
			w.pool.Restart()
			w.build() // the restarted process
		}
		w.pool.Disarm()
		cr.published = len(w.net.published) > nPublished
		if c.Methods == "web" && c.Mode != "race" {
			// did:web has no publish step: its documents are read from the database, so the operation has taken
			// effect as soon as the first transaction is committed (every cut after it: a method-commit boundary,
			// the second transaction, the end)
			f := w.pool.Fired()
			cr.published = f != nil && (f.Kind == "ext" || f.Tx > 1)
		}
		cr.outcome = fmt.Sprintf("%s %s@%s -> %s published=%v", opClass(op), c.Mode, cr.cutClass+c.Race, res, cr.published)

		natural := tw.Results[c.At]
		if c.Mode == "race" {
			post, _ := w.observe()
			if res != natural || post.key() != tw.States[c.At+1].key() {
				violation("sweep-disturbs-inflight-op", fmt.Sprintf("a sweep running inside the operation (rows seconds old) changed its outcome: answered %s (twin %s), state %s, twin %s",
					res, natural, post.key(), tw.States[c.At+1].key()))
			}
		} else {
			obs1, obs1Raw := w.observe()
			_ = obs1
			// (a) the sweep racing the operation: rows are seconds old, it must change nothing
			d0 := w.dump()
			w.sweep()
			if d1 := w.dump(); d1 != d0 {
				violation("unaged-sweep-changed-state", "Rollback changed rows that are only seconds old (an operation in flight would lose its documents)")
			}
			// (b) two minutes later
			w.age()
			if c.Sweep == "iserr" {
				before, _ := w.observe()
				w.net.isErr = 1
				w.sweep()
				w.net.isErr = 0
				after, _ := w.observe()
				want := tw.States[c.At]
				if cr.published {
					want = tw.States[c.At+1]
				}
				if after.key() != before.key() && after.key() != want.key() {
					cl, what := diffClause(after, want, subject, cr.published, strings.HasPrefix(op, "create") && natural == "ok")
					violation(cl, "after a sweep whose IsCommitted question failed: "+what)
				}
			}
			w.sweep()
			cr.pending = len(w.asked)
			if len(w.asked) > 0 {
				cr.firstAsked = w.asked[0]
			}
			obs2, obs2Raw := w.observe()
			want := tw.States[c.At]
			if cr.published {
				want = tw.States[c.At+1]
			}
			created := strings.HasPrefix(op, "create") && natural == "ok"
			if !cr.published && obs2.key() != want.key() && obs2.key() == tw.States[c.At+1].key() && sameDocs(preRaw, obs2Raw, subject) {
				// The unpublished version was kept by the sweep, but every DID still shows the document of its previous
				// version: the operation changed nothing (e.g. deleting a service that does not exist) and the real
				// did:nuts IsCommitted compares document hashes. All DIDs moved together and show what they showed.
				r.Observation("unpublished-version-with-unchanged-document-kept", map[string]any{"case": c, "state": obs2.key()})
				cr.published = true // from here on the twin that performed the operation is the reference
				want = tw.States[c.At+1]
			}
			if obs2.key() != want.key() {
				cl, what := diffClause(obs2, want, subject, cr.published, created)
				// a difference in the OTHER subject only
				violation(cl, "after the cut and the sweep: "+what)
			}
			if cl, what := obs2.invariant(); cl != "" {
				violation(cl, what)
			}
			for s, ids := range preRaw.DIDs {
				if len(ids) > 0 && !sameSets(ids, obs2Raw.DIDs[s]) {
					violation("did-set-changed", fmt.Sprintf("subject %s had DIDs %v, now %v", s, ids, obs2Raw.DIDs[s]))
				}
			}
			// keys of the abandoned version
			var abandoned []string
			if !cr.published {
				for id, vms := range obs1Raw.VMs {
					for _, vm := range vms {
						if !contains(preRaw.VMs[id], vm) {
							abandoned = append(abandoned, vm)
						}
					}
				}
			}
			// (c) the repeated attempt
			if !cr.published && res != "ok" {
				w.commits = nil
				res2 := classify(w.apply(op, args))
				post, postRaw := w.observe()
				switch {
				case res2 == "ok" && natural == "ok" && strings.Join(sortedCopy(w.commits), ";") != strings.Join(tw.Commits[c.At], ";"):
					violation("retry-publishes-other-documents", fmt.Sprintf("the repeated attempt hands %v to the method managers, the fault-free twin %v", sortedCopy(w.commits), tw.Commits[c.At]))
				case natural == "ok" && res2 != "ok":
					violation("retry-refused", fmt.Sprintf("the repeated attempt answers %q although the same operation succeeds on the fault-free twin", res2))
				case res2 != natural:
					r.Observation("retry-answer-differs", map[string]any{"case": c, "retry": res2, "twin": natural})
				case post.key() != tw.States[c.At+1].key():
					violation("retry-wrong-state", fmt.Sprintf("after the repeated attempt: %s, twin: %s", post.key(), tw.States[c.At+1].key()))
				}
				for _, vm := range abandoned {
					for _, vms := range postRaw.VMs {
						if contains(vms, vm) {
							violation("abandoned-key-published", "verification method "+methodOf(vm)+" of an abandoned version is in a resolvable document")
						}
					}
				}
			}
			for _, vm := range abandoned {
				for _, doc := range w.net.publishedDocs {
					if strings.Contains(doc, `"`+vm+`"`) {
						violation("abandoned-key-published", "verification method of an abandoned version was published on the network")
					}
				}
			}
		}
		// (d) continue the sequence
		for j := c.At + 1; j < len(c.Seq); j++ {
			w.commits = nil
			res := classify(w.apply(c.Seq[j], w.prepare(c.Seq[j])))
			st, _ := w.observe()
			if res == tw.Results[j] && strings.Join(sortedCopy(w.commits), ";") != strings.Join(tw.Commits[j], ";") {
				violation("continuation-publishes-other-documents", fmt.Sprintf("operation %d (%s) after the cut hands %v to the method managers, the fault-free twin %v",
					j, c.Seq[j], sortedCopy(w.commits), tw.Commits[j]))
				break
			}
			if res != tw.Results[j] || st.key() != tw.States[j+1].key() {
				violation("continuation-differs", fmt.Sprintf("operation %d (%s) after the cut answers %s and leaves %s; fault-free twin: %s, %s",
					j, c.Seq[j], res, st.key(), tw.Results[j], tw.States[j+1].key()))
				break
			}
		}
		if n := w.pool.OpenTransactions(); n != 0 {
			t.Errorf("harness: %d transaction(s) left open", n)
		}
	})
	return cr
}

var runSeq int

// uniq gives every sub-test its own name: t.Run would disambiguate equal names with "#NN", and a '#' in the
// temp-dir path cuts the SQLite file URI short (all cases would share one database file).
func uniq(prefix string) string {
	runSeq++
	return fmt.Sprintf("%s_%d", prefix, runSeq)
}

func methodOf(vm string) string {
	if strings.HasPrefix(vm, "did:web") {
		return "did:web"
	}
	return "did:nuts"
}

func contains(xs []string, x string) bool {
	for _, y := range xs {
		if x == y {
			return true
		}
	}
	return false
}

// ------------------------------------------------------------------ enumeration

func sequences(maxLen int, filter func([]string) bool) [][]string {
	var out [][]string
	var rec func(prefix []string)
	rec = func(prefix []string) {
		if len(prefix) > 0 && (filter == nil || filter(prefix)) {
			out = append(out, append([]string{}, prefix...))
		}
		if len(prefix) == maxLen {
			return
		}
		for _, op := range alphabet {
			rec(append(prefix, op))
		}
	}
	rec(nil)
	return out
}

func TestVerifC13(t *testing.T) {
	logrus.SetOutput(io.Discard)
	logrus.SetLevel(logrus.PanicLevel)
	r := ev.Start(t, "C13")
	defer r.Finish()
	// the node gives up on a bbolt lock after one second of REAL time; on a loaded machine that is a harness hazard
	storage.DefaultBBoltOptions = append(storage.DefaultBBoltOptions, stoabs.WithLockAcquireTimeout(2*time.Minute))
	r.Rule("operation sequences over {create A, create B, add/update/delete service, add key, deactivate} (create A twice = create same subject) up to the length bound, from the empty database and from a start state in which subject A exists and has a service; enabled DID methods [web,nuts], [nuts], [web]; " +
		"for each operation of each sequence each numbered step of the fault-free twin run (SQL begin / statement / commit of both transactions, before and after each method's Commit, end) " +
		"x {error, stop}, plus an un-aged sweep inside the operation at each method-commit boundary; scripted did:nuts environment and real did:nuts manager + store; " +
		"a case is non-trivial when the cut operation changes documents on the twin")
	r.Assume("SQLite's atomic commit (a stop inside a transaction discards it); the did:nuts network is represented by a publish set (scripted) or by adding the published document to the real did:nuts store (real); " +
		"IsCommitted answers are truthful or a transient error; order of method managers (Go map order) is sampled, cases with pending records of both methods are repeated until both orders were seen")

	var rc caseT
	if r.ReplayCase(&rc) {
		tw := dryRun(t, r, rc.Nuts, rc.Methods, rc.Start, rc.Seq)
		cr := runCase(t, r, rc, tw)
		r.Eval(ev.Key(rc))
		r.Outcome(cr.outcome)
		return
	}

	maxLen, maxLenCreate, realLen := 2, 2, 2
	if r.Thorough() {
		maxLen, maxLenCreate, realLen = 3, 4, 3
	}
	r.Bound("sequence_length_all", maxLen)
	r.Bound("sequence_length_starting_with_create", maxLenCreate)
	r.Bound("sequence_length_real_nuts", realLen)

	type job struct {
		kind    string
		seq     []string
		start   string
		methods string
	}
	var jobs []job
	// only maximal sequences are enumerated: the cuts of a shorter sequence are the cuts of the first operations of a longer one
	for _, s := range sequences(maxLen, func(s []string) bool { return len(s) == maxLen }) {
		jobs = append(jobs, job{"scripted", s, "", ""})
	}
	if maxLenCreate > maxLen {
		for _, s := range sequences(maxLenCreate, func(s []string) bool { return len(s) == maxLenCreate && s[0] == opCreateA }) {
			jobs = append(jobs, job{"scripted", s, "", ""})
		}
	}
	for _, s := range sequences(realLen, func(s []string) bool { return len(s) == realLen && strings.HasPrefix(s[0], "create") }) {
		jobs = append(jobs, job{"real", s, "", ""})
	}
	// second start state: subject A exists and has a service (update / delete service have something to work on at once)
	preLen := 2
	if r.Thorough() {
		preLen = 3
	}
	for _, s := range sequences(preLen, func(s []string) bool { return len(s) == preLen && s[0] != opCreateB }) {
		jobs = append(jobs, job{"scripted", s, "pre", ""})
	}
	// configuration dimension: the node with only did:nuts, and with only did:web, enabled
	for _, methods := range []string{"nuts", "web"} {
		for _, s := range sequences(maxLen, func(s []string) bool { return len(s) == maxLen && s[0] == opCreateA }) {
			jobs = append(jobs, job{"scripted", s, "", methods})
		}
		for _, s := range sequences(preLen-1, func(s []string) bool { return len(s) == preLen-1 && !strings.HasPrefix(s[0], "create") }) {
			jobs = append(jobs, job{"scripted", s, "pre", methods})
		}
	}
	r.Bound("sequence_length_from_start_with_service", preLen)
	r.Bound("sequences", len(jobs))

	idx := 0
	cases, sweeps, orderBoth, orderOne := int64(0), int64(0), int64(0), int64(0)
	samples := 0
	for _, jb := range jobs {
		var tw *twin
		for at := range jb.seq {
			idx++
			// a cut in operation `at` of a maximal sequence: enumerate it once per distinct (prefix, continuation);
			// shards split the (sequence, position) pairs
			if !r.Mine(idx) {
				continue
			}
			if r.Expired() {
				break
			}
			if tw == nil {
				tw = dryRun(t, r, jb.kind, jb.methods, jb.start, jb.seq)
				if t.Failed() && r.Violations() == 0 {
					t.Fatalf("harness: twin run failed for %v", jb.seq)
				}
			}
			nontrivial := tw.Results[at] == "ok" && tw.States[at].key() != tw.States[at+1].key()
			var list []caseT
			for _, s := range tw.Steps[at] {
				interiorTx1 := s.Tx == 1 && s.Kind == "stmt"
				if jb.kind == "real" && interiorTx1 {
					continue // same code path as with the scripted environment
				}
				ext := ""
				if s.Kind == "ext" {
					ext = s.Label
				}
				list = append(list, caseT{Start: jb.start, Methods: jb.methods, Nuts: jb.kind, Seq: jb.seq, At: at, Step: s.N, Ext: ext, Mode: "stop", Sweep: "plain", Label: s.String()})
				if s.Kind == "ext" && (s.Label == "end" || strings.HasSuffix(s.Label, ":done") || s.Label == "web.Commit") {
					continue // errors are injected where the environment can fail: SQL steps and the did:nuts publish (did:web's Commit is empty)
				}
				list = append(list, caseT{Start: jb.start, Methods: jb.methods, Nuts: jb.kind, Seq: jb.seq, At: at, Step: s.N, Ext: ext, Mode: "error", Sweep: "plain", Label: s.String()})
			}
			for _, s := range tw.Steps[at] {
				if s.Kind == "ext" && s.Label != "end" {
					list = append(list, caseT{Start: jb.start, Methods: jb.methods, Nuts: jb.kind, Seq: jb.seq, At: at, Mode: "race", Race: s.Label, Sweep: "plain", Label: s.String()})
				}
			}
			for _, c := range list {
				if r.Expired() {
					break
				}
				cr := runCase(t, r, c, tw)
				cases++
				key := ""
				if nontrivial && cr.reached {
					key = ev.Key(c)
				}
				r.Eval(key)
				r.Outcome(cr.outcome)
				if nontrivial && cr.reached && samples < 6 && (cases%37 == 1) {
					samples++
					r.Sample(map[string]any{"case": c, "outcome": cr.outcome, "pending_records_at_sweep": cr.pending})
				}
				if c.Mode == "race" || !cr.reached {
					continue
				}
				if cr.pending > 0 && c.Nuts == "scripted" {
					c2 := c
					c2.Sweep = "iserr"
					cr2 := runCase(t, r, c2, tw)
					cases++
					r.Eval(ev.Key(c2))
					r.Outcome("iserr: " + cr2.outcome)
				}
				if cr.pending == 0 {
					continue
				}
				sweeps++
				// Go map order decides which method's record the sweep meets first: repeat until both were seen
				if !cr.published && cr.firstAsked != "" && len(tw.States[at+1].Subjects[opSubject(c.Seq[at])].DIDs) > 1 {
					seen := map[string]bool{cr.firstAsked: true}
					for try := 0; try < 10 && len(seen) < 2; try++ {
						crn := runCase(t, r, c, tw)
						cases++
						r.Eval("")
						if crn.firstAsked != "" {
							seen[crn.firstAsked] = true
						}
					}
					if len(seen) == 2 {
						orderBoth++
					} else {
						orderOne++
					}
				}
			}
		}
	}
	r.AddExtra("cases_run", cases)
	r.AddExtra("cases_with_pending_records_at_the_aged_sweep", sweeps)
	r.AddExtra("sweep_order_both_seen", orderBoth)
	r.AddExtra("sweep_order_one_seen_only", orderOne)
}
