// Reference model of C13 (DESIGN App. B.6), transcribed from the statement:
//
//	subject -> set of DIDs (one per method), DID -> committed versions v0..vn
//	op succeeds      => every DID of the subject gains the same number (0 or 1) of versions, change log empty
//	op fails / stops => after sweep(age > 1 min): every DID shows its previous last version (or the subject
//	                    does not exist for a create), change log empty, repeating the op can succeed
//	versions of a DID are 0..n (consecutive) and committed ones never disappear;
//	keys of an abandoned version are in no resolvable / published document; one DID set per subject.
//
// The model does not compute documents. It is the fault-free TWIN RUN of the same operation sequence on the
// real code, reduced to an abstract state (below); an operation that was cut counts as "took effect" exactly
// when its did:nuts change was published (the environment fact), else as "did not happen".
package c13

import (
	"fmt"
	"sort"
	"strings"
)

// absDID is what the statement lets us compare of one DID.
type absDID struct {
	Method      string   `json:"method"`
	Versions    []int    `json:"versions"` // version numbers present, ascending
	NumVMs      int      `json:"vms"`      // verification methods of the latest version
	Services    []string `json:"services"` // "type|endpoint" of the latest version, sorted
	Deactivated bool     `json:"deactivated"`
	Resolvable  bool     `json:"resolvable"`
	// the same version as the relational read API shows it (DIDDocumentManager.Latest: rows of did_verification_method /
	// did_service reached through the link tables) - "shows its previous version" means all of it
	RelVersion  int      `json:"rel_version"`
	RelVMs      int      `json:"rel_vms"`
	RelServices []string `json:"rel_services"`
}

type absSubject struct {
	Exists bool     `json:"exists"`          // Manager.Exists
	Listed int      `json:"listed"`          // len(Manager.ListDIDs), -1 = ErrSubjectNotFound
	DIDs   []absDID `json:"dids"`            // rows of table `did` for the subject, by method
	Svc    []string `json:"found_services"`  // Manager.FindServices(type T)
	Err    string   `json:"error,omitempty"` // unexpected API error
}

type absState struct {
	Subjects  map[string]absSubject `json:"subjects"`
	ChangeLog int                   `json:"change_log_rows"`
}

func (a absState) key() string {
	names := make([]string, 0, len(a.Subjects))
	for n := range a.Subjects {
		names = append(names, n)
	}
	sort.Strings(names)
	var sb strings.Builder
	for _, n := range names {
		s := a.Subjects[n]
		fmt.Fprintf(&sb, "%s{exists=%v listed=%d svc=%v err=%s", n, s.Exists, s.Listed, s.Svc, s.Err)
		for _, d := range s.DIDs {
			fmt.Fprintf(&sb, " %s:v%v vms=%d svc=%v deact=%v res=%v rel(v%d vms=%d svc=%v)", d.Method, d.Versions, d.NumVMs, d.Services, d.Deactivated, d.Resolvable,
				d.RelVersion, d.RelVMs, d.RelServices)
		}
		sb.WriteString("} ")
	}
	fmt.Fprintf(&sb, "changelog=%d", a.ChangeLog)
	return sb.String()
}

// invariants that hold in EVERY quiescent state (after an operation returned or after the sweep following a
// cut): returns the first broken clause ("" = fine).
func (a absState) invariant() (clause, detail string) {
	for name, s := range a.Subjects {
		seen := map[string]bool{}
		for _, d := range s.DIDs {
			if seen[d.Method] {
				return "two-did-sets", fmt.Sprintf("subject %s has more than one DID of method %s", name, d.Method)
			}
			seen[d.Method] = true
			for i, v := range d.Versions {
				if v != i {
					return "versions-not-consecutive", fmt.Sprintf("subject %s method %s has versions %v", name, d.Method, d.Versions)
				}
			}
		}
	}
	return "", ""
}

// diffClause names the way in which the state after cut + sweep (got) deviates from the expected twin state.
// published tells which twin state was expected (after the op / before the op); created tells that the cut
// operation was a Create of a subject that did not exist before.
func diffClause(got, want absState, subject string, published, created bool) (clause, detail string) {
	g, w := got.Subjects[subject], want.Subjects[subject]
	detail = fmt.Sprintf("subject %s: got %s, statement requires %s", subject, absState{Subjects: map[string]absSubject{subject: g}, ChangeLog: got.ChangeLog}.key(),
		absState{Subjects: map[string]absSubject{subject: w}, ChangeLog: want.ChangeLog}.key())
	// together or not at all: all DIDs of the subject must have the same number of versions as each other's twin
	if len(g.DIDs) > 1 {
		n := len(g.DIDs[0].Versions)
		for _, d := range g.DIDs[1:] {
			if len(d.Versions) != n {
				return "partial", detail
			}
		}
	}
	if published {
		return "committed-op-lost", detail
	}
	if created {
		if len(g.DIDs) > 0 {
			for _, d := range g.DIDs {
				if len(d.Versions) > 0 {
					return "not-rolled-back", detail
				}
			}
			return "orphan-did", detail
		}
		if g.Exists || g.Listed >= 0 {
			return "orphan-did", detail
		}
	}
	if len(g.DIDs) != len(w.DIDs) {
		return "did-set-changed", detail
	}
	for i := range g.DIDs {
		if len(g.DIDs[i].Versions) > len(w.DIDs[i].Versions) {
			return "not-rolled-back", detail
		}
		if len(g.DIDs[i].Versions) < len(w.DIDs[i].Versions) {
			return "version-lost", detail
		}
	}
	if got.ChangeLog != want.ChangeLog {
		return "change-log-not-empty", detail
	}
	return "previous-version-not-shown", detail
}
