// C13, module part: the rollback sweep driven by the PRODUCT. The real vdr.Module (NewVDR + Configure + Start, as the
// node does) on the real storage engine, key store, did:nuts store and event manager; only the network is a stub that
// accepts a transaction and hands the document to the did:nuts store (what the network subscriber does). For every
// configuration of enabled DID methods: a subject operation is stopped between the database write and the publish,
// two minutes pass (SQL update of updated_at), the node is started again and runs whatever sweep IT starts by itself.
// No wall-clock oracle: Module.Shutdown waits for the module's routines, and the sweep loop sweeps once before it
// looks at its context, so after Start + Shutdown the start-up sweep has run if the product started one.
package c13

import (
	"context"
	"encoding/json"
	"fmt"
	"io"
	"sort"
	"strings"
	"testing"
	"time"

	"github.com/nuts-foundation/go-did/did"
	"github.com/nuts-foundation/go-stoabs"
	"github.com/nuts-foundation/nuts-node/audit"
	"github.com/nuts-foundation/nuts-node/core"
	nutsCrypto "github.com/nuts-foundation/nuts-node/crypto"
	"github.com/nuts-foundation/nuts-node/crypto/hash"
	"github.com/nuts-foundation/nuts-node/events"
	nutsnet "github.com/nuts-foundation/nuts-node/network"
	"github.com/nuts-foundation/nuts-node/network/dag"
	"github.com/nuts-foundation/nuts-node/network/transport"
	"github.com/nuts-foundation/nuts-node/storage"
	"github.com/nuts-foundation/nuts-node/storage/orm"
	"github.com/nuts-foundation/nuts-node/vdr"
	"github.com/nuts-foundation/nuts-node/vdr/didnuts/didstore"
	"github.com/nuts-foundation/nuts-node/vdr/didsubject"
	"github.com/sirupsen/logrus"

	"verif/ev"
	"verif/fault"
)

// stubNetwork is the environment: it accepts every transaction and delivers the did:nuts document to the node's
// own did:nuts store, as the network layer's subscriber would.
type stubNetwork struct {
	store     didstore.Store
	clock     uint32
	published []string // summaries of the documents that went out
}

func (n *stubNetwork) Subscribe(string, dag.ReceiverFn, ...nutsnet.SubscriberOption) error {
	return nil
}
func (n *stubNetwork) Subscribers() []dag.Notifier                             { return nil }
func (n *stubNetwork) GetTransactionPayload(hash.SHA256Hash) ([]byte, error)   { return nil, nil }
func (n *stubNetwork) GetTransaction(hash.SHA256Hash) (dag.Transaction, error) { return nil, nil }
func (n *stubNetwork) ListTransactionsInRange(uint32, uint32) ([]dag.Transaction, error) {
	return nil, nil
}
func (n *stubNetwork) PeerDiagnostics() map[transport.PeerID]transport.Diagnostics { return nil }
func (n *stubNetwork) Reprocess(context.Context, string) (*nutsnet.ReprocessReport, error) {
	return nil, nil
}
func (n *stubNetwork) WithPersistency() nutsnet.SubscriberOption {
	return func() dag.NotifierOption { return dag.WithRetryDelay(time.Second) }
}
func (n *stubNetwork) DiscoverServices(did.DID)         {}
func (n *stubNetwork) AddressBook() []transport.Contact { return nil }
func (n *stubNetwork) Disabled() bool                   { return false }
func (n *stubNetwork) CreateTransaction(_ context.Context, spec nutsnet.Template) (dag.Transaction, error) {
	var doc did.Document
	if err := json.Unmarshal(spec.Payload, &doc); err != nil {
		return nil, err
	}
	n.clock++
	utx, err := dag.NewTransaction(hash.SHA256Sum(spec.Payload), spec.Type, spec.AdditionalPrevs, nil, n.clock)
	if err != nil {
		return nil, err
	}
	tx := utx.(dag.Transaction)
	// an unsigned transaction has no reference yet: give the store a unique one
	ref := hash.SHA256Sum(append(append([]byte{}, spec.Payload...), byte(n.clock), byte(n.clock>>8)))
	if err := n.store.Add(doc, didstore.Transaction{Clock: n.clock, PayloadHash: tx.PayloadHash(), Previous: spec.AdditionalPrevs, Ref: ref, SigningTime: time.Now()}); err != nil {
		return nil, err
	}
	var svcs []string
	for _, svc := range doc.Service {
		svcs = append(svcs, fmt.Sprintf("%s|%v", svc.Type, svc.ServiceEndpoint))
	}
	sort.Strings(svcs)
	n.published = append(n.published, fmt.Sprintf("vms=%d svc=%v", len(doc.VerificationMethod), svcs))
	return tx, nil
}

type moduleStop struct{}

// stopper wraps a method manager of the running node: the process is killed when the armed Commit begins
// (transactionHelper has no deferred clean-up, so nothing runs that a kill would not run).
type stopper struct {
	didsubject.MethodManager
	armed *bool
}

func (s stopper) Commit(ctx context.Context, change orm.DIDChangeLog) error {
	if *s.armed {
		panic(moduleStop{})
	}
	return s.MethodManager.Commit(ctx, change)
}

type moduleEnv struct {
	t      *testing.T
	w      *world // db handles + observation (mgr is the running module's subject manager)
	se     storage.Engine
	net    *stubNetwork
	evMgr  events.Event
	store  didstore.Store
	method []string
}

func newModuleEnv(t *testing.T, methods []string) *moduleEnv {
	se := storage.NewTestStorageEngine(t)
	if err := se.Start(); err != nil {
		t.Fatal(err)
	}
	db := se.GetSQLDatabase()
	w := &world{t: t, kind: "module", se: se, db: db, ctx: audit.TestContext(), net: &network{published: map[string]bool{}}}
	w.pool = fault.InstallPool(db)
	w.pool.SchedPoints = false
	var err error
	if w.sqldb, err = w.pool.GetDBConn(); err != nil {
		t.Fatal(err)
	}
	w.ks = nutsCrypto.NewDatabaseCryptoInstance(db)
	store := didstore.TestStore(t, se)
	return &moduleEnv{t: t, w: w, se: se, store: store, net: &stubNetwork{store: store}, evMgr: events.NewTestManager(t), method: methods}
}

// boot starts the node's VDR the way the node does and returns it; the environment's manager follows it.
func (e *moduleEnv) boot() *vdr.Module {
	m := vdr.NewVDR(e.w.ks, e.net, e.store, e.evMgr, e.se, nil)
	cfg := core.TestServerConfig(func(c *core.ServerConfig) {
		c.DIDMethods = e.method
		c.URL = "https://nuts.nl"
	})
	if err := m.Configure(cfg); err != nil {
		e.t.Fatalf("harness: vdr.Configure: %v", err)
	}
	if err := m.Start(); err != nil {
		e.t.Fatalf("harness: vdr.Start: %v", err)
	}
	sm, ok := m.Manager.(*didsubject.SqlManager)
	if !ok {
		e.t.Fatalf("harness: the module's subject manager is a %T", m.Manager)
	}
	e.w.mgr = sm
	return m
}

type moduleScenario struct {
	name   string
	before []string // fault-free operations
	cut    string   // the operation that is stopped at its first method commit
	after  []string // continuation after the retry
}

var moduleScenarios = []moduleScenario{
	{"stop-in-add-service", []string{opCreateA}, opAddSvc, []string{opAddKey}},
	{"stop-in-create", []string{opCreateB}, opCreateA, []string{opAddSvc}},
}

type moduleCase struct {
	Methods  string `json:"methods"`
	Scenario string `json:"scenario"`
}

func TestVerifC13Module(t *testing.T) {
	logrus.SetOutput(io.Discard)
	logrus.SetLevel(logrus.PanicLevel)
	r := ev.Start(t, "C13")
	defer r.Finish()
	storage.DefaultBBoltOptions = append(storage.DefaultBBoltOptions, stoabs.WithLockAcquireTimeout(2*time.Minute))
	r.Rule("enabled DID methods {[web,nuts], [nuts], [web]} x 2 structured scenarios on the real vdr.Module: fault-free prefix, an operation stopped at its first method commit (between the database write and the publish), " +
		"rows aged by two minutes, the node started again (Configure + Start) so that its own start-up sweep runs, Shutdown (waits for the sweep loop), then observation, the repeated operation and a continuation, all compared with the fault-free twin")
	r.Assume("the network is a stub that accepts every transaction and feeds the did:nuts store; only the start-up run of the sweep loop is exercised (its one-minute ticker is not waited for)")

	var rc moduleCase
	replay := r.ReplayCase(&rc)
	idx := 0
	for _, methods := range [][]string{{"web", "nuts"}, {"nuts"}, {"web"}} {
		for _, sc := range moduleScenarios {
			idx++
			cfg := strings.Join(methods, ",")
			if replay && (rc.Methods != cfg || rc.Scenario != sc.name) {
				continue
			}
			if !replay && (!r.Mine(idx) || r.Expired()) {
				continue
			}
			class := cfg + "/" + sc.name
			violation := func(clause, what string) {
				r.Violation("C13|module|"+clause+"|"+class, fmt.Sprintf("%s [enabled methods %s, scenario %s: %v, then %s stopped at its first method commit, node restarted]", what, cfg, sc.name, sc.before, sc.cut),
					moduleCase{Methods: cfg, Scenario: sc.name})
			}
			// fault-free twin
			var states []absState
			var pubs [][]string
			t.Run(uniq("twin"), func(t *testing.T) {
				e := newModuleEnv(t, methods)
				m := e.boot()
				defer m.Shutdown()
				for _, op := range append(append(append([]string{}, sc.before...), sc.cut), sc.after...) {
					n := len(e.net.published)
					if err := e.w.apply(op, e.w.prepare(op)); err != nil {
						t.Fatalf("harness: fault-free %s with methods %s: %v", op, cfg, err)
					}
					st, _ := e.w.observe()
					states = append(states, st)
					pubs = append(pubs, append([]string{}, e.net.published[n:]...))
				}
			})
			if t.Failed() {
				return
			}
			t.Run(uniq("case"), func(t *testing.T) {
				e := newModuleEnv(t, methods)
				m1 := e.boot()
				for _, op := range sc.before {
					if err := e.w.apply(op, e.w.prepare(op)); err != nil {
						t.Fatalf("harness: %s: %v", op, err)
					}
				}
				nb := len(sc.before)
				// the stop
				armed := true
				for name, mm := range e.w.mgr.MethodManagers {
					e.w.mgr.MethodManagers[name] = stopper{MethodManager: mm, armed: &armed}
				}
				args := e.w.prepare(sc.cut)
				stopped := false
				func() {
					defer func() {
						if rec := recover(); rec != nil {
							if _, ok := rec.(moduleStop); !ok {
								panic(rec)
							}
							stopped = true
						}
					}()
					_ = e.w.apply(sc.cut, args)
				}()
				if !stopped {
					t.Fatalf("harness: %s did not reach a method commit", sc.cut)
				}
				_ = m1.Shutdown() // the killed process
				e.w.pool.Restart()
				pending := len(e.w.queryStrings("SELECT did_document_version_id FROM did_change_log"))
				if pending == 0 {
					t.Fatalf("harness: no change record after the stop")
				}
				e.w.age()
				// the node comes up again and does what it does
				m2 := e.boot()
				_ = m2.Shutdown()
				obs, _ := e.w.observe()
				// did:web has no publish step: with only did:web enabled the operation has taken effect with the first transaction
				want := states[nb-1]
				effect := cfg == "web"
				if effect {
					want = states[nb]
				}
				r.Eval(class)
				r.Outcome(fmt.Sprintf("%s: %d change record(s) after the stop, %d after the restart", class, pending, obs.ChangeLog))
				if effect && obs.ChangeLog != 0 {
					cmp := obs
					cmp.ChangeLog = 0
					if cmp.key() == want.key() {
						// the product starts no sweep when did:nuts is disabled (Module.Start returns early): the change records
						// of the stopped operation stay. The documents are what they must be; nothing in the statement
						// is about a node that has no sweep, so this is recorded, not judged.
						r.Observation("only-did-web-enabled: no sweep is started, change records of a stopped operation stay", map[string]any{"scenario": sc.name, "change_records": obs.ChangeLog})
						obs = cmp
					}
				}
				if obs.key() != want.key() {
					cl, what := diffClause(obs, want, opSubject(sc.cut), effect, strings.HasPrefix(sc.cut, "create"))
					violation(cl, "after the restart (the node's own sweep): "+what)
					return
				}
				if cl, what := obs.invariant(); cl != "" {
					violation(cl, what)
					return
				}
				// the repeated attempt, then the continuation: answers, states and what goes out on the network
				step := nb
				ops := append([]string{sc.cut}, sc.after...)
				if effect {
					step, ops = nb+1, sc.after
				}
				for i, op := range ops {
					n := len(e.net.published)
					err := e.w.apply(op, e.w.prepare(op))
					st, _ := e.w.observe()
					if effect {
						st.ChangeLog = 0
					}
					got := append([]string{}, e.net.published[n:]...)
					switch {
					case err != nil && i == 0 && !effect:
						violation("retry-refused", fmt.Sprintf("the repeated %s answers %v", op, err))
						return
					case err != nil:
						violation("continuation-differs", fmt.Sprintf("%s after the restart answers %v", op, err))
						return
					case strings.Join(got, ";") != strings.Join(pubs[step+i], ";"):
						violation("abandoned-content-published", fmt.Sprintf("%s after the restart publishes %v on the network, the fault-free twin %v", op, got, pubs[step+i]))
						return
					case st.key() != states[step+i].key():
						violation("continuation-differs", fmt.Sprintf("after %s: %s, fault-free twin: %s", op, st.key(), states[step+i].key()))
						return
					}
				}
			})
		}
	}
	r.Bound("configurations_x_scenarios", idx)
}
