// C13, schedule part: overlapping subject operations. Every interleaving of 2-3 concurrent operations on the same
// subject at SQL-transaction granularity (fault.Pool: scheduling points at BEGIN and at every standalone statement,
// the single SQLite connection is a virtual lock), no faults. Oracle: a subject name maps to at most one set of
// DIDs; an operation that answers ok gave every DID of the subject exactly one version (together), versions are
// consecutive, no change record remains.
package c13

import (
	"fmt"
	"io"
	"os"
	"strconv"
	"strings"
	"testing"
	"time"

	"github.com/nuts-foundation/go-did/did"
	"github.com/nuts-foundation/go-stoabs"
	"github.com/nuts-foundation/nuts-node/storage"
	"github.com/nuts-foundation/nuts-node/storage/orm"
	"github.com/nuts-foundation/nuts-node/vdr/didsubject"
	"github.com/sirupsen/logrus"

	"verif/ev"
	"verif/sched"
)

// scope is a testing.TB whose clean-ups and temp dirs are released by the harness when the next execution is set
// up (the scheduler does not call the check function for its self-check replays).
type scope struct {
	testing.TB
	cleanups []func()
}

func (s *scope) Cleanup(f func()) { s.cleanups = append(s.cleanups, f) }
func (s *scope) TempDir() string {
	d, err := os.MkdirTemp("", "c13x")
	if err != nil {
		s.TB.Fatal(err)
	}
	s.cleanups = append(s.cleanups, func() { _ = os.RemoveAll(d) })
	return d
}
func (s *scope) close() {
	for i := len(s.cleanups) - 1; i >= 0; i-- {
		s.cleanups[i]()
	}
	s.cleanups = nil
}

var lastScope *scope

type schedCase struct {
	Start    string `json:"start"`   // "" | pre
	Threads  string `json:"threads"` // C = Create(A), S = CreateService, K = AddVerificationMethod, D = Deactivate, X = DeleteService
	Schedule []int  `json:"schedule,omitempty"`
}

func TestVerifC13Sched(t *testing.T) {
	logrus.SetOutput(io.Discard)
	logrus.SetLevel(logrus.PanicLevel)
	r := ev.Start(t, "C13")
	defer r.Finish()
	storage.DefaultBBoltOptions = append(storage.DefaultBBoltOptions, stoabs.WithLockAcquireTimeout(2*time.Minute))
	r.Rule("all interleavings (no preemption bound) of 2-3 overlapping subject operations on the same subject: Create racing Create / Deactivate / AddService from the empty database, " +
		"and service / key / deactivate operations racing each other on an existing subject; scheduling points at SQL transaction begin and at every standalone statement")
	r.Assume("inside one SQL transaction no other thread runs (SQLite with one connection); the did:nuts environment publishes without faults")

	type set struct{ start, threads string }
	sets := []set{{"", "CC"}, {"", "CCC"}, {"", "CD"}, {"", "CS"}, {"pre", "SS"}, {"pre", "SK"}, {"pre", "SD"}, {"pre", "XS"}, {"pre", "CS"}}
	if r.Thorough() {
		sets = append(sets, set{"", "CCD"}, set{"", "CCS"}, set{"pre", "SKD"}, set{"pre", "XSK"}, set{"pre", "SSS"})
	}
	deadline := time.Now().Add(10 * time.Minute)
	if v, err := strconv.Atoi(os.Getenv("VERIF_BUDGET_S")); err == nil && v > 0 {
		deadline = time.Now().Add(time.Duration(v) * time.Second * 9 / 10)
	}
	// per worker and thread set; the unchanged tree needs 342 for the largest quick set (a cap that is hit is reported as non-exhaustive)
	maxExec := int64(4000)
	if r.Thorough() {
		maxExec = 200000
	}
	var rc schedCase
	replay := r.ReplayCase(&rc)
	shard, nsh := r.Shard()
	total := int64(0)
	for _, s := range sets {
		if replay && (rc.Start != s.start || rc.Threads != s.threads) {
			continue
		}
		opts := sched.Options{Bound: -1, Shard: shard, NSh: nsh, SelfCheck: true, MaxSteps: 5000, Deadline: deadline, MaxExec: maxExec}
		if replay {
			opts.Replay = rc.Schedule
			if opts.Replay == nil {
				opts.Replay = []int{}
			}
		}
		res := sched.Explore(opts, func(x *sched.Exec) func(x *sched.Exec) {
			return schedSetup(t, r, x, s.start, s.threads)
		})
		total += res.Executions
		r.Bound("schedules "+s.start+"/"+s.threads, res.Executions)
		if !res.Exhaustive {
			r.NotExhaustive("schedule exploration capped: " + res.Capped)
		}
		for _, e := range res.Errors {
			t.Fatalf("harness: scheduler: %s", e)
		}
		if res.Deadlocks > 0 {
			r.Observation("deadlock-under-virtual-connection-lock", fmt.Sprintf("%s/%s: %d schedules", s.start, s.threads, res.Deadlocks))
		}
		if r.Expired() {
			break
		}
	}
	r.AddExtra("schedules", total)
	if lastScope != nil {
		lastScope.close()
		lastScope = nil
	}
}

func schedSetup(t *testing.T, r *ev.Run, x *sched.Exec, start, ths string) func(x *sched.Exec) {
	if lastScope != nil {
		lastScope.close()
	}
	lastScope = &scope{TB: t}
	w := newWorld(lastScope, "scripted")
	w.pool.SchedPoints = true
	w.preset(start)
	before, _ := w.observe()
	violation := func(clause, what string, x *sched.Exec) {
		r.Violation("C13|sched|"+clause+"|"+start+"/"+ths, fmt.Sprintf("%s [start %q, threads %s, trace %v]", what, start, ths, x.Trace),
			schedCase{Start: start, Threads: ths, Schedule: x.Choices()})
	}
	errs := make([]error, len(ths))
	// the operation a thread runs; every service thread adds its own service
	frag := ""
	if start == "pre" {
		frag = w.prepare(opDelSvc).Frag
	}
	for i, th := range ths {
		i := i
		switch th {
		case 'C':
			x.Go(fmt.Sprintf("create%d", i), func() { errs[i] = w.apply(opCreateA, nil) })
		case 'D':
			x.Go(fmt.Sprintf("deactivate%d", i), func() { errs[i] = w.apply(opDeact, nil) })
		case 'K':
			x.Go(fmt.Sprintf("addkey%d", i), func() { errs[i] = w.apply(opAddKey, nil) })
		case 'X':
			x.Go(fmt.Sprintf("delsvc%d", i), func() { errs[i] = w.apply(opDelSvc, &opArgs{Frag: frag}) })
		case 'S':
			x.Go(fmt.Sprintf("addsvc%d", i), func() {
				_, errs[i] = w.mgr.CreateService(w.ctx, "A", did.Service{Type: svcType, ServiceEndpoint: fmt.Sprintf("https://a.example/t%d", i)})
			})
		}
	}
	return func(x *sched.Exec) {
		if x.Deadlock || x.Diverged != "" || x.Horizon {
			return
		}
		for i, p := range x.Panics() {
			if p != nil {
				t.Fatalf("harness: thread %d panicked: %v", i, p)
			}
		}
		after, _ := w.observe()
		var results []string
		okChanging := 0
		for i, th := range ths {
			res := classify(errs[i])
			results = append(results, string(th)+":"+res)
			if res == "ok" {
				okChanging++
			}
		}
		a, b := after.Subjects["A"], before.Subjects["A"]
		if cl, what := after.invariant(); cl != "" {
			violation(cl, what+" (answers "+strings.Join(results, " ")+")", x)
		}
		// together: every DID of the subject has the same number of versions, and it gained one per operation that answered ok
		for _, d := range a.DIDs {
			prev := 0
			for _, bd := range b.DIDs {
				if bd.Method == d.Method {
					prev = len(bd.Versions)
				}
			}
			if len(d.Versions)-prev != okChanging && len(a.DIDs) <= 2 {
				violation("versions-do-not-match-answers", fmt.Sprintf("%d operations answered ok (%s) but the did:%s document of the subject went from %d to %d versions: %s",
					okChanging, strings.Join(results, " "), d.Method, prev, len(d.Versions), after.key()), x)
			}
		}
		if len(a.DIDs) > 1 && len(a.DIDs[0].Versions) != len(a.DIDs[1].Versions) {
			violation("partial", "the DIDs of the subject have different numbers of versions: "+after.key(), x)
		}
		if after.ChangeLog != 0 {
			violation("change-log-not-empty", fmt.Sprintf("%d change records remain after all operations returned: %s", after.ChangeLog, after.key()), x)
		}
		if a.Err != "" {
			violation("read-api-error", a.Err, x)
		}
		r.Eval(fmt.Sprintf("%s/%s/%v", start, ths, x.Choices()))
		r.Outcome(fmt.Sprintf("%s/%s %s", start, ths, strings.Join(results, " ")))
	}
}

var _ = orm.AssertionKeyUsage
var _ = didsubject.ErrSubjectNotFound
