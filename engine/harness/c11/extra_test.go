package c11

import (
	"bytes"
	"compress/gzip"
	"encoding/base64"
	"encoding/json"
	"errors"
	"fmt"
	"strconv"
	"strings"
	"testing"
	"time"

	ssi "github.com/nuts-foundation/go-did"
	"github.com/nuts-foundation/go-did/did"
	"github.com/nuts-foundation/go-did/vc"
	"github.com/nuts-foundation/nuts-node/crypto/hash"
	"github.com/nuts-foundation/nuts-node/network/dag"
	"github.com/nuts-foundation/nuts-node/vcr/credential"
	"github.com/nuts-foundation/nuts-node/vcr/issuer"
	"github.com/nuts-foundation/nuts-node/vcr/revocation"
	"github.com/nuts-foundation/nuts-node/vcr/types"
	"github.com/nuts-foundation/nuts-node/verifshim/vtime"

	"verif/ev"
	"verif/fault"
)

// ------------------------------------------------------------------ lists of a foreign issuer: length x index

func encodeBitsLen(bits map[int]bool, nbytes int) string {
	b := make([]byte, nbytes)
	for i, v := range bits {
		if v {
			b[i/8] |= 0x80 >> uint(i%8)
		}
	}
	var buf bytes.Buffer
	zw := gzip.NewWriter(&buf)
	_, _ = zw.Write(b)
	_ = zw.Close()
	return base64.RawURLEncoding.EncodeToString(buf.Bytes())
}

// externalListSweep: the harness is the web server of an issuer that neither node manages. The specification lets
// a list be LONGER than 16 kB ("at least"): list lengths {16 kB, 16 kB + 1 byte, 32 kB, 128 kB} x revoked index
// {0, 131071, 131072, last bit of the list}. Oracle unchanged: the bit is set in the list the credential names =>
// verification on node V fails as revoked, at the download and again from what V stored.
func externalListSweep(t *testing.T, r *ev.Run) {
	build(t, r, "fresh", nil, func(w *world) {
		w.start = "external-list"
		ext := did.MustParseDID("did:web:external.example")
		w.enrol(ext)
		now := vtime.Now()
		n := 0
		mkCred := func(url string, index int, serial int) vc.VerifiableCredential {
			id := ssi.MustParseURI(fmt.Sprintf("%s#6f7ad0c4-1d9c-4b8e-9d0a-%012d", ext.String(), serial))
			tmpl := vc.VerifiableCredential{
				Context:      []ssi.URI{vc.VCContextV1URI(), testContext, revocation.StatusList2021ContextURI},
				Type:         []ssi.URI{vc.VerifiableCredentialTypeV1URI(), humanType},
				ID:           &id,
				Issuer:       ext.URI(),
				IssuanceDate: now,
				CredentialSubject: []interface{}{map[string]interface{}{"id": holder,
					"human": map[string]interface{}{"eyeColour": "blue"}}},
				CredentialStatus: []any{revocation.StatusList2021Entry{ID: fmt.Sprintf("%s#%d", url, index), Type: revocation.StatusList2021EntryType,
					StatusPurpose: "revocation", StatusListIndex: strconv.Itoa(index), StatusListCredential: url}},
			}
			b, _ := json.Marshal(w.signLD(tmpl, kidOf(ext), now))
			cred, err := vc.ParseVerifiableCredential(string(b))
			if err != nil {
				t.Fatalf("harness: %v", err)
			}
			return *cred
		}
		verify := func(cred vc.VerifiableCredential) string {
			at := vtime.Now()
			err := w.V.ver.Verify(cred, true, true, &at)
			switch {
			case err == nil:
				return "ok"
			case errors.Is(err, types.ErrRevoked):
				return "revoked"
			}
			return "error: " + err.Error()
		}
		for _, nbytes := range []int{16 * 1024, 16*1024 + 1, 32 * 1024, 128 * 1024} {
			idxs := map[int]string{0: "first", 131071: "131071", 131072: "131072", nbytes*8 - 1: "last-bit"}
			for _, index := range []int{0, 131071, 131072, nbytes*8 - 1} {
				class, ok := idxs[index]
				if !ok || index >= nbytes*8 {
					continue
				}
				delete(idxs, index)
				n++
				url := fmt.Sprintf("https://external.example/statuslist/%d/%d", nbytes, index)
				bits := map[int]bool{index: true}
				tmpl := w.listTemplate(ext, url, "revocation", nil, now)
				tmpl.CredentialSubject = []interface{}{revocation.StatusList2021CredentialSubject{ID: url, Type: revocation.StatusList2021CredentialSubjectType,
					StatusPurpose: "revocation", EncodedList: encodeBitsLen(bits, nbytes)}}
				body, _ := json.Marshal(w.signLD(tmpl, kidOf(ext), now))
				sl := &servedList{Body: string(body), URL: url, Kind: "external", Bits: bits}
				w.served[sl.Body] = sl
				w.http.override[url] = sl
				revoked := mkCred(url, index, n*2)
				control := mkCred(url, (index+nbytes*8-1)%(nbytes*8), n*2+1) // the neighbouring position: bit clear
				key := fmt.Sprintf("bytes=%d|index=%s", nbytes, class)
				r.Eval("external-list|" + key)
				w.hist = []event{{Op: "verify", K: fmt.Sprintf("credential of %s naming %s (list of %d bytes), statusListIndex %d, bit set", ext, url, nbytes, index)}}
				for pass, where := range []string{"at the download", "from the stored list"} {
					v := verify(revoked)
					r.Outcome(fmt.Sprintf("external list bit set, %s: %s", where, strings.SplitN(v, ":", 2)[0]))
					if v == "ok" {
						w.violation("revocation-not-effective", "external-list|"+key, fmt.Sprintf("the list the credential names has bit %d set (list of %d bytes) and node V fetched it, yet verification succeeds (%s, pass %d)", index, nbytes, where, pass+1))
					} else if v != "revoked" {
						r.Observation("revoked-credential-fails-with-other-error", v)
					}
				}
				if v := verify(control); v != "ok" {
					t.Fatalf("harness: control credential (bit clear, list of %d bytes) does not verify: %s", nbytes, v)
				}
			}
		}
		if n < 12 {
			t.Fatalf("harness: only %d list-length / index combinations", n)
		}
		r.Bound("external_list_length_x_index", n)
	})
}

// ------------------------------------------------------------------ part faults: one failing SQL statement per call

type faultCase struct {
	Base string `json:"base"`
	Call string `json:"call"` // revoke | issue | serve
	Step int    `json:"step"` // statement of the call that fails (numbering of fault.Pool)
}

type faultBase struct {
	name, start string
	hist        []event
}

var faultBases = []faultBase{
	{"one-credential", "fresh", []event{{Op: "issueSL", I: 1}}},
	{"second-revocation-on-the-page", "fresh", []event{{Op: "issueSL", I: 1}, {Op: "issueSL", I: 1}, {Op: "revoke", C: 0}}},
	{"page-before-roll-over", "seeded", []event{{Op: "issueSL", I: 1}}},
	{"list-cached-by-the-verifier", "fresh", []event{{Op: "issueSL", I: 1}, {Op: "check"}}},
	{"list-near-expiry", "fresh", []event{{Op: "issueSL", I: 1}, {Op: "advance", K: "19h"}}},
}

func (w *world) dumpIssuer() string {
	var sb strings.Builder
	for _, q := range []string{
		"SELECT subject_id, issuer, page, last_issued_index FROM status_list ORDER BY 1",
		"SELECT status_list_credential, status_list_index, credential_id FROM status_list_entry ORDER BY 1, 2",
		"SELECT subject_id, status_purpose, bitstring, expires, raw FROM status_list_credential ORDER BY 1",
		"SELECT id FROM issued_credential ORDER BY 1",
	} {
		for _, rec := range queryRows(w.t, w.I.sqldb, q) {
			sb.WriteString(strings.Join(rec, "\x1f"))
			sb.WriteByte('\n')
		}
		sb.WriteString("--\n")
	}
	return sb.String()
}

// lastSL is the credential the faulted Revoke targets: the newest status-list credential of issuer 1.
func (w *world) lastSL() *mCred {
	var out *mCred
	for _, mc := range w.m.Creds {
		if mc.Issuer == 1 && mc.SL {
			out = mc
		}
	}
	return out
}

// call performs one API call on the issuing node the way the events do, but tolerates an error answer.
// It returns the answer class and updates the model only for what the node reported.
func (w *world) call(kind string) (answer string, err error) {
	switch kind {
	case "revoke":
		mc := w.lastSL()
		_, err = w.I.iss.Revoke(w.ctx, *w.creds[mc.N].ID)
		switch {
		case err == nil:
			mc.Revoked = true
			w.m.Lists[mc.URL].Revoked[mc.Index] = true
			return "ok", nil
		case errors.Is(err, types.ErrRevoked):
			return "already-revoked", err
		}
		return "error", err
	case "issue":
		d := issuerDID(1, true)
		tmpl := vc.VerifiableCredential{
			Context: []ssi.URI{vc.VCContextV1URI(), testContext},
			Type:    []ssi.URI{humanType},
			Issuer:  d.URI(),
			CredentialSubject: []interface{}{map[string]interface{}{"id": holder,
				"human": map[string]interface{}{"eyeColour": "blue"}}},
		}
		cred, ierr := w.I.iss.Issue(w.ctx, tmpl, issuer.CredentialOptions{WithStatusListRevocation: true})
		if ierr != nil {
			return "error", ierr
		}
		w.adopt(1, true, cred)
		return "ok", nil
	case "serve":
		mc := w.firstCred(1, true)
		rt := w.http.routes[mc.URL]
		now := vtime.Now()
		lst, serr := w.I.iss.StatusList(w.ctx, rt.DID, rt.Page)
		if serr != nil || lst == nil {
			return "error", serr // nothing left the node
		}
		w.judgeServed(mc.URL, lst, now)
		return "ok", nil
	}
	w.t.Fatalf("unknown call %s", kind)
	return "", nil
}

func TestVerifC11Faults(t *testing.T) {
	setup(t)
	r := ev.Start(t, "C11")
	defer r.Finish()
	r.Rule("for each of 5 base histories and each of the issuing node's calls {Revoke (newest status-list credential), Issue with status-list entry (Entry), StatusList (Credential)}: " +
		"every numbered SQL step of the call (transaction begin, every statement incl. key look-ups, commit; standalone statements) fails once with an injected error (deviation bound 1), " +
		"followed by check, a repeated call, check, 16 minutes, check")
	r.Assume("an injected error makes the single statement fail without side effect; SQLite keeps the transaction open after a failed statement")

	var rc faultCase
	replay := r.ReplayCase(&rc)
	idx, cases := 0, 0
	for _, base := range faultBases {
		for _, kind := range []string{"revoke", "issue", "serve"} {
			if replay && (rc.Base != base.name || rc.Call != kind) {
				continue
			}
			// fault-free run: how many steps has the call, and what does it answer
			steps, natural := 0, ""
			var labels []fault.PoolStep
			build(t, r, base.start, base.hist, func(w *world) {
				w.scenario = "faults"
				w.I.pool.ResetSteps()
				natural, _ = w.call(kind)
				labels = w.I.pool.Steps()
				steps = len(labels)
				w.checkStored()
				w.check()
			})
			if steps == 0 || natural != "ok" {
				t.Fatalf("harness: fault-free %s on base %s: %d steps, answer %s", kind, base.name, steps, natural)
			}
			for k := 1; k <= steps; k++ {
				idx++
				if replay && rc.Step != k {
					continue
				}
				if !replay && (!r.Mine(idx) || r.Expired()) {
					continue
				}
				cases++
				fc := faultCase{Base: base.name, Call: kind, Step: k}
				build(t, r, base.start, base.hist, func(w *world) {
					w.scenario, w.replay = "faults", fc
					w.hist = append(w.hist, event{Op: kind, K: fmt.Sprintf("SQL step %d (%s) fails", k, labels[k-1].Label)})
					class := base.name + "/" + kind
					before := w.dumpIssuer()
					w.I.pool.ResetSteps()
					w.I.pool.Arm(k, fault.PoolError)
					answer, err := w.call(kind)
					fired := w.I.pool.Fired()
					w.I.pool.Disarm()
					if fired == nil {
						r.Eval("")
						r.Outcome("step not reached")
						return
					}
					r.Eval(ev.Key(fc))
					r.Outcome(fmt.Sprintf("%s: %s step fails -> %s", kind, labels[k-1].Kind+" "+labels[k-1].Label, answer))
					if n := w.I.pool.OpenTransactions(); n != 0 {
						t.Fatalf("harness: %d transaction(s) left open", n)
					}
					// all or nothing per call: an error answer means nothing happened
					if answer == "error" && kind == "revoke" && w.dumpIssuer() != before {
						w.violation("failed-revoke-changed-state", class, fmt.Sprintf("Revoke answered an error (%v) and the issuing node's tables changed", err))
					}
					// an ok answer is judged by the model as always: the stored list, every served list, both verifiers
					w.checkStored()
					w.check()
					// the repeated call
					if answer == "error" {
						w.hist = append(w.hist, event{Op: kind, K: "again"})
						if again, err2 := w.call(kind); again != "ok" {
							w.violation("retry-refused", class, fmt.Sprintf("%s answered an error (%v); the repeated call answers %s (%v)", kind, err, again, err2))
						}
						w.checkStored()
						w.check()
					}
					w.apply(event{Op: "advance", K: "16m"})
					w.apply(event{Op: "check"})
					w.checkStored()
				})
			}
		}
	}
	r.Bound("fault_cases", idx)
	r.AddExtra("fault_cases_run", int64(cases))
	r.States(int64(cases))
	r.Transitions(int64(cases) * 4)
}

var _ = time.Now

// ------------------------------------------------------------------ credentials with several status entries

// multiEntrySweep: credentials of the foreign issuer with 2 and 3 credentialStatus entries, drawn in every order from
// {revocation on list A index i, revocation on list A index j, revocation on list B, suspension-purpose entry,
// entry of an unknown type}, with the revoked entry at each position (and none revoked as control). Oracle unchanged:
// a revocation-purpose entry whose bit is set in the list it names => verification fails as revoked.
func multiEntrySweep(t *testing.T, r *ev.Run) {
	build(t, r, "fresh", nil, func(w *world) {
		w.start = "multi-entry"
		ext := did.MustParseDID("did:web:external.example")
		w.enrol(ext)
		now := vtime.Now()
		type entry struct {
			name, list string // list: A | B | "" (no list involved)
			index      int
			purpose    string
			typ        string
		}
		alphabet := []entry{
			{"revocation-A-i", "A", 3, "revocation", revocation.StatusList2021EntryType},
			{"revocation-A-j", "A", 7, "revocation", revocation.StatusList2021EntryType},
			{"revocation-B", "B", 5, "revocation", revocation.StatusList2021EntryType},
			{"suspension", "S", 3, "suspension", revocation.StatusList2021EntryType},
			{"unknown-type", "", 0, "", "OtherStatus2099"},
		}
		var combos [][]int
		var rec func(cur []int)
		rec = func(cur []int) {
			if len(cur) >= 2 {
				combos = append(combos, append([]int{}, cur...))
			}
			if len(cur) == 3 {
				return
			}
			for i := range alphabet {
				used := false
				for _, c := range cur {
					used = used || c == i
				}
				if !used {
					rec(append(cur, i))
				}
			}
		}
		rec(nil)
		verify := func(cred vc.VerifiableCredential) string {
			at := vtime.Now()
			err := w.V.ver.Verify(cred, true, true, &at)
			switch {
			case err == nil:
				return "ok"
			case errors.Is(err, types.ErrRevoked):
				return "revoked"
			}
			return "error: " + err.Error()
		}
		serial, cases := 0, 0
		for ci, combo := range combos {
			// variant -1: nothing revoked (control); variant p: the entry at position p has its bit set
			for variant := -1; variant < len(combo); variant++ {
				if variant >= 0 && alphabet[combo[variant]].purpose != "revocation" {
					continue
				}
				serial++
				base := fmt.Sprintf("https://external.example/multi/%d/%d/", ci, variant+1)
				bits := map[string]map[int]bool{"A": {}, "B": {}, "S": {3: true}} // the suspension list has its bit set: it must be ignored
				if variant >= 0 {
					e := alphabet[combo[variant]]
					bits[e.list][e.index] = true
				}
				var statuses []any
				var names []string
				for _, ai := range combo {
					e := alphabet[ai]
					names = append(names, e.name)
					if e.list == "" {
						statuses = append(statuses, map[string]any{"id": base + "other#1", "type": e.typ})
						continue
					}
					statuses = append(statuses, revocation.StatusList2021Entry{ID: fmt.Sprintf("%s%s#%d", base, e.list, e.index), Type: e.typ,
						StatusPurpose: e.purpose, StatusListIndex: strconv.Itoa(e.index), StatusListCredential: base + e.list})
				}
				for _, l := range []string{"A", "B", "S"} {
					purpose := "revocation"
					if l == "S" {
						purpose = "suspension"
					}
					tmpl := w.listTemplate(ext, base+l, purpose, bits[l], now)
					body, _ := json.Marshal(w.signLD(tmpl, kidOf(ext), now))
					sl := &servedList{Body: string(body), URL: base + l, Kind: "external", Bits: bits[l]}
					w.served[sl.Body] = sl
					w.http.override[base+l] = sl
				}
				id := ssi.MustParseURI(fmt.Sprintf("%s#7a7ad0c4-1d9c-4b8e-9d0a-%012d", ext.String(), serial))
				tmpl := vc.VerifiableCredential{
					Context:      []ssi.URI{vc.VCContextV1URI(), testContext, revocation.StatusList2021ContextURI},
					Type:         []ssi.URI{vc.VerifiableCredentialTypeV1URI(), humanType},
					ID:           &id,
					Issuer:       ext.URI(),
					IssuanceDate: now,
					CredentialSubject: []interface{}{map[string]interface{}{"id": holder,
						"human": map[string]interface{}{"eyeColour": "blue"}}},
					CredentialStatus: statuses,
				}
				b, _ := json.Marshal(w.signLD(tmpl, kidOf(ext), now))
				cred, err := vc.ParseVerifiableCredential(string(b))
				if err != nil {
					t.Fatalf("harness: %v", err)
				}
				cases++
				got := verify(*cred)
				w.hist = []event{{Op: "verify", K: fmt.Sprintf("credential with status entries %v, bit set for entry %d (0 = none)", names, variant+1)}}
				if variant < 0 {
					if got != "ok" {
						t.Fatalf("harness: control credential with entries %v (nothing revoked) does not verify: %s", names, got)
					}
					r.Eval("")
					continue
				}
				r.Eval(fmt.Sprintf("multi-entry|%v|%d", names, variant))
				r.Outcome("several status entries, one revoked: " + strings.SplitN(got, ":", 2)[0])
				if got == "ok" {
					w.violation("revocation-not-effective", fmt.Sprintf("multi-entry|entries=%d|revoked-position=%d", len(combo), variant+1),
						fmt.Sprintf("the credential has status entries %v; the bit of entry %d (%s) is set in the list it names and node V fetched that list, yet verification succeeds", names, variant+1, alphabet[combo[variant]].name))
				} else if got != "revoked" {
					r.Observation("revoked-credential-fails-with-other-error", got)
				}
			}
		}
		if cases < 150 {
			t.Fatalf("harness: only %d multi-entry cases", cases)
		}
		r.Bound("multi_entry_credentials", cases)
	})
}

// ------------------------------------------------------------------ clock offsets between issuer and receiver

// clockOffsetSweep: the issuer's clock is not the receiver's. For every offset of the revocation's date (and proof
// creation time) relative to node V's clock, a validly signed revocation by the credential's issuer reaches node V - once
// through the real ambassador receiver under the notifier's contract, once through RegisterRevocation directly - and,
// per the statement, every later verification on that node fails as revoked. The unchanged node accepts every date
// (vcr/credential/revocation.go demands only a non-zero date; no skew is documented), so every offset is judged.
func clockOffsetSweep(t *testing.T, r *ev.Run) {
	offsets := []struct {
		name string
		d    time.Duration
	}{{"minus-1-year", -365 * 24 * time.Hour}, {"minus-1-hour", -time.Hour}, {"minus-1-second", -time.Second}, {"same-instant", 0}, {"plus-1-second", time.Second},
		{"plus-4-seconds", 4 * time.Second}, {"plus-6-seconds", 6 * time.Second}, {"plus-1-minute", time.Minute}, {"plus-1-hour", time.Hour}, {"plus-1-day", 24 * time.Hour}}
	paths := []string{"ambassador", "register"}
	var hist []event
	for range offsets {
		for range paths {
			hist = append(hist, event{Op: "issueNuts", I: 1})
		}
	}
	// one credential per case; bounds of the BFS do not apply here
	t.Run(uniq("s"), func(t *testing.T) {
		w := newWorld(t, r, "fresh", false)
		w.start = "clock-offset"
		for range hist {
			w.issue(1, false)
		}
		issuerD := issuerDID(1, false)
		n := 0
		for _, off := range offsets {
			for _, path := range paths {
				mc := w.m.Creds[n]
				n++
				class := path + "|" + off.name
				r.Eval("clock-offset|" + class)
				w.hist = []event{{Op: "deliver", C: mc.N, K: "revocation dated " + off.name + " relative to the receiving node's clock, via " + path}}
				if v := w.verifyOn(w.V, mc.N); v != "ok" {
					t.Fatalf("harness: nuts credential c%d does not verify before its revocation: %s", mc.N, v)
				}
				when := vtime.Now().Add(off.d)
				rev := credential.BuildRevocation(issuerD.URI(), ssi.MustParseURI(mc.ID))
				rev.Date = when
				b, _ := json.Marshal(w.signLD(rev, kidOf(issuerD), when))
				var signed credential.Revocation
				if err := json.Unmarshal(b, &signed); err != nil {
					t.Fatalf("harness: %v", err)
				}
				mc.Revoked, mc.RevPublished = true, true
				state, lastErr := "finished", error(nil)
				if path == "register" {
					lastErr = w.V.ver.RegisterRevocation(signed)
					if lastErr != nil {
						state = "refused"
					}
				} else {
					payload, _ := json.Marshal(signed)
					utx, err := dag.NewTransaction(hash.SHA256Sum(payload), types.RevocationLDDocumentType, nil, nil, 0)
					if err != nil {
						t.Fatal(err)
					}
					tx := utx.(dag.Transaction)
					evt := dag.Event{Type: dag.PayloadEventType, Hash: tx.Ref(), Transaction: tx, Payload: payload}
					state = "pending"
					for attempts := 0; state == "pending" && attempts < 10; attempts++ {
						finished, err := w.V.revReceiver(evt)
						lastErr = err
						switch {
						case err != nil && errors.As(err, new(dag.EventFatal)):
							state = "dropped"
						case err == nil && finished:
							state = "finished"
						}
					}
				}
				known, _ := w.V.ver.IsRevoked(ssi.MustParseURI(mc.ID))
				verdict := w.verifyOn(w.V, mc.N)
				r.Outcome(fmt.Sprintf("revocation dated %s via %s: %s, registered=%v, verify=%s", off.name, path, state, known, verdict))
				if !known || verdict == "ok" {
					w.violation("received-revocation-lost", "clock-offset|"+class, fmt.Sprintf("node V received the issuer's validly signed revocation of c%d whose date is %s relative to its own clock (via %s: %s, last error: %v); registered=%v and verification answers %s",
						mc.N, off.name, path, state, lastErr, known, verdict))
				}
			}
		}
		r.Bound("revocation_clock_offsets", len(offsets))
	})
}
