// Reference model of C11 (DESIGN App. B.5), transcribed from the statement:
//
//	page[i,p] : set of issued indexes (each handed out exactly once), set of revoked indexes (only grows)
//	serve(i,p) => signed list L with bits(L) == revoked[i,p], issuer i, exp - now >= 6h
//	verify(cred) on node N == revoked  iff  N knows a nuts revocation for cred.id issued by cred.issuer, or the
//	            list N last fetched from cred.status.url has cred's bit set; once revoked on N, always revoked
//	only the issuer's revoke action makes any verdict "revoked"; forged revocations / lists change nothing
//
// The bit-string decoder below is written from the StatusList2021 text (GZIP + base64url, index 0 = left-most
// bit of the first byte), independently of vcr/revocation/bitstring.go.
package c11

import (
	"bytes"
	"compress/gzip"
	"encoding/base64"
	"fmt"
	"io"
	"sort"
)

const listBits = 16 * 1024 * 8 // minimum (and the node's) list length: 131072 entries

type mCred struct {
	N            int    // order of issuance
	Issuer       int    // 1 | 2
	SL           bool   // status-list credential (did:web issuer) / network-revocation credential (did:nuts issuer)
	URL          string // list named by the credential
	Index        int
	ID           string
	Revoked      bool // the issuer's Revoke succeeded
	RevPublished bool // nuts: the signed revocation is on the network
	VKnows       bool // nuts: the issuer's revocation was delivered to node V
	EverRevokedV bool // node V answered "revoked" before
}

type mList struct {
	Issuer  int
	Issued  map[int]int  // index -> credential number (-1: handed out before the history started)
	Revoked map[int]bool // set by the issuer's revoke actions
	Served  map[int]bool // bits seen set in any list served so far (a set bit is never cleared)
	Tainted bool         // node V accepted a list signed by another DID for this URL (DESIGN §4 row 18): not judged any more
}

type model struct {
	Creds []*mCred
	Lists map[string]*mList
}

func newModel() *model { return &model{Lists: map[string]*mList{}} }

func (m *model) list(url string, issuer int) *mList {
	l := m.Lists[url]
	if l == nil {
		l = &mList{Issuer: issuer, Issued: map[int]int{}, Revoked: map[int]bool{}, Served: map[int]bool{}}
		m.Lists[url] = l
	}
	return l
}

// handOut registers a slot given to a credential; false = the slot was handed out before.
func (m *model) handOut(url string, issuer, index, cred int) bool {
	l := m.list(url, issuer)
	if _, dup := l.Issued[index]; dup {
		return false
	}
	l.Issued[index] = cred
	return true
}

func (m *model) urls() []string {
	out := make([]string, 0, len(m.Lists))
	for u := range m.Lists {
		out = append(out, u)
	}
	sort.Strings(out)
	return out
}

// servedClause judges one list served by the issuing node against the model: "" = fine.
func (l *mList) servedClause(bits map[int]bool) (clause, detail string) {
	for i := range l.Served {
		if !bits[i] {
			return "set-bit-cleared", fmt.Sprintf("bit %d was set in an earlier served list and is clear now", i)
		}
	}
	for i := range l.Revoked {
		if !bits[i] {
			return "revoked-bit-missing", fmt.Sprintf("index %d was revoked by the issuer but its bit is clear in the served list", i)
		}
	}
	for i := range bits {
		if !l.Revoked[i] {
			return "bit-set-without-revoke", fmt.Sprintf("bit %d is set in the served list although the issuer never revoked that index", i)
		}
	}
	return "", ""
}

func setKeys(s map[int]bool) []int {
	out := make([]int, 0, len(s))
	for k, v := range s {
		if v {
			out = append(out, k)
		}
	}
	sort.Ints(out)
	return out
}

// decodeBits expands an encodedList to the set of set bit positions.
func decodeBits(encoded string) (map[int]bool, int, error) {
	var raw []byte
	var err error
	if raw, err = base64.RawURLEncoding.DecodeString(encoded); err != nil {
		if raw, err = base64.URLEncoding.DecodeString(encoded); err != nil {
			return nil, 0, err
		}
	}
	zr, err := gzip.NewReader(bytes.NewReader(raw))
	if err != nil {
		return nil, 0, err
	}
	b, err := io.ReadAll(zr)
	if err != nil {
		return nil, 0, err
	}
	out := map[int]bool{}
	for i, v := range b {
		if v == 0 {
			continue
		}
		for j := 0; j < 8; j++ {
			if v&(0x80>>uint(j)) != 0 {
				out[i*8+j] = true
			}
		}
	}
	return out, len(b) * 8, nil
}

// encodeBits is the inverse (used for forged lists only).
func encodeBits(bits map[int]bool) string {
	b := make([]byte, listBits/8)
	for i, v := range bits {
		if v {
			b[i/8] |= 0x80 >> uint(i%8)
		}
	}
	var buf bytes.Buffer
	zw := gzip.NewWriter(&buf)
	_, _ = zw.Write(b)
	_ = zw.Close()
	return base64.RawURLEncoding.EncodeToString(buf.Bytes())
}
