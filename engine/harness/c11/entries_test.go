// Part entries of C11: the credentialStatus property of the verified credential as a dimension of the verify events.
//
// A credential may carry SEVERAL credentialStatus entries. The node documents which ones it honours
// (vcr/revocation/statuslist2021_verifier.go: type StatusList2021Entry with statusPurpose "revocation"; every other
// type / purpose is ignored). The statement: once the issuer set the status-list bit and the node refreshed the list,
// verification fails as revoked. The reference therefore reads: the credential must be refused when AT LEAST ONE entry
// of type StatusList2021Entry and purpose revocation, naming a list of the credential's own issuer, has its bit set in
// the list the node holds - whatever stands before or after that entry. Only this direction is judged; the converse
// (nothing set => verifies) is the vacuity guard: every credential is verified BEFORE the issuer revokes anything.
//
// Enumerated on the two real nodes (issuing node I with managed lists, verifying node V fetching over the HTTP seam):
//
//	entries     k = 1, 2 (full product) and 3 (structured) entries per credential, every position order, entry drawn
//	            from type {StatusList2021Entry, unknown} x purpose {revocation, suspension} x list {issuer's managed
//	            page ending at the page boundary, the issuer's next page, an external list of the same issuer, a
//	            managed list of ANOTHER issuer} x bit {clear, set}; several entries on one list use different indexes;
//	            k = 1 as object and as array of one; identical duplicates; JSON-LD credentials, and for k = 1 (k = 2:
//	            reduced alphabet, thorough: full product) the same credential in the JWT format
//	history     all lists clear -> every credential verifies (vacuity guard) -> the issuers set the bits, 16 minutes ->
//	            every path judged -> 16 minutes -> what had to be refused is refused still
//	paths       revocation verifier directly (both nodes), verifier.Verify with status checks (both nodes), VP
//	            verification on node V (JSON-LD and JWT presentation) carrying the credential
//	nuts-mix    credentials of a did:nuts issuer with status entries AND a network revocation, before / after the
//	            revocation reached node V
//	vp-pairs    presentations of two credentials over {unrevoked, revoked through the first / a later entry, revoked
//	            on the network}, every ordered pair, both presentation formats
//	spelling    one index written as string, number, with leading zeros / sign / white space, ... - every spelling
//	            that denotes the decimal index must meet the same bit
//	list-shape  status list credentials whose credentialSubject is an array of two subjects (ids x purposes x bit) or
//	            whose purpose is an array: never "revoked" without a subject for the named URL saying so, and a list
//	            the node stored must be honoured
//	failing     an entry that cannot be evaluated (index beyond the list, list not retrievable, wrong purpose in the
//	            list, list badly signed) before / after an entry whose bit is set
package c11

import (
	"encoding/json"
	"errors"
	"fmt"
	"sort"
	"strconv"
	"strings"
	"testing"
	"time"

	ssi "github.com/nuts-foundation/go-did"
	"github.com/nuts-foundation/go-did/did"
	"github.com/nuts-foundation/go-did/vc"
	"github.com/nuts-foundation/nuts-node/vcr/revocation"
	"github.com/nuts-foundation/nuts-node/vcr/signature"
	"github.com/nuts-foundation/nuts-node/vcr/signature/proof"
	"github.com/nuts-foundation/nuts-node/vcr/types"
	"github.com/nuts-foundation/nuts-node/verifshim/vtime"

	"verif/ev"
)

type entriesCase struct {
	Family string `json:"family"`
	Key    string `json:"key"`
}

// ------------------------------------------------------------------ alphabet of one status entry

type sym struct {
	Typ     string // SL | UNK (unknown type with the members of a status-list entry) | PLAIN (unknown type, id and type only)
	Purpose string
	List    string // A P X O S N M
	Bit     bool
}

func (s sym) String() string {
	if s.Typ == "PLAIN" {
		return "unknown-plain"
	}
	t := "sl"
	if s.Typ == "UNK" {
		t = "unknown"
	}
	b := "0"
	if s.Bit {
		b = "1"
	}
	return t + "/" + s.Purpose + "/" + s.List + b
}

func symsString(ss []sym) string {
	out := make([]string, len(ss))
	for i, s := range ss {
		out[i] = s.String()
	}
	return strings.Join(out, ",")
}

// own: lists issued by the credential's issuer
func (s sym) honoured(own map[string]bool) bool {
	return s.Typ == "SL" && s.Purpose == "revocation" && own[s.List]
}

// demanded: the reference predicate "must be refused"; first = position (1-based) of the first deciding entry
func demanded(ss []sym, own map[string]bool) (bool, int) {
	for i, s := range ss {
		if s.honoured(own) && s.Bit {
			return true, i + 1
		}
	}
	return false, 0
}

func anySet(ss []sym) bool {
	for _, s := range ss {
		if s.Bit {
			return true
		}
	}
	return false
}

// foreignSet: an entry the node also honours by design although the list belongs to another issuer (DESIGN §4 row 18)
func foreignSet(ss []sym, own map[string]bool) bool {
	for _, s := range ss {
		if s.Typ == "SL" && s.Purpose == "revocation" && !own[s.List] && s.Bit {
			return true
		}
	}
	return false
}

// ------------------------------------------------------------------ world with fixed lists

type listInfo struct {
	url     string
	issuer  did.DID
	managed bool
	purpose string
	clear   []int // slot per entry position, bit stays clear
	set     []int // slot per entry position, bit set by the issuer between phase 1 and phase 2
}

type entryWorld struct {
	t     *testing.T
	r     *ev.Run
	w     *world
	lists map[string]*listInfo
	ser   int
	rc    *entriesCase // replay filter
	idx   int
	cases int
}

const extBase = "https://lists.example/"

func (x *entryWorld) mine(family, key string) bool {
	x.idx++
	if x.rc != nil {
		return x.rc.Family == family && x.rc.Key == key
	}
	return x.r.Mine(x.idx) && !x.r.Expired()
}

func (x *entryWorld) violation(family, key, clause, class, what string) {
	x.w.scenario, x.w.replay = "entries", entriesCase{Family: family, Key: key}
	x.w.hist = []event{{Op: family, K: key}}
	x.w.violation(clause, class, what)
}

// managedSlots hands out n consecutive entries of issuer d through the real Entry().
func (x *entryWorld) managedSlots(d did.DID, issuerN, n int) []*revocation.StatusList2021Entry {
	var out []*revocation.StatusList2021Entry
	for i := 0; i < n; i++ {
		e, err := x.w.I.status.Entry(x.w.ctx, d, revocation.StatusPurposeRevocation)
		if err != nil {
			x.t.Fatalf("harness: Entry: %v", err)
		}
		idx, _ := strconv.Atoi(e.StatusListIndex)
		x.w.registerURL(e.StatusListCredential, d)
		if !x.w.m.handOut(e.StatusListCredential, issuerN, idx, -1) {
			x.w.scenario = "entries"
			x.w.violation("slot-shared", "sequential", fmt.Sprintf("status-list position %s#%d was handed out twice", e.StatusListCredential, idx))
		}
		out = append(out, e)
	}
	return out
}

func (x *entryWorld) publish(l *listInfo, bits map[int]bool) {
	now := vtime.Now()
	tmpl := x.w.listTemplate(l.issuer, l.url, l.purpose, bits, now)
	body, _ := json.Marshal(x.w.signLD(tmpl, kidOf(l.issuer), now))
	sl := &servedList{Body: string(body), URL: l.url, Kind: "external", Bits: bits}
	x.w.served[sl.Body] = sl
	x.w.http.override[l.url] = sl
}

func newEntryWorld(t *testing.T, r *ev.Run, w *world, rc *entriesCase) *entryWorld {
	x := &entryWorld{t: t, r: r, w: w, lists: map[string]*listInfo{}, rc: rc}
	w.start, w.scenario = "entries", "entries"
	web1, web2, nuts1 := issuerDID(1, true), issuerDID(2, true), issuerDID(1, false)
	w.enrol(did.MustParseDID(holder))
	// issuer 1: page 1 is brought to six slots before its end, so that its last slots and the first slots of page 2 are used
	first := x.managedSlots(web1, 1, 1)
	if _, err := w.I.sqldb.Exec("UPDATE status_list SET last_issued_index = ? WHERE subject_id = ?", maxIndex-6, first[0].StatusListCredential); err != nil {
		t.Fatal(err)
	}
	split := func(es []*revocation.StatusList2021Entry, managedOf did.DID) *listInfo {
		l := &listInfo{url: es[0].StatusListCredential, issuer: managedOf, managed: true, purpose: "revocation"}
		for _, e := range es {
			if e.StatusListCredential != l.url {
				t.Fatalf("harness: entries spread over %s and %s", l.url, e.StatusListCredential)
			}
			i, _ := strconv.Atoi(e.StatusListIndex)
			l.clear = append(l.clear, i)
		}
		return l
	}
	a := split(x.managedSlots(web1, 1, 6), web1)
	p := split(x.managedSlots(web1, 1, 6), web1)
	o := split(x.managedSlots(web2, 2, 6), web2)
	if a.url == p.url || a.clear[5] != maxIndex || p.clear[0] != 0 {
		t.Fatalf("harness: pages do not meet at the boundary: %s %v / %s %v", a.url, a.clear, p.url, p.clear)
	}
	// page 1: the LAST slot of the page is revoked, its neighbour stays clear; page 2: the FIRST slot is revoked
	a.set, a.clear = []int{a.clear[5], a.clear[3], a.clear[1]}, []int{a.clear[4], a.clear[2], a.clear[0]}
	p.set, p.clear = []int{p.clear[0], p.clear[2], p.clear[4]}, []int{p.clear[1], p.clear[3], p.clear[5]}
	o.set, o.clear = []int{o.clear[0], o.clear[2], o.clear[4]}, []int{o.clear[1], o.clear[3], o.clear[5]}
	x.lists["A"], x.lists["P"], x.lists["O"] = a, p, o
	ext := func(name string, iss did.DID, purpose string) {
		// byte boundaries and the last bit of the list among the set slots
		x.lists[name] = &listInfo{url: extBase + name, issuer: iss, purpose: purpose, set: []int{7, 8, maxIndex}, clear: []int{6, 9, maxIndex - 1}}
		x.publish(x.lists[name], map[int]bool{})
	}
	ext("X", web1, "revocation")
	ext("S", web1, "suspension")
	ext("N", nuts1, "revocation")
	ext("M", nuts1, "revocation")
	return x
}

// revokeAll: the issuers set the bit of every "set" slot - managed lists through the real Revoke, external lists by
// publishing a new list - and 16 minutes pass, so that node V (and node I for the external lists) refresh.
func (x *entryWorld) revokeAll() {
	w := x.w
	names := make([]string, 0, len(x.lists))
	for n := range x.lists {
		names = append(names, n)
	}
	sort.Strings(names)
	for _, n := range names {
		l := x.lists[n]
		if !l.managed {
			bits := map[int]bool{}
			for _, i := range l.set {
				bits[i] = true
			}
			x.publish(l, bits)
			continue
		}
		for k, i := range l.set {
			e := revocation.StatusList2021Entry{ID: fmt.Sprintf("%s#%d", l.url, i), Type: revocation.StatusList2021EntryType, StatusPurpose: "revocation",
				StatusListIndex: strconv.Itoa(i), StatusListCredential: l.url}
			id := ssi.MustParseURI(fmt.Sprintf("%s#5e7ad0c4-1d9c-4b8e-9d0a-%012d", l.issuer.String(), k))
			if err := w.I.status.Revoke(w.ctx, id, e); err != nil {
				x.t.Fatalf("harness: Revoke %s#%d: %v", l.url, i, err)
			}
			w.m.Lists[l.url].Revoked[i] = true
		}
	}
	w.checkStored()
	vtime.Advance(16 * time.Minute)
}

func (x *entryWorld) entryJSON(s sym, pos int) map[string]any {
	x.ser++
	if s.Typ == "PLAIN" {
		return map[string]any{"id": fmt.Sprintf("%sother/%d#1", extBase, x.ser), "type": "OtherStatus2099"}
	}
	l := x.lists[s.List]
	i := l.clear[pos]
	if s.Bit {
		i = l.set[pos]
	}
	typ := revocation.StatusList2021EntryType
	if s.Typ == "UNK" {
		typ = "OtherStatus2099"
	}
	return map[string]any{"id": fmt.Sprintf("%s#%d", l.url, i), "type": typ, "statusPurpose": s.Purpose,
		"statusListIndex": strconv.Itoa(i), "statusListCredential": l.url}
}

// credentialJWT builds the same credential in the JWT format (vc claim carries credentialStatus exactly as given).
func (x *entryWorld) credentialJWT(iss did.DID, status any) vc.VerifiableCredential {
	x.ser++
	now := vtime.Now()
	vcMap := map[string]any{
		"@context":          []any{vc.VCContextV1URI().String(), testContext.String(), revocation.StatusList2021ContextURI.String()},
		"type":              []any{"VerifiableCredential", humanType.String()},
		"credentialSubject": map[string]any{"id": holder, "human": map[string]any{"eyeColour": "blue"}},
	}
	if status != nil {
		vcMap["credentialStatus"] = status
	}
	claims := map[string]any{"nbf": now.Unix(), "iss": iss.String(), "sub": holder, "vc": vcMap,
		"jti": fmt.Sprintf("%s#7c7ad0c4-1d9c-4b8e-9d0a-%012d", iss.String(), x.ser)}
	tok, err := x.w.I.ks.SignJWT(x.w.ctx, claims, map[string]any{"typ": "JWT"}, kidOf(iss))
	if err != nil {
		x.t.Fatalf("harness: signing a JWT credential: %v", err)
	}
	cred, err := vc.ParseVerifiableCredential(tok)
	if err != nil {
		x.t.Fatalf("harness: %v", err)
	}
	return *cred
}

// credential builds and signs (JSON-LD proof of the issuer) a credential whose credentialStatus member is exactly `status`.
func (x *entryWorld) credential(iss did.DID, status any) vc.VerifiableCredential {
	x.ser++
	now := vtime.Now()
	id := ssi.MustParseURI(fmt.Sprintf("%s#7b7ad0c4-1d9c-4b8e-9d0a-%012d", iss.String(), x.ser))
	tmpl := vc.VerifiableCredential{
		Context:      []ssi.URI{vc.VCContextV1URI(), testContext, revocation.StatusList2021ContextURI},
		Type:         []ssi.URI{vc.VerifiableCredentialTypeV1URI(), humanType},
		ID:           &id,
		Issuer:       iss.URI(),
		IssuanceDate: now,
		CredentialSubject: []interface{}{map[string]interface{}{"id": holder,
			"human": map[string]interface{}{"eyeColour": "blue"}}},
	}
	m := map[string]any{}
	b, _ := json.Marshal(tmpl)
	_ = json.Unmarshal(b, &m)
	if status != nil {
		m["credentialStatus"] = status
	}
	b, _ = json.Marshal(x.w.signLD(m, kidOf(iss), now))
	cred, err := vc.ParseVerifiableCredential(string(b))
	if err != nil {
		x.t.Fatalf("harness: %v", err)
	}
	return *cred
}

// trySignLD is signLD for documents the JSON-LD signer may refuse.
func (w *world) trySignLD(doc any, kid string, created time.Time) (out map[string]interface{}, err error) {
	defer func() {
		if p := recover(); p != nil {
			err = fmt.Errorf("panic: %v", p)
		}
	}()
	asMap := map[string]interface{}{}
	b, _ := json.Marshal(doc)
	_ = json.Unmarshal(b, &asMap)
	suite := signature.JSONWebSignature2020{ContextLoader: jsonldMgr.DocumentLoader(), Signer: w.I.ks}
	res, err := proof.NewLDProof(proof.ProofOptions{Created: created}).Sign(w.ctx, asMap, suite, kid)
	if err != nil {
		return nil, err
	}
	b, _ = json.Marshal(res)
	out = map[string]interface{}{}
	_ = json.Unmarshal(b, &out)
	return out, nil
}

func verdictOf(err error) string {
	switch {
	case err == nil:
		return "ok"
	case errors.Is(err, types.ErrRevoked):
		return "revoked"
	}
	return "error"
}

func (x *entryWorld) product(n *node, cred vc.VerifiableCredential) (string, error) {
	at := vtime.Now()
	err := n.ver.Verify(cred, true, true, &at)
	return verdictOf(err), err
}

func (x *entryWorld) direct(n *node, cred vc.VerifiableCredential) (string, error) {
	err := n.status.Verify(cred)
	return verdictOf(err), err
}

// present builds a presentation of the holder carrying the credentials, in the given format.
func (x *entryWorld) present(format string, creds ...vc.VerifiableCredential) vc.VerifiablePresentation {
	w := x.w
	h := did.MustParseDID(holder)
	now := vtime.Now()
	x.ser++
	vpID := fmt.Sprintf("%s#9c7ad0c4-1d9c-4b8e-9d0a-%012d", holder, x.ser)
	var raw string
	switch format {
	case "ldp_vp":
		var carried []any
		for _, c := range creds {
			var m any // a JSON-LD credential is an object, a JWT credential a string
			b, _ := json.Marshal(c)
			_ = json.Unmarshal(b, &m)
			carried = append(carried, m)
		}
		doc := map[string]any{"@context": []any{vc.VCContextV1URI().String()}, "id": vpID, "type": "VerifiablePresentation",
			"holder": holder, "verifiableCredential": carried}
		b, _ := json.Marshal(w.signLD(doc, kidOf(h), now))
		raw = string(b)
	case "jwt_vp":
		hURI := h.URI()
		claims := map[string]any{"iss": holder, "sub": holder, "jti": vpID, "nbf": now.Unix(), "exp": now.Add(time.Hour).Unix(),
			"vp": vc.VerifiablePresentation{Context: []ssi.URI{vc.VCContextV1URI()}, Type: []ssi.URI{ssi.MustParseURI("VerifiablePresentation")},
				Holder: &hURI, VerifiableCredential: creds}}
		tok, err := w.I.ks.SignJWT(w.ctx, claims, map[string]any{"typ": "JWT"}, kidOf(h))
		if err != nil {
			x.t.Fatalf("harness: signing a JWT presentation: %v", err)
		}
		raw = tok
	default:
		x.t.Fatalf("unknown presentation format %s", format)
	}
	vp, err := vc.ParseVerifiablePresentation(raw)
	if err != nil {
		x.t.Fatalf("harness: presentation does not parse: %v", err)
	}
	return *vp
}

func (x *entryWorld) verifyVP(vp vc.VerifiablePresentation) (string, error) {
	at := vtime.Now()
	_, err := x.w.V.ver.VerifyVP(vp, true, true, &at)
	return verdictOf(err), err
}

// ------------------------------------------------------------------ family entries

type entryCredential struct {
	key    string
	syms   []sym
	shape  string
	format string // ldp_vc | jwt_vc
	cred   vc.VerifiableCredential
}

func webAlphabet() (full, small []sym) {
	for _, typ := range []string{"SL", "UNK"} {
		for _, purpose := range []string{"revocation", "suspension"} {
			for _, list := range []string{"A", "P", "X", "O"} {
				for _, bit := range []bool{false, true} {
					full = append(full, sym{typ, purpose, list, bit})
				}
			}
		}
	}
	small = []sym{
		{"SL", "revocation", "A", false}, {"SL", "revocation", "A", true}, {"SL", "revocation", "P", true},
		{"SL", "revocation", "X", false}, {"SL", "revocation", "X", true}, {"SL", "revocation", "O", false},
		{"SL", "suspension", "S", true}, {"SL", "suspension", "A", true}, {"PLAIN", "", "", false},
	}
	return
}

var ownWeb = map[string]bool{"A": true, "P": true, "X": true, "S": true}

func (x *entryWorld) familyEntries() {
	r, w := x.r, x.w
	web1 := issuerDID(1, true)
	full, small := webAlphabet()
	if !r.Thorough() {
		small = small[:7]
	} else {
		// thorough: every StatusList2021Entry symbol (purpose x list x bit) + suspension list + unknown type
		small = append(append([]sym{}, full[:16]...), sym{"SL", "suspension", "S", true}, sym{"PLAIN", "", "", false})
	}
	inSmall := map[sym]bool{}
	for _, s := range small {
		inSmall[s] = true
	}
	var seqs [][]sym
	var shapes, formats []string
	add := func(shape string, ss ...sym) {
		seqs, shapes, formats = append(seqs, ss), append(shapes, shape), append(formats, "ldp_vc")
		// the same credential in the JWT format: k = 1 always; k = 2 over the reduced alphabet (thorough: the full product)
		jwtToo := len(ss) == 1 || (len(ss) == 2 && (r.Thorough() || (inSmall[ss[0]] && inSmall[ss[1]])))
		if jwtToo {
			seqs, shapes, formats = append(seqs, ss), append(shapes, shape), append(formats, "jwt_vc")
		}
	}
	extra := []sym{{"SL", "suspension", "S", true}, {"SL", "suspension", "S", false}, {"PLAIN", "", "", false}}
	k1 := append(append([]sym{}, full...), extra...)
	for _, s := range k1 {
		add("object", s)
		add("array", s)
	}
	for _, s1 := range k1 {
		for _, s2 := range k1 {
			add("array", s1, s2)
		}
	}
	for _, s1 := range small {
		for _, s2 := range small {
			for _, s3 := range small {
				add("array", s1, s2, s3)
			}
		}
	}
	r.Bound("entries_alphabet_k1_k2", len(k1))
	r.Bound("entries_alphabet_k3", len(small))
	r.Bound("entries_credentials", len(seqs))

	var mineCreds []*entryCredential
	for i, ss := range seqs {
		key := fmt.Sprintf("%s|%s|%s", formats[i], shapes[i], symsString(ss))
		if !x.mine("entries", key) {
			continue
		}
		var status any
		arr := make([]any, len(ss))
		for pos, s := range ss {
			arr[pos] = x.entryJSON(s, pos)
		}
		status = arr
		if shapes[i] == "object" {
			status = arr[0]
		}
		c := &entryCredential{key: key, syms: ss, shape: shapes[i], format: formats[i]}
		if formats[i] == "jwt_vc" {
			c.cred = x.credentialJWT(web1, status)
		} else {
			c.cred = x.credential(web1, status)
		}
		mineCreds = append(mineCreds, c)
	}
	// identical duplicates of one entry (the same slot twice / three times)
	for _, n := range []int{2, 3} {
		for _, s := range []sym{{"SL", "revocation", "A", true}, {"SL", "revocation", "X", true}, {"SL", "revocation", "A", false}} {
			ss := make([]sym, n)
			arr := make([]any, n)
			for i := range ss {
				ss[i] = s
				arr[i] = x.entryJSON(s, 0)
			}
			key := fmt.Sprintf("duplicate|%s", symsString(ss))
			if x.mine("entries", key) {
				mineCreds = append(mineCreds, &entryCredential{key: key, syms: ss, shape: "array", format: "ldp_vc", cred: x.credential(web1, arr)})
			}
		}
	}

	// phase 1: nothing is revoked yet. Every credential must verify on both nodes (vacuity guard of the reference:
	// what is refused later is refused BECAUSE of the issuer's revocation).
	notOK := 0
	for _, c := range mineCreds {
		for _, n := range []*node{w.V, w.I} {
			if v, err := x.product(n, c.cred); v != "ok" {
				if v == "revoked" {
					x.violation("entries", c.key, "revoked-without-issuer-action", "entries|before-any-revocation",
						fmt.Sprintf("credential with status entries [%s] is reported revoked on node %s although no issuer has revoked anything yet", symsString(c.syms), n.name))
					continue
				}
				// converse of the statement: a vacuity guard, never a verdict
				notOK++
				r.Observation("unrevoked-credential-not-verifiable", fmt.Sprintf("[%s] %s on node %s before any revocation: %v", symsString(c.syms), c.format, n.name, err))
			}
		}
	}
	if notOK*4 > len(mineCreds) {
		x.t.Fatalf("harness: %d of %d credentials do not verify before anything is revoked: the sweep would be vacuous", notOK, len(mineCreds))
	}
	x.revokeAll()
	// phase 2
	for _, c := range mineCreds {
		x.judgeCredential("entries", c)
	}
	// phase 3 (permanent): another refresh period later every credential that had to be refused is refused still
	vtime.Advance(16 * time.Minute)
	for _, c := range mineCreds {
		must, first := demanded(c.syms, ownWeb)
		if !must {
			continue
		}
		for _, n := range []*node{w.V, w.I} {
			v, _ := x.product(n, c.cred)
			r.Outcome("one refresh period later, demanded=true: " + v)
			if v == "ok" {
				x.violation("entries", c.key, "revocation-not-permanent", fmt.Sprintf("entries|verify-node-%s|%s|entries=%d|deciding-position=%d", n.name, c.format, len(c.syms), first),
					fmt.Sprintf("the credential with status entries [%s] had to be refused 16 minutes ago (entry %d is revoked) and verifies now on node %s", symsString(c.syms), first, n.name))
			}
		}
	}
}

// judgeCredential runs one credential through every path and judges "revoked => refused".
func (x *entryWorld) judgeCredential(family string, c *entryCredential) {
	r, w := x.r, x.w
	must, first := demanded(c.syms, ownWeb)
	foreign := foreignSet(c.syms, ownWeb)
	x.cases++
	r.Eval(family + "|" + c.key)
	class := func(path string) string {
		return fmt.Sprintf("%s|%s|%s|entries=%d|deciding-position=%d", family, path, c.format, len(c.syms), first)
	}
	type res struct {
		path    string
		verdict string
		err     error
		direct  bool
	}
	var results []res
	for _, n := range []*node{w.V, w.I} {
		v, err := x.direct(n, c.cred)
		results = append(results, res{"status-verifier-node-" + n.name, v, err, true})
	}
	for _, n := range []*node{w.V, w.I} {
		v, err := x.product(n, c.cred)
		results = append(results, res{"verify-node-" + n.name, v, err, false})
	}
	// presentations: every credential that must be refused and every single-entry credential; in the thorough tier every k <= 2
	if must || len(c.syms) <= 1 || (r.Thorough() && len(c.syms) <= 2) {
		for _, f := range []string{"ldp_vp", "jwt_vp"} {
			v, err := x.verifyVP(x.present(f, c.cred))
			results = append(results, res{"presentation-" + f + "-node-V", v, err, false})
		}
	}
	for _, o := range results {
		r.Outcome(fmt.Sprintf("%s demanded=%v foreign-list-set=%v: %s", strings.SplitN(o.path, "-node", 2)[0], must, foreign, o.verdict))
		switch {
		case must && o.verdict == "ok":
			x.violation(family, c.key, "revocation-not-effective", class(o.path),
				fmt.Sprintf("the credential carries the status entries [%s]; entry %d is a StatusList2021Entry with purpose revocation on a list of the credential's issuer, the issuer set its bit and the node holds the refreshed list, yet %s succeeds", symsString(c.syms), first, o.path))
		case must && o.verdict == "error" && o.direct:
			r.Observation("revoked-entry-answered-with-other-error", fmt.Sprintf("[%s] %s: %v", symsString(c.syms), o.path, o.err))
		case !must && !foreign && o.verdict == "revoked" && anySet(c.syms):
			// an entry the node documents as ignored (other type / purpose) has its bit set: the issuer did act
			r.Observation("ignored-kind-of-entry-caused-revocation", fmt.Sprintf("[%s] %s", symsString(c.syms), o.path))
		case !must && !foreign && o.verdict == "revoked":
			x.violation(family, c.key, "revoked-without-issuer-action", class(o.path),
				fmt.Sprintf("the credential carries the status entries [%s]; none that the node is documented to honour has its bit set, yet %s reports it revoked", symsString(c.syms), o.path))
		case !must && !foreign && o.verdict == "error" && !o.direct:
			r.Observation("unrevoked-credential-not-verifiable", fmt.Sprintf("[%s] %s: %v", symsString(c.syms), o.path, o.err))
		case !must && foreign:
			r.Observation("entry-on-list-of-another-issuer-honoured/"+o.verdict, "DESIGN §4 row 18: not judged")
		}
	}
}

// ------------------------------------------------------------------ family nuts-mix

var ownNuts = map[string]bool{"N": true, "M": true}

// familyNutsMix: credentials of the did:nuts issuer with status entries AND (later) a network revocation.
func (x *entryWorld) familyNutsMix() {
	r, w := x.r, x.w
	nuts1 := issuerDID(1, false)
	alphabet := []sym{
		{"SL", "revocation", "N", false}, {"SL", "revocation", "N", true}, {"SL", "revocation", "M", false}, {"SL", "revocation", "M", true},
		{"SL", "revocation", "A", false}, {"SL", "suspension", "S", true}, {"PLAIN", "", "", false},
	}
	var seqs [][]sym
	seqs = append(seqs, nil) // no credentialStatus at all
	for _, s := range alphabet {
		seqs = append(seqs, []sym{s})
	}
	for _, s1 := range alphabet {
		for _, s2 := range alphabet {
			seqs = append(seqs, []sym{s1, s2})
		}
	}
	r.Bound("nuts_mix_credentials", len(seqs))
	for _, ss := range seqs {
		key := "[" + symsString(ss) + "]"
		if !x.mine("nuts-mix", key) {
			continue
		}
		var status any
		if ss != nil {
			arr := make([]any, len(ss))
			for pos, s := range ss {
				arr[pos] = x.entryJSON(s, pos)
			}
			status = arr
		}
		cred := x.credential(nuts1, status)
		must, first := demanded(ss, ownNuts)
		x.cases++
		r.Eval("nuts-mix|" + key)
		// before the network revocation: only the status entries decide (the lists are in their revoked state already)
		v, _ := x.product(w.V, cred)
		r.Outcome(fmt.Sprintf("nuts-mix before network revocation, status demanded=%v: %s", must, v))
		if must && v == "ok" {
			x.violation("nuts-mix", key, "revocation-not-effective", fmt.Sprintf("nuts-mix|status-entries|entries=%d|deciding-position=%d", len(ss), first),
				fmt.Sprintf("credential of the did:nuts issuer with status entries [%s]: entry %d has its bit set in the issuer's list node V fetched, yet verification succeeds", symsString(ss), first))
		}
		if !must && v == "revoked" && anySet(ss) {
			r.Observation("ignored-kind-of-entry-caused-revocation", fmt.Sprintf("nuts-mix [%s]", symsString(ss)))
		} else if !must && v == "revoked" {
			x.violation("nuts-mix", key, "revoked-without-issuer-action", fmt.Sprintf("nuts-mix|status-entries|entries=%d", len(ss)),
				fmt.Sprintf("credential of the did:nuts issuer with status entries [%s] is reported revoked although nothing the node honours says so", symsString(ss)))
		}
		// the issuer revokes on the network (real issuer.Revoke -> publisher), node V receives it through the ambassador
		if _, err := w.I.iss.Revoke(w.ctx, *cred.ID); err != nil {
			x.t.Fatalf("harness: network revocation of %s: %v", cred.ID, err)
		}
		rev, ok := w.net.revs[cred.ID.String()]
		if !ok {
			x.t.Fatalf("harness: revocation of %s was not published", cred.ID)
		}
		regErr := w.V.ver.RegisterRevocation(rev)
		for _, path := range []string{"verify", "ldp_vp", "jwt_vp"} {
			var v2 string
			if path == "verify" {
				v2, _ = x.product(w.V, cred)
			} else {
				v2, _ = x.verifyVP(x.present(path, cred))
			}
			r.Outcome("nuts-mix after network revocation (" + path + "): " + v2)
			if v2 == "ok" {
				x.violation("nuts-mix", key, "revocation-not-effective", fmt.Sprintf("nuts-mix|network-revocation|%s|entries=%d", path, len(ss)),
					fmt.Sprintf("credential of the did:nuts issuer with status entries [%s]: node V received the issuer's signed network revocation (RegisterRevocation: %v), yet %s succeeds", symsString(ss), regErr, path))
			}
		}
	}
}

// ------------------------------------------------------------------ family vp-pairs

func (x *entryWorld) familyVPPairs() {
	r, w := x.r, x.w
	web1, nuts1 := issuerDID(1, true), issuerDID(1, false)
	type kind struct {
		name    string
		revoked bool
		cred    vc.VerifiableCredential
	}
	one := func(iss did.DID, ss ...sym) vc.VerifiableCredential {
		if ss == nil {
			return x.credential(iss, nil)
		}
		arr := make([]any, len(ss))
		for pos, s := range ss {
			arr[pos] = x.entryJSON(s, pos)
		}
		return x.credential(iss, arr)
	}
	a0, a1 := sym{"SL", "revocation", "A", false}, sym{"SL", "revocation", "A", true}
	x0, x1 := sym{"SL", "revocation", "X", false}, sym{"SL", "revocation", "X", true}
	kinds := []kind{
		{"unrevoked-no-status", false, one(web1)},
		{"unrevoked-one-entry", false, one(web1, a0)},
		{"unrevoked-two-entries", false, one(web1, a0, x0)},
		{"revoked-single-entry", true, one(web1, a1)},
		{"revoked-first-of-two", true, one(web1, x1, a0)},
		{"revoked-second-of-two", true, one(web1, a0, x1)},
		{"revoked-third-of-three", true, one(web1, a0, x0, sym{"SL", "revocation", "P", true})},
	}
	nrev := one(nuts1)
	if _, err := w.I.iss.Revoke(w.ctx, *nrev.ID); err != nil {
		x.t.Fatalf("harness: network revocation: %v", err)
	}
	if err := w.V.ver.RegisterRevocation(w.net.revs[nrev.ID.String()]); err != nil {
		x.t.Fatalf("harness: node V refuses the issuer's network revocation: %v", err)
	}
	kinds = append(kinds, kind{"revoked-on-the-network", true, nrev})
	for _, k := range kinds { // each kind on its own
		v, err := x.product(w.V, k.cred)
		if k.revoked != (v != "ok") && !k.revoked {
			x.t.Fatalf("harness: credential kind %s does not verify on its own: %v", k.name, err)
		}
	}
	r.Bound("vp_pair_kinds", len(kinds))
	for _, k1 := range kinds {
		for _, k2 := range kinds {
			for _, f := range []string{"ldp_vp", "jwt_vp"} {
				key := k1.name + "+" + k2.name + "|" + f
				if !x.mine("vp-pairs", key) {
					continue
				}
				x.cases++
				r.Eval("vp-pairs|" + key)
				v, err := x.verifyVP(x.present(f, k1.cred, k2.cred))
				must := k1.revoked || k2.revoked
				r.Outcome(fmt.Sprintf("presentation of two credentials, one revoked=%v: %s", must, v))
				switch {
				case must && v == "ok":
					pos, kn := 1, k1.name
					if !k1.revoked {
						pos, kn = 2, k2.name
					}
					x.violation("vp-pairs", key, "revocation-not-effective", fmt.Sprintf("vp-pairs|%s|position=%d", kn, pos),
						fmt.Sprintf("a %s presentation carrying [%s, %s] verifies on node V although one of the credentials was revoked by its issuer and node V knows it", f, k1.name, k2.name))
				case !must && v == "revoked":
					x.violation("vp-pairs", key, "revoked-without-issuer-action", "vp-pairs|"+f,
						fmt.Sprintf("a %s presentation carrying [%s, %s] is refused as revoked although neither credential was revoked", f, k1.name, k2.name))
				case !must && v != "ok":
					r.Observation("presentation-of-unrevoked-credentials-refused", fmt.Sprintf("%s: %v", key, err))
				}
			}
		}
	}
}

// ------------------------------------------------------------------ family spelling

type spelling struct {
	name    string
	raw     func(n int) string // the JSON text of the statusListIndex member as sent
	decimal bool               // denotes the decimal integer n (reference: optional white space / plus sign / leading zeros around ASCII digits, or a JSON number of that value)
}

func spellings() []spelling {
	d := strconv.Itoa
	str := func(f func(n int) string) func(n int) string {
		return func(n int) string { b, _ := json.Marshal(f(n)); return string(b) }
	}
	return []spelling{
		{"string", str(func(n int) string { return d(n) }), true},
		{"leading-zero", str(func(n int) string { return "0" + d(n) }), true},
		{"leading-zeros", str(func(n int) string { return "000" + d(n) }), true},
		{"plus-sign", str(func(n int) string { return "+" + d(n) }), true},
		{"plus-sign-leading-zero", str(func(n int) string { return "+0" + d(n) }), true},
		{"leading-space", str(func(n int) string { return " " + d(n) }), true},
		{"trailing-space", str(func(n int) string { return d(n) + " " }), true},
		{"leading-tab", str(func(n int) string { return "\t" + d(n) }), true},
		{"trailing-newline", str(func(n int) string { return d(n) + "\n" }), true},
		{"json-number", func(n int) string { return d(n) }, true},
		{"json-number-fraction-zero", func(n int) string { return d(n) + ".0" }, true},
		{"json-number-exponent", func(n int) string { return d(n) + "e0" }, true},
		{"string-fraction-zero", str(func(n int) string { return d(n) + ".0" }), false},
		{"string-exponent", str(func(n int) string { return d(n) + "e0" }), false},
		{"string-hex", str(func(n int) string { return "0x" + strconv.FormatInt(int64(n), 16) }), false},
		{"string-octal-prefix", str(func(n int) string { return "0o" + strconv.FormatInt(int64(n), 8) }), false},
		{"string-underscore", str(func(n int) string { return d(n)[:1] + "_" + d(n)[1:] }), false},
		{"string-minus-zero-prefix", str(func(n int) string { return "-0" + d(n) }), false},
		{"string-in-array", func(n int) string { return `["` + d(n) + `"]` }, false},
	}
}

// familySpelling: one slot whose bit is set, named with every spelling of its index. Indexes are chosen so that a reading
// in another base lands on a CLEAR bit: 10 ("010" read as octal is 8; 0x10 is 16) and the last slot of issuer 1's page 1.
func (x *entryWorld) familySpelling() {
	r, w := x.r, x.w
	web1 := issuerDID(1, true)
	l := &listInfo{url: extBase + "spelling", issuer: web1, purpose: "revocation"}
	x.publish(l, map[int]bool{10: true})
	targets := []struct {
		name, url string
		index     int
	}{{"external-list-index-10", l.url, 10}, {"managed-page-last-slot", x.lists["A"].url, x.lists["A"].set[0]}}
	n := 0
	for _, tg := range targets {
		for _, sp := range spellings() {
			key := tg.name + "|" + sp.name
			n++
			if !x.mine("spelling", key) {
				continue
			}
			raw := sp.raw(tg.index)
			var signAs any
			if err := json.Unmarshal([]byte(raw), &signAs); err != nil {
				x.t.Fatalf("harness: spelling %s: %v", sp.name, err)
			}
			entry := map[string]any{"id": fmt.Sprintf("%s#%d", tg.url, tg.index), "type": revocation.StatusList2021EntryType, "statusPurpose": "revocation",
				"statusListIndex": signAs, "statusListCredential": tg.url}
			cred, perr := x.tryCredential(web1, []any{entry}, func(body string) string {
				asSigned, _ := json.Marshal(signAs)
				from, to := `"statusListIndex":`+string(asSigned), `"statusListIndex":`+raw
				if strings.Count(body, from) != 1 {
					x.t.Fatalf("harness: cannot place the spelling %s in %s", raw, body)
				}
				return strings.Replace(body, from, to, 1)
			})
			x.cases++
			r.Eval("spelling|" + key)
			if perr != nil {
				r.Outcome("spelling " + sp.name + ": credential does not parse")
				continue
			}
			for _, n := range []*node{w.V, w.I} {
				v, err := x.product(n, *cred)
				r.Outcome(fmt.Sprintf("spelling %s (decimal=%v): %s", sp.name, sp.decimal, v))
				if sp.decimal && v == "ok" {
					x.violation("spelling", key, "revocation-not-effective", "spelling|"+sp.name+"|"+tg.name,
						fmt.Sprintf("statusListIndex is written %s, which denotes index %d; bit %d of %s is set and node %s holds that list, yet verification succeeds (neither revoked nor refused as malformed)", raw, tg.index, tg.index, tg.url, n.name))
				}
				if !sp.decimal && v != "error" {
					r.Observation("non-decimal-index-spelling-evaluated/"+sp.name, fmt.Sprintf("%s (%v)", v, err))
				}
			}
		}
	}
	r.Bound("index_spellings", n)
}

// tryCredential is credential() for inputs that the JSON-LD signer or the parser may refuse.
func (x *entryWorld) tryCredential(iss did.DID, status any, asSent func(body string) string) (cred *vc.VerifiableCredential, err error) {
	defer func() {
		if p := recover(); p != nil {
			err = fmt.Errorf("panic: %v", p)
		}
	}()
	x.ser++
	now := vtime.Now()
	id := ssi.MustParseURI(fmt.Sprintf("%s#7b7ad0c4-1d9c-4b8e-9d0a-%012d", iss.String(), x.ser))
	m := map[string]any{
		"@context":          []any{vc.VCContextV1URI().String(), testContext.String(), revocation.StatusList2021ContextURI.String()},
		"type":              []any{"VerifiableCredential", humanType.String()},
		"id":                id.String(),
		"issuer":            iss.String(),
		"issuanceDate":      now.Format("2006-01-02T15:04:05Z07:00"),
		"credentialSubject": map[string]any{"id": holder, "human": map[string]any{"eyeColour": "blue"}},
		"credentialStatus":  status,
	}
	signed, err := x.w.trySignLD(m, kidOf(iss), now)
	if err != nil {
		return nil, err
	}
	b, _ := json.Marshal(signed)
	return vc.ParseVerifiableCredential(asSent(string(b)))
}

// ------------------------------------------------------------------ family list-shape

type subj struct {
	OwnID   bool // credentialSubject.id == the URL the credential names
	Purpose string
	Bit     bool
}

func (s subj) String() string {
	id, b := "other-id", "0"
	if s.OwnID {
		id = "named-url"
	}
	if s.Bit {
		b = "1"
	}
	return id + "/" + s.Purpose + "/" + b
}

// familyListShape: the list at the URL the credential names has a credentialSubject ARRAY of two subjects (or one, as
// control), or one subject whose statusPurpose is an array. Judged: "revoked" needs a subject for the named URL with
// purpose revocation and the bit set; a list that node V STORED with such a subject must make verification fail.
func (x *entryWorld) familyListShape() {
	r, w := x.r, x.w
	web1 := issuerDID(1, true)
	var alphabet []subj
	for _, own := range []bool{true, false} {
		for _, p := range []string{"revocation", "suspension"} {
			for _, b := range []bool{false, true} {
				alphabet = append(alphabet, subj{own, p, b})
			}
		}
	}
	type shape struct {
		name  string
		subjs []subj
		mode  string // array | object | purpose-array
	}
	var shapes []shape
	for _, s := range alphabet {
		shapes = append(shapes, shape{"one-object|" + s.String(), []subj{s}, "object"})
		shapes = append(shapes, shape{"one-in-array|" + s.String(), []subj{s}, "array"})
	}
	for _, s1 := range alphabet {
		for _, s2 := range alphabet {
			shapes = append(shapes, shape{"two|" + s1.String() + "+" + s2.String(), []subj{s1, s2}, "array"})
		}
	}
	for _, b := range []bool{false, true} {
		shapes = append(shapes, shape{"purpose-array|" + subj{true, "revocation+suspension", b}.String(), []subj{{true, "revocation", b}}, "purpose-array"})
	}
	r.Bound("list_shapes", len(shapes))
	const index = 42
	for i, sh := range shapes {
		if !x.mine("list-shape", sh.name) {
			continue
		}
		url := fmt.Sprintf("%sshape/%d", extBase, i)
		var subjects []any
		say := false // some subject for the named URL with purpose revocation has the bit set
		for _, s := range sh.subjs {
			id := url
			if !s.OwnID {
				id = url + "/other"
			}
			bits := map[int]bool{}
			if s.Bit {
				bits[index] = true
			}
			var purpose any = s.Purpose
			if sh.mode == "purpose-array" {
				purpose = []any{"revocation", "suspension"}
			}
			subjects = append(subjects, map[string]any{"id": id, "type": revocation.StatusList2021CredentialSubjectType, "statusPurpose": purpose, "encodedList": encodeBits(bits)})
			say = say || (s.OwnID && s.Purpose == "revocation" && s.Bit)
		}
		now := vtime.Now()
		tmpl := w.listTemplate(web1, url, "revocation", nil, now)
		m := map[string]any{}
		b, _ := json.Marshal(tmpl)
		_ = json.Unmarshal(b, &m)
		if sh.mode == "array" {
			m["credentialSubject"] = subjects
		} else {
			m["credentialSubject"] = subjects[0]
		}
		signed, err := w.trySignLD(m, kidOf(web1), now)
		x.cases++
		r.Eval("list-shape|" + sh.name)
		if err != nil {
			r.Outcome("list shape cannot be signed")
			continue
		}
		body, _ := json.Marshal(signed)
		sl := &servedList{Body: string(body), URL: url, Kind: "shape", Bits: map[int]bool{}}
		w.served[sl.Body] = sl
		w.http.override[url] = sl
		entry := map[string]any{"id": fmt.Sprintf("%s#%d", url, index), "type": revocation.StatusList2021EntryType, "statusPurpose": "revocation",
			"statusListIndex": strconv.Itoa(index), "statusListCredential": url}
		cred := x.credential(web1, []any{entry})
		v, verr := x.product(w.V, cred)
		stored := len(queryRows(x.t, w.V.sqldb, "SELECT subject_id FROM status_list_credential WHERE subject_id = ?", url)) > 0
		r.Outcome(fmt.Sprintf("list with %d subject(s) (%s), says-revoked=%v: stored=%v verdict=%s", len(sh.subjs), sh.mode, say, stored, v))
		class := fmt.Sprintf("list-shape|subjects=%d|%s", len(sh.subjs), sh.mode)
		ownBit := false // a subject for the named URL has the bit set under another purpose
		for _, sj := range sh.subjs {
			ownBit = ownBit || (sj.OwnID && sj.Bit)
		}
		switch {
		case v == "revoked" && !say && ownBit:
			r.Observation("list-subject-of-another-purpose-caused-revocation", sh.name)
		case v == "revoked" && !say:
			x.violation("list-shape", sh.name, "revoked-without-issuer-action", class,
				fmt.Sprintf("the list served at %s has the subjects [%s]; none of them is for the named URL with purpose revocation and the bit set, yet the credential is reported revoked", url, sh.name))
		case v == "ok" && say && stored:
			x.violation("list-shape", sh.name, "revocation-not-effective", class,
				fmt.Sprintf("node V accepted and stored the list served at %s (subjects [%s]); its subject for the named URL, purpose revocation, has the credential's bit set, yet verification succeeds", url, sh.name))
		case v == "ok" && say && len(sh.subjs) == 1 && sh.mode != "purpose-array":
			// a plain single-subject list with the bit set: the honest case, must be effective
			x.violation("list-shape", sh.name, "revocation-not-effective", class,
				fmt.Sprintf("the list served at %s is a regular single-subject list with the credential's bit set, yet verification succeeds (%v)", url, verr))
		case v == "ok" && say:
			r.Observation("list-with-several-subjects-or-purposes-not-processed", "the node refuses such a list by design (single credentialSubject expected); the credential keeps verifying")
		}
		anyOwn := false
		for _, sj := range sh.subjs {
			anyOwn = anyOwn || sj.OwnID
		}
		if stored && !anyOwn {
			x.violation("list-shape", sh.name, "forged-list-accepted", class, fmt.Sprintf("node V stored a list for %s none of whose subjects has that id", url))
		}
	}
}

// ------------------------------------------------------------------ family failing

// familyFailing: an entry that cannot be evaluated next to an entry whose bit is set.
func (x *entryWorld) familyFailing() {
	r, w := x.r, x.w
	web1 := issuerDID(1, true)
	a, xl := x.lists["A"], x.lists["X"]
	// a list whose signature does not verify
	bad := &listInfo{url: extBase + "badsig", issuer: web1, purpose: "revocation"}
	{
		now := vtime.Now()
		tmpl := w.listTemplate(web1, bad.url, "revocation", nil, now)
		signed := w.signLD(tmpl, kidOf(issuerDID(2, true)), now) // names issuer 1, proof by issuer 2's key
		body, _ := json.Marshal(signed)
		sl := &servedList{Body: string(body), URL: bad.url, Kind: "bad-signature", Bits: map[int]bool{}}
		w.served[sl.Body] = sl
		w.http.override[bad.url] = sl
	}
	sl := func(url string, index int) map[string]any {
		x.ser++
		return map[string]any{"id": fmt.Sprintf("%s#%d-%d", url, index, x.ser), "type": revocation.StatusList2021EntryType, "statusPurpose": "revocation",
			"statusListIndex": strconv.Itoa(index), "statusListCredential": url}
	}
	failing := []struct {
		name  string
		entry func() map[string]any
	}{
		{"index-beyond-the-list", func() map[string]any { return sl(xl.url, listBits) }},
		{"index-beyond-the-managed-page", func() map[string]any { return sl(a.url, listBits) }},
		{"list-not-retrievable", func() map[string]any { return sl(extBase+"missing", 1) }},
		{"list-of-another-purpose", func() map[string]any { return sl(x.lists["S"].url, 6) }},
		{"list-badly-signed", func() map[string]any { return sl(bad.url, 1) }},
	}
	set := []struct {
		name  string
		entry func() map[string]any
	}{
		{"managed", func() map[string]any { return sl(a.url, a.set[0]) }},
		{"external", func() map[string]any { return sl(xl.url, xl.set[0]) }},
	}
	// both nodes hold the refreshed lists of the "set" entries: a credential with that entry alone is refused
	for _, s := range set {
		alone := x.credential(web1, []any{s.entry()})
		for _, n := range []*node{w.V, w.I} {
			if v, err := x.product(n, alone); v == "ok" {
				x.violation("failing", "control|"+s.name, "revocation-not-effective", "failing|control|"+s.name,
					fmt.Sprintf("a credential whose only status entry is on the issuer's %s list with its bit set verifies on node %s (%v)", s.name, n.name, err))
			}
		}
	}
	for _, f := range failing {
		for _, s := range set {
			for _, order := range []string{"set-entry-first", "failing-entry-first"} {
				key := f.name + "|" + s.name + "|" + order
				if !x.mine("failing", key) {
					continue
				}
				status := []any{s.entry(), f.entry()}
				if order == "failing-entry-first" {
					status = []any{f.entry(), s.entry()}
				}
				cred := x.credential(web1, status)
				x.cases++
				r.Eval("failing|" + key)
				for _, n := range []*node{w.V, w.I} {
					v, _ := x.product(n, cred)
					dv, derr := x.direct(n, cred)
					r.Outcome(fmt.Sprintf("failing entry (%s), %s: verify=%s status-verifier=%s", f.name, order, v, dv))
					if v != "ok" {
						continue
					}
					what := fmt.Sprintf("the credential carries an entry that cannot be evaluated (%s) and an entry on the issuer's %s list whose bit is set and which node %s holds (%s); verification succeeds (status verifier: %v)", f.name, s.name, n.name, order, derr)
					x.violation("failing", key, "revocation-not-effective", "failing|"+order+"|"+f.name, what)
				}
			}
		}
	}
}

// ------------------------------------------------------------------ the part

func TestVerifC11Entries(t *testing.T) {
	setup(t)
	r := ev.Start(t, "C11")
	defer r.Finish()
	r.Rule("credentials built by the harness and signed by the issuer, whose credentialStatus carries k = 1, 2 (full product) or 3 (reduced alphabet) entries in every position order, each entry from " +
		"type {StatusList2021Entry, unknown} x purpose {revocation, suspension} x list {issuer's managed page up to its last slot, issuer's next page from slot 0, external list of the same issuer over the HTTP seam, managed list of another issuer} x bit {clear, set} " +
		"(+ suspension list, unknown type without members, k = 1 as object / array, identical duplicates; JSON-LD credentials, k = 1 and a reduced k = 2 also as JWT credentials - thorough: every k <= 2); all lists start clear, every credential is verified on both nodes (must verify), then the issuers set the bits (real Revoke / new external list), 16 minutes pass, and " +
		"every credential goes through: status verifier directly on both nodes, verifier.Verify on both nodes, VerifyVP on node V in a JSON-LD and a JWT presentation; another 16 minutes later what had to be refused must be refused still. Reference: refused iff >= 1 entry of type StatusList2021Entry, purpose revocation, on a list of the credential's issuer has its bit set (only revoked => refused and not-honoured => not revoked are judged). " +
		"Plus: did:nuts credentials with 0-2 entries and a network revocation (before / after delivery); presentations of two credentials over 8 kinds in every ordered pair x 2 formats; 19 spellings of one index x 2 slots; status lists with 1-2 credentialSubjects over id x purpose x bit in every order; an entry that cannot be evaluated before / after an entry whose bit is set")
	r.Assume("the harness plays the issuer when it builds credentials with several status entries (the node's own issuer never emits more than one); DID resolution is a static table; both nodes share the virtual clock")

	var rc entriesCase
	var filter *entriesCase
	if r.ReplayCase(&rc) {
		filter = &rc
	}
	build(t, r, "fresh", nil, func(w *world) {
		x := newEntryWorld(t, r, w, filter)
		want := func(f string) bool { return filter == nil || filter.Family == f }
		if want("entries") {
			x.familyEntries() // includes the revocation step
		} else {
			x.revokeAll()
		}
		if want("nuts-mix") {
			x.familyNutsMix()
		}
		if want("vp-pairs") {
			x.familyVPPairs()
		}
		if want("spelling") {
			x.familySpelling()
		}
		if want("list-shape") {
			x.familyListShape()
		}
		if want("failing") {
			x.familyFailing()
		}
		r.AddExtra("entries_cases_run", int64(x.cases))
		r.States(int64(x.cases))
		r.Transitions(int64(x.cases) * 4)
	})
}
