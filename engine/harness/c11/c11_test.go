// C11 — Revocation is effective, permanent and issuer-only; status-list slots are unique.
//
// Two real nodes per state: the issuing node I (real vcr/issuer + vcr/revocation.StatusList2021 issuer half on its own
// SQLite, keys of two issuers, each with a did:web identity for status-list credentials and a did:nuts identity for
// network revocations) and the verifying node V (real vcr/verifier + StatusList2021 verifier half on its own SQLite).
// V downloads lists through a scripted HTTP doer that calls I's real StatusList(); nuts revocations travel through a
// recording Publisher. DID resolution is a static table (the environment). The clock is vtime (rewrite_time).
//
// Part bfs:   explicit-state BFS over event histories (space engine) against the reference bit-set model (model.go).
// Part sched: all interleavings of concurrent Entry (+ Revoke, Credential) calls at SQL transaction / statement
//
//	granularity (sched engine + fault.Pool), from three start states incl. a page one slot before roll-over.
package c11

import (
	"context"
	stdcrypto "crypto"
	"database/sql"
	"encoding/json"
	"errors"
	"fmt"
	"io"
	"net/http"
	"os"
	"path/filepath"
	"runtime"
	"strconv"
	"strings"
	"testing"
	"time"

	ssi "github.com/nuts-foundation/go-did"
	"github.com/nuts-foundation/go-did/did"
	"github.com/nuts-foundation/go-did/vc"
	"github.com/nuts-foundation/go-stoabs"
	"github.com/nuts-foundation/nuts-node/audit"
	nutsCrypto "github.com/nuts-foundation/nuts-node/crypto"
	"github.com/nuts-foundation/nuts-node/crypto/hash"
	"github.com/nuts-foundation/nuts-node/jsonld"
	"github.com/nuts-foundation/nuts-node/network/dag"
	"github.com/nuts-foundation/nuts-node/storage"
	"github.com/nuts-foundation/nuts-node/vcr"
	"github.com/nuts-foundation/nuts-node/vcr/credential"
	"github.com/nuts-foundation/nuts-node/vcr/issuer"
	"github.com/nuts-foundation/nuts-node/vcr/revocation"
	"github.com/nuts-foundation/nuts-node/vcr/signature"
	"github.com/nuts-foundation/nuts-node/vcr/signature/proof"
	"github.com/nuts-foundation/nuts-node/vcr/trust"
	"github.com/nuts-foundation/nuts-node/vcr/types"
	"github.com/nuts-foundation/nuts-node/vcr/verifier"
	"github.com/nuts-foundation/nuts-node/vdr/resolver"
	"github.com/nuts-foundation/nuts-node/verifshim/vtime"
	"github.com/sirupsen/logrus"
	"gorm.io/gorm"

	"verif/ev"
	"verif/fault"
	"verif/sched"
	"verif/space"
)

// The attacker (issuer 2) owns identifiers that are string PREFIXES of the victim's (issuer 1).
const (
	web2    = "did:web:issuer.example"
	web1    = web2 + ":one"
	nuts2   = "did:nuts:4tzMaWfpizVKeA8fscC3JTdWBc3asUWWMj5hUFHdWX3H"
	nuts1   = nuts2 + "Z"
	baseURL = "https://node-i.example"
	holder  = "did:web:holder.example"
)

func issuerDID(i int, sl bool) did.DID {
	switch {
	case sl && i == 1:
		return did.MustParseDID(web1)
	case sl:
		return did.MustParseDID(web2)
	case i == 1:
		return did.MustParseDID(nuts1)
	}
	return did.MustParseDID(nuts2)
}

func kidOf(d did.DID) string { return d.String() + "#k1" }

// ------------------------------------------------------------------ environment

type staticResolver struct{ docs map[string]did.Document }

func (s *staticResolver) Resolve(id did.DID, _ *resolver.ResolveMetadata) (*did.Document, *resolver.DocumentMetadata, error) {
	d, ok := s.docs[id.String()]
	if !ok {
		return nil, nil, resolver.ErrNotFound
	}
	return &d, &resolver.DocumentMetadata{}, nil
}

type netw struct {
	revs map[string]credential.Revocation // by credential id
}

func (n *netw) PublishCredential(context.Context, vc.VerifiableCredential, bool) error { return nil }
func (n *netw) PublishRevocation(_ context.Context, r credential.Revocation) error {
	n.revs[r.Subject.String()] = r
	return nil
}

type servedList struct {
	Body string
	URL  string // subject id
	Kind string // legit | forged kind
	Bits map[int]bool
}

type fetch struct{ URL, Kind, Body string }

type route struct {
	DID  did.DID
	Page int
}

type doer struct {
	w        *world
	routes   map[string]route
	override map[string]*servedList
	fail     map[string]string // url -> how the endpoint fails at the next request(s)
	fetches  []fetch
}

func (d *doer) Do(req *http.Request) (*http.Response, error) {
	u := req.URL.String()
	respond := func(code int, body string) (*http.Response, error) {
		return &http.Response{StatusCode: code, Header: http.Header{"Content-Type": []string{"application/json"}},
			Body: io.NopCloser(strings.NewReader(body)), Request: req}, nil
	}
	if kind := d.fail[u]; kind != "" {
		d.fetches = append(d.fetches, fetch{u, "fail:" + kind, ""})
		switch kind {
		case "http-500":
			return respond(500, "internal server error")
		case "network-error":
			return nil, errors.New("dial tcp: connection refused")
		default: // truncated-body: the first half of the list the issuing node holds
			rows := queryRows(d.w.t, d.w.I.sqldb, "SELECT raw FROM status_list_credential WHERE subject_id = ?", u)
			if len(rows) == 0 {
				return respond(200, "{")
			}
			return respond(200, rows[0][0][:len(rows[0][0])/2])
		}
	}
	if f := d.override[u]; f != nil {
		d.fetches = append(d.fetches, fetch{u, f.Kind, f.Body})
		return respond(200, f.Body)
	}
	if _, ok := d.routes[u]; !ok {
		d.fetches = append(d.fetches, fetch{u, "404", ""})
		return respond(404, "not found")
	}
	sl := d.w.serve(u)
	if sl == nil {
		d.fetches = append(d.fetches, fetch{u, "500", ""})
		return respond(500, "error")
	}
	d.fetches = append(d.fetches, fetch{u, "legit", sl.Body})
	return respond(200, sl.Body)
}

// ------------------------------------------------------------------ nodes

type node struct {
	name   string
	db     *gorm.DB
	sqldb  *sql.DB
	pool   *fault.Pool
	ks     *nutsCrypto.Crypto
	status *revocation.StatusList2021
	iss    issuer.Issuer
	ver    verifier.Verifier
	// environment answers of this node's key resolution / revocation store (nil = all fine)
	fault *envFault
	// the real receiver the ambassador registers for revocation transactions
	revReceiver func(dag.Event) (bool, error)
}

// envFault: the next `left` calls at the seam fail with err (left < 0: every call, a permanent condition).
type envFault struct {
	seam string // key | store
	err  error
	left int
}

func (n *node) hit(seam string) error {
	f := n.fault
	if f == nil || f.seam != seam || f.left == 0 {
		return nil
	}
	if f.left > 0 {
		f.left--
	}
	return f.err
}

type envKeys struct {
	inner resolver.KeyResolver
	n     *node
}

func (k envKeys) ResolveKeyByID(keyID string, md *resolver.ResolveMetadata, rel resolver.RelationType) (stdcrypto.PublicKey, error) {
	if err := k.n.hit("key"); err != nil {
		return nil, err
	}
	return k.inner.ResolveKeyByID(keyID, md, rel)
}
func (k envKeys) ResolveKey(id did.DID, at *time.Time, rel resolver.RelationType) (string, stdcrypto.PublicKey, error) {
	return k.inner.ResolveKey(id, at, rel)
}

type envStore struct {
	verifier.Store
	n *node
}

func (s envStore) StoreRevocation(r credential.Revocation) error {
	if err := s.n.hit("store"); err != nil {
		return err
	}
	return s.Store.StoreRevocation(r)
}

var jsonldMgr jsonld.JSONLD

func newNode(t testing.TB, name string, res resolver.DIDResolver, pub issuer.Publisher, httpc *doer, schedPoints bool) *node {
	se := storage.NewTestStorageEngine(t)
	if err := se.Start(); err != nil {
		t.Fatal(err)
	}
	db := se.GetSQLDatabase()
	db.NowFunc = vtime.Now // gorm's autoCreateTime follows the virtual clock
	n := &node{name: name, db: db}
	n.pool = fault.InstallPool(db)
	n.pool.SchedPoints = schedPoints
	var err error
	if n.sqldb, err = n.pool.GetDBConn(); err != nil {
		t.Fatal(err)
	}
	n.ks = nutsCrypto.NewDatabaseCryptoInstance(db)
	dir := t.TempDir()
	kv1, err := se.GetProvider("vcr").GetKVStore("backup-issued-credentials", storage.PersistentStorageClass)
	if err != nil {
		t.Fatal(err)
	}
	kv2, err := se.GetProvider("vcr").GetKVStore("backup-revoked-credentials", storage.PersistentStorageClass)
	if err != nil {
		t.Fatal(err)
	}
	istore, err := issuer.NewStore(db, filepath.Join(dir, "issued.db"), kv1)
	if err != nil {
		t.Fatal(err)
	}
	vstore, err := verifier.NewLeiaVerifierStore(filepath.Join(dir, "verifier.db"), kv2)
	if err != nil {
		t.Fatal(err)
	}
	t.Cleanup(func() { _ = istore.Close(); _ = vstore.Close() })
	tc := trust.NewConfig(filepath.Join(dir, "trusted.yaml"))
	n.status = revocation.NewStatusList2021(db, httpc, baseURL)
	n.iss = issuer.NewIssuer(istore, nil, pub, nil, res, n.ks, jsonldMgr, tc, n.status)
	n.ver = verifier.NewVerifier(envStore{Store: vstore, n: n}, res, envKeys{inner: resolver.DIDKeyResolver{Resolver: res}, n: n}, jsonldMgr, tc, n.status)
	_, n.revReceiver = vcr.VerifAmbassadorReceivers(nil, n.ver)
	return n
}

func queryRows(t testing.TB, db *sql.DB, q string, args ...any) [][]string {
	rows, err := db.Query(q, args...)
	if err != nil {
		t.Fatalf("%s: %v", q, err)
	}
	defer rows.Close()
	cols, _ := rows.Columns()
	var out [][]string
	for rows.Next() {
		vals := make([]sql.NullString, len(cols))
		ptrs := make([]any, len(cols))
		for i := range vals {
			ptrs[i] = &vals[i]
		}
		if err := rows.Scan(ptrs...); err != nil {
			t.Fatal(err)
		}
		rec := make([]string, len(cols))
		for i, v := range vals {
			rec[i] = v.String
		}
		out = append(out, rec)
	}
	return out
}

// ------------------------------------------------------------------ world

type event struct {
	Op string `json:"op"`          // issueSL issueNuts revoke deliver check advance forgeRev attack
	I  int    `json:"i,omitempty"` // issuer
	C  int    `json:"c,omitempty"` // credential number
	K  string `json:"k,omitempty"` // kind / duration
}

func (e event) String() string {
	s := e.Op
	if e.I != 0 {
		s += fmt.Sprintf("(%d)", e.I)
	}
	if e.Op == "revoke" || e.Op == "deliver" {
		s += fmt.Sprintf("(c%d)", e.C)
	}
	if e.K != "" {
		s += "(" + e.K + ")"
	}
	return s
}

type replayCase struct {
	Start   string  `json:"start"` // fresh | seeded
	History []event `json:"history"`
}

type world struct {
	t       testing.TB
	r       *ev.Run
	ctx     context.Context
	start   string
	hist    []event
	I, V    *node
	res     *staticResolver
	net     *netw
	http    *doer
	m       *model
	creds   []vc.VerifiableCredential
	served  map[string]*servedList // by exact body
	tainted bool
	verdict map[string]int

	canonCache   string
	enabledCache []event

	scenario string // first field of violation signatures after the property id (default bfs)
	replay   any    // replay artefact of the running case when it is not a plain history
}

func (w *world) violation(clause, class, what string) {
	scenario := w.scenario
	if scenario == "" {
		scenario = "bfs"
	}
	var artefact any = replayCase{Start: w.start, History: append([]event{}, w.hist...)}
	if w.replay != nil {
		artefact = w.replay
	}
	w.r.Violation("C11|"+scenario+"|"+clause+"|"+class, fmt.Sprintf("%s [start %s, history %v]", what, w.start, w.hist), artefact)
}

const maxIndex = listBits - 1

func newWorld(t testing.TB, r *ev.Run, start string, schedPoints bool) *world {
	return newWorld2(t, r, start, schedPoints, true)
}

func newWorld2(t testing.TB, r *ev.Run, start string, schedPoints, withV bool) *world {
	vtime.Reset()
	issuer.TimeFunc = vtime.Now
	w := &world{t: t, r: r, ctx: audit.TestContext(), start: start, m: newModel(), served: map[string]*servedList{},
		res: &staticResolver{docs: map[string]did.Document{}}, net: &netw{revs: map[string]credential.Revocation{}}, verdict: map[string]int{}}
	w.http = &doer{w: w, routes: map[string]route{}, override: map[string]*servedList{}, fail: map[string]string{}}
	w.I = newNode(t, "I", w.res, w.net, w.http, schedPoints)
	if withV {
		w.V = newNode(t, "V", w.res, w.net, w.http, false)
	}
	for _, d := range []did.DID{issuerDID(1, true), issuerDID(2, true), issuerDID(1, false), issuerDID(2, false)} {
		_, pub, err := w.I.ks.New(w.ctx, nutsCrypto.StringNamingFunc(kidOf(d)))
		if err != nil {
			t.Fatal(err)
		}
		vm, err := did.NewVerificationMethod(did.MustParseDIDURL(kidOf(d)), ssi.JsonWebKey2020, d, pub)
		if err != nil {
			t.Fatal(err)
		}
		doc := did.Document{Context: []interface{}{did.DIDContextV1URI()}, ID: d}
		doc.AddAssertionMethod(vm)
		w.res.docs[d.String()] = doc
		// status_list.issuer references the table of managed DIDs
		if _, err := w.I.sqldb.Exec("INSERT INTO did (id, subject) VALUES (?, ?)", d.String(), "subject-"+d.String()); err != nil {
			t.Fatal(err)
		}
	}
	if start == "seeded" {
		// non-initial start state: issuer 1's first page exists and has two slots left
		e, err := w.I.status.Entry(w.ctx, issuerDID(1, true), revocation.StatusPurposeRevocation)
		if err != nil {
			t.Fatal(err)
		}
		w.registerURL(e.StatusListCredential, issuerDID(1, true))
		w.m.handOut(e.StatusListCredential, 1, 0, -1)
		if _, err := w.I.sqldb.Exec("UPDATE status_list SET last_issued_index = ? WHERE subject_id = ?", maxIndex-1, e.StatusListCredential); err != nil {
			t.Fatal(err)
		}
	}
	return w
}

func (w *world) registerURL(u string, d did.DID) {
	page, err := strconv.Atoi(u[strings.LastIndex(u, "/")+1:])
	if err != nil {
		w.t.Fatalf("status list URL %q: %v", u, err)
	}
	w.http.routes[u] = route{DID: d, Page: page}
}

var (
	testContext = ssi.MustParseURI("http://example.org/credentials/V1")
	humanType   = ssi.MustParseURI("HumanCredential")
)

func (w *world) issue(i int, sl bool) {
	d := issuerDID(i, sl)
	tmpl := vc.VerifiableCredential{
		Context: []ssi.URI{vc.VCContextV1URI(), testContext},
		Type:    []ssi.URI{humanType},
		Issuer:  d.URI(),
		CredentialSubject: []interface{}{map[string]interface{}{"id": holder,
			"human": map[string]interface{}{"eyeColour": "blue"}}},
	}
	cred, err := w.I.iss.Issue(w.ctx, tmpl, issuer.CredentialOptions{WithStatusListRevocation: sl})
	if err != nil {
		w.t.Fatalf("harness: issuing failed: %v", err)
	}
	w.adopt(i, sl, cred)
}

// adopt registers an issued credential with the model (slot uniqueness is judged here).
func (w *world) adopt(i int, sl bool, cred *vc.VerifiableCredential) {
	d := issuerDID(i, sl)
	mc := &mCred{N: len(w.m.Creds), Issuer: i, SL: sl, ID: cred.ID.String()}
	if sl {
		statuses, err := cred.CredentialStatuses()
		if err != nil || len(statuses) != 1 {
			w.t.Fatalf("harness: credentialStatus: %v %d", err, len(statuses))
		}
		var e revocation.StatusList2021Entry
		if err := json.Unmarshal(statuses[0].Raw(), &e); err != nil {
			w.t.Fatal(err)
		}
		mc.URL = e.StatusListCredential
		if mc.Index, err = strconv.Atoi(e.StatusListIndex); err != nil {
			w.t.Fatal(err)
		}
		w.registerURL(mc.URL, d)
		if !w.m.handOut(mc.URL, i, mc.Index, mc.N) {
			w.violation("slot-shared", "sequential", fmt.Sprintf("status-list position %s#%d was handed to two credentials", mc.URL, mc.Index))
		}
		if !strings.Contains(mc.URL, "/"+d.String()+"/") {
			w.violation("slot-on-foreign-list", "sequential", fmt.Sprintf("credential of %s names list %s", d, mc.URL))
		}
	}
	w.m.Creds = append(w.m.Creds, mc)
	w.creds = append(w.creds, *cred)
}

func (w *world) revoke(c int) {
	mc := w.m.Creds[c]
	_, err := w.I.iss.Revoke(w.ctx, *w.creds[c].ID)
	switch {
	case err == nil:
		mc.Revoked = true
		if mc.SL {
			w.m.Lists[mc.URL].Revoked[mc.Index] = true
		} else if _, ok := w.net.revs[mc.ID]; ok {
			mc.RevPublished = true
		}
	case errors.Is(err, types.ErrRevoked):
		if !mc.Revoked {
			w.r.Observation("revoke-answers-already-revoked-on-first-call", fmt.Sprint(w.hist))
		}
	default:
		w.r.Observation("issuer-side-revoke-failed", err.Error())
	}
}

// deliverKinds: what the verifying node's environment answers while it processes the revocation it received.
var deliverKinds = []string{"", "key-timeout", "key-canceled-wrapped", "store-timeout-wrapped", "store-canceled", "key-not-found"}

func deliveryFault(kind string) (*envFault, bool) {
	switch kind {
	case "":
		return nil, true
	case "key-timeout":
		return &envFault{seam: "key", err: context.DeadlineExceeded, left: 1}, true
	case "key-canceled-wrapped":
		return &envFault{seam: "key", err: fmt.Errorf("resolving: %w", context.Canceled), left: 1}, true
	case "store-timeout-wrapped":
		return &envFault{seam: "store", err: fmt.Errorf("leia: %w", context.DeadlineExceeded), left: 1}, true
	case "store-canceled":
		return &envFault{seam: "store", err: context.Canceled, left: 1}, true
	case "key-not-found": // permanent: the key does not exist as far as this node can tell
		return &envFault{seam: "key", err: resolver.ErrKeyNotFound, left: -1}, false
	}
	return nil, true
}

// deliver: the revocation transaction reaches node V through the REAL ambassador receiver. The persistent notifier
// of the network layer is represented by its contract (network/dag/notifier.go): finished => done; an error that
// is a dag.EventFatal => the event is dropped for good; any other outcome => the event is delivered again. The
// fair suffix runs at once: redeliveries until nothing is pending (the injected fault is over after its first hit).
func (w *world) deliver(c int, kind string) {
	mc := w.m.Creds[c]
	rev, ok := w.net.revs[mc.ID]
	if !ok {
		return
	}
	payload, _ := json.Marshal(rev)
	utx, err := dag.NewTransaction(hash.SHA256Sum(payload), types.RevocationLDDocumentType, nil, nil, 0)
	if err != nil {
		w.t.Fatal(err)
	}
	tx := utx.(dag.Transaction)
	event := dag.Event{Type: dag.PayloadEventType, Hash: tx.Ref(), Transaction: tx, Payload: payload}
	fault, transient := deliveryFault(kind)
	w.V.fault = fault
	state, attempts, lastErr := "pending", 0, error(nil)
	for state == "pending" && attempts < 10 {
		attempts++
		finished, err := w.V.revReceiver(event)
		lastErr = err
		switch {
		case err != nil && errors.As(err, new(dag.EventFatal)):
			state = "dropped"
		case err == nil && finished:
			state = "finished"
		}
	}
	w.V.fault = nil
	known, _ := w.V.ver.IsRevoked(ssi.MustParseURI(mc.ID))
	w.verdict[fmt.Sprintf("deliver %q -> %s after %d attempt(s), registered=%v", kind, state, attempts, known)]++
	if transient && !known {
		w.violation("received-revocation-lost", "delivery|"+kind, fmt.Sprintf("node V received the issuer's validly signed revocation of c%d; with the environment answer %q the event ended %s after %d attempt(s) (last error: %v) and the revocation is not registered: the credential keeps verifying on this node",
			mc.N, kind, state, attempts, lastErr))
	}
	mc.VKnows = known // the model follows the node from here (no cascade of verdicts)
}

func bodyOf(lst *vc.VerifiableCredential) string {
	if raw := lst.Raw(); raw != "" {
		return raw
	}
	b, _ := json.Marshal(lst)
	return string(b)
}

func subjectOf(lst *vc.VerifiableCredential) (revocation.StatusList2021CredentialSubject, error) {
	var subj []revocation.StatusList2021CredentialSubject
	if err := lst.UnmarshalCredentialSubject(&subj); err != nil {
		return revocation.StatusList2021CredentialSubject{}, err
	}
	if len(subj) != 1 {
		return revocation.StatusList2021CredentialSubject{}, fmt.Errorf("%d credential subjects", len(subj))
	}
	return subj[0], nil
}

// serve asks the issuing node for the list at url u (what its HTTP API does) and judges the served list.
func (w *world) serve(u string) *servedList {
	rt := w.http.routes[u]
	now := vtime.Now()
	lst, err := w.I.iss.StatusList(w.ctx, rt.DID, rt.Page)
	if err != nil || lst == nil {
		w.violation("list-not-served", "serve", fmt.Sprintf("the issuing node cannot serve %s: %v", u, err))
		return nil
	}
	return w.judgeServed(u, lst, now)
}

// judgeServed judges one list that left the issuing node.
func (w *world) judgeServed(u string, lst *vc.VerifiableCredential, now time.Time) *servedList {
	rt := w.http.routes[u]
	l := w.m.Lists[u]
	subj, err := subjectOf(lst)
	if err != nil {
		w.violation("served-list-malformed", "serve", err.Error())
		return nil
	}
	bits, n, err := decodeBits(subj.EncodedList)
	if err != nil {
		w.violation("served-list-malformed", "serve", err.Error())
		return nil
	}
	sl := &servedList{Body: bodyOf(lst), URL: subj.ID, Kind: "legit", Bits: bits}
	w.served[sl.Body] = sl
	switch {
	case subj.ID != u:
		w.violation("served-list-wrong-subject", "serve", fmt.Sprintf("list served at %s has subject %s", u, subj.ID))
	case lst.Issuer.String() != rt.DID.String():
		w.violation("served-list-wrong-issuer", "serve", fmt.Sprintf("list served at %s is issued by %s", u, lst.Issuer))
	case subj.StatusPurpose != revocation.StatusPurposeRevocation || n < listBits:
		w.violation("served-list-malformed", "serve", fmt.Sprintf("purpose %q, %d entries", subj.StatusPurpose, n))
	}
	checker := w.I.ver // any node's real signature verifier; the verifying node when there is one
	if w.V != nil {
		checker = w.V.ver
	}
	if err := checker.VerifySignature(*lst, &now); err != nil {
		w.violation("served-list-not-validly-signed", "serve", fmt.Sprintf("list served at %s: %v", u, err))
	}
	if lst.ExpirationDate == nil || lst.ExpirationDate.Sub(now) < 6*time.Hour-30*time.Second {
		left := "no expiration date"
		if lst.ExpirationDate != nil {
			left = lst.ExpirationDate.Sub(now).Round(time.Minute).String()
		}
		w.violation("served-list-about-to-expire", "serve", fmt.Sprintf("list served at %s is valid for another %s only (statement: not about to expire; node's margin 6h)", u, left))
	}
	if lst.IssuanceDate.After(now.Add(5 * time.Second)) {
		w.violation("served-list-not-yet-valid", "serve", fmt.Sprintf("list served at %s is issued in the future", u))
	}
	if cl, what := l.servedClause(bits); cl != "" {
		w.violation(cl, "serve", fmt.Sprintf("list served at %s: %s (bits %v, revoked by issuer %v)", u, what, setKeys(bits), setKeys(l.Revoked)))
	}
	for i := range bits {
		l.Served[i] = true
	}
	return sl
}

// checkStored judges, without side effects, the list the issuing node holds ready to serve for every page: the
// bit-set model must hold for it at every moment, not only when somebody asks.
func (w *world) checkStored() {
	for _, u := range w.m.urls() {
		l := w.m.Lists[u]
		rows := queryRows(w.t, w.I.sqldb, "SELECT raw FROM status_list_credential WHERE subject_id = ?", u)
		if len(rows) == 0 {
			w.violation("list-not-served", "stored", "the issuing node holds no list for "+u)
			continue
		}
		lst, err := vc.ParseVerifiableCredential(rows[0][0])
		if err != nil {
			w.violation("served-list-malformed", "stored", err.Error())
			continue
		}
		subj, err := subjectOf(lst)
		if err != nil {
			w.violation("served-list-malformed", "stored", err.Error())
			continue
		}
		bits, _, err := decodeBits(subj.EncodedList)
		if err != nil {
			w.violation("served-list-malformed", "stored", err.Error())
			continue
		}
		// l.Served is not consulted here: it is about lists that left the node
		for i := range l.Revoked {
			if !bits[i] {
				w.violation("revoked-bit-missing", "stored", fmt.Sprintf("index %d of %s was revoked by the issuer but its bit is clear in the list the node holds (bits %v, revoked %v)", i, u, setKeys(bits), setKeys(l.Revoked)))
			}
		}
		for i := range bits {
			if !l.Revoked[i] {
				w.violation("bit-set-without-revoke", "stored", fmt.Sprintf("bit %d of %s is set although the issuer never revoked that index", i, u))
			}
		}
	}
}

// vHeld returns the list node V holds for url u (nil = none).
func (w *world) vHeld(u string) *servedList {
	rows := queryRows(w.t, w.V.sqldb, "SELECT raw FROM status_list_credential WHERE subject_id = ?", u)
	if len(rows) == 0 {
		return nil
	}
	sl := w.served[rows[0][0]]
	if sl == nil {
		w.t.Fatalf("harness: node V holds a list for %s that was never served: %.200s", u, rows[0][0])
	}
	return sl
}

func (w *world) verifyOn(n *node, c int) string {
	now := vtime.Now()
	err := n.ver.Verify(w.creds[c], true, true, &now)
	switch {
	case err == nil:
		return "ok"
	case errors.Is(err, types.ErrRevoked):
		return "revoked"
	}
	w.verdict["error: "+err.Error()]++
	return "error"
}

func (w *world) judge(mc *mCred, verdict string, expected bool, where string) {
	w.verdict[where+":"+verdict]++
	kind := "nuts"
	if mc.SL {
		kind = "statuslist"
	}
	switch {
	case expected && verdict == "ok":
		w.violation("revocation-not-effective", kind+"|"+where, fmt.Sprintf("credential c%d was revoked by its issuer and the %s node knows it (revocation received / list with its bit fetched), yet verification succeeds", mc.N, where))
	case expected && verdict == "error":
		w.r.Observation("revoked-credential-fails-with-other-error", fmt.Sprint(w.hist))
	case !expected && verdict == "revoked" && !mc.Revoked:
		w.violation("revoked-without-issuer-action", kind+"|"+where, fmt.Sprintf("credential c%d is reported revoked on the %s node although its issuer never revoked it", mc.N, where))
	case !expected && verdict == "revoked":
		w.r.Observation("revoked-before-the-node-could-know", fmt.Sprint(w.hist))
	case !expected && verdict == "error":
		w.r.Observation("valid-credential-not-verifiable", fmt.Sprint(w.hist))
	}
	if where == "verifying" {
		if mc.EverRevokedV && verdict == "ok" {
			w.violation("revocation-not-permanent", kind+"|"+where, fmt.Sprintf("credential c%d was reported revoked before and verifies again", mc.N))
		}
		if verdict == "revoked" {
			mc.EverRevokedV = true
		}
	}
}

func (w *world) verifyOnV(mc *mCred) {
	w.http.fetches = nil
	verdict := w.verifyOn(w.V, mc.N)
	if !mc.SL {
		w.judge(mc, verdict, mc.VKnows, "verifying")
		return
	}
	l := w.m.Lists[mc.URL]
	held := w.vHeld(mc.URL)
	for _, f := range w.http.fetches {
		if f.URL == mc.URL && f.Kind == "legit" && (held == nil || held.Body != f.Body) {
			w.violation("refreshed-list-not-honoured", "statuslist|verifying", fmt.Sprintf("node V downloaded the current list of %s and does not hold it afterwards", mc.URL))
		}
	}
	if l.Tainted {
		return
	}
	w.judge(mc, verdict, held != nil && held.Bits[mc.Index], "verifying")
}

func (w *world) check() {
	for _, u := range w.m.urls() {
		w.serve(u)
	}
	for _, mc := range w.m.Creds {
		if mc.SL { // managed lists: the issuing node itself must know at once
			w.judge(mc, w.verifyOn(w.I, mc.N), mc.Revoked, "issuing")
		}
	}
	for _, mc := range w.m.Creds {
		w.verifyOnV(mc)
	}
}

// ------------------------------------------------------------------ forgeries

func (w *world) signLD(doc any, kid string, created time.Time) map[string]interface{} {
	asMap := map[string]interface{}{}
	b, _ := json.Marshal(doc)
	_ = json.Unmarshal(b, &asMap)
	suite := signature.JSONWebSignature2020{ContextLoader: jsonldMgr.DocumentLoader(), Signer: w.I.ks}
	res, err := proof.NewLDProof(proof.ProofOptions{Created: created}).Sign(w.ctx, asMap, suite, kid)
	if err != nil {
		w.t.Fatalf("harness: signing a forgery: %v", err)
	}
	b, _ = json.Marshal(res)
	out := map[string]interface{}{}
	_ = json.Unmarshal(b, &out)
	return out
}

var forgeRevKinds = []string{"vm-of-other-did", "signed-by-other-naming-victim", "victim-kid-attacker-key", "replayed-for-other-credential", "garbage-signature"}

func (w *world) firstCred(issuerN int, sl bool) *mCred {
	for _, mc := range w.m.Creds {
		if mc.Issuer == issuerN && mc.SL == sl {
			return mc
		}
	}
	return nil
}

func (w *world) forgeRev(kind string) {
	mc := w.firstCred(1, false)
	if mc == nil {
		return
	}
	victim, attacker := issuerDID(1, false), issuerDID(2, false)
	subject := ssi.MustParseURI(mc.ID)
	now := vtime.Now()
	var signed map[string]interface{}
	switch kind {
	case "vm-of-other-did": // names the victim as issuer, proof by the attacker's own key
		signed = w.signLD(credential.BuildRevocation(victim.URI(), subject), kidOf(attacker), now)
	case "signed-by-other-naming-victim": // validly signed by the attacker as issuer, subject = the victim's credential
		signed = w.signLD(credential.BuildRevocation(attacker.URI(), subject), kidOf(attacker), now)
	case "victim-kid-attacker-key": // attacker's signature relabelled with the victim's key id
		signed = w.signLD(credential.BuildRevocation(victim.URI(), subject), kidOf(attacker), now)
		signed["proof"].(map[string]interface{})["verificationMethod"] = kidOf(victim)
	case "replayed-for-other-credential": // a genuine revocation of ANOTHER credential id of the victim, subject swapped
		other := ssi.MustParseURI(victim.String() + "#6f7ad0c4-1d9c-4b8e-9d0a-0a9c0c0f3a11")
		signed = w.signLD(credential.BuildRevocation(victim.URI(), other), kidOf(victim), now)
		signed["subject"] = mc.ID
	case "garbage-signature": // names the victim and the victim's key; the signature bytes belong to nothing
		signed = w.signLD(credential.BuildRevocation(victim.URI(), subject), kidOf(attacker), now)
		pr := signed["proof"].(map[string]interface{})
		pr["verificationMethod"] = kidOf(victim)
		if jws, ok := pr["jws"].(string); ok && len(jws) > 8 {
			b := []byte(jws)
			for i := len(b) - 8; i < len(b); i++ {
				b[i] = 'A' + byte(i%7)
			}
			pr["jws"] = string(b)
		}
	default:
		w.t.Fatalf("unknown forgery %s", kind)
	}
	b, _ := json.Marshal(signed)
	var rev credential.Revocation
	if err := json.Unmarshal(b, &rev); err != nil {
		w.t.Fatalf("harness: %v", err)
	}
	err := w.V.ver.RegisterRevocation(rev)
	if err == nil {
		w.violation("forged-revocation-accepted", kind, fmt.Sprintf("node V registered a revocation of c%d that its issuer did not make (%s)", mc.N, kind))
	}
	w.verdict[fmt.Sprintf("forgeRev %s rejected=%v", kind, err != nil)]++
	known, _ := w.V.ver.IsRevoked(subject)
	if known && !mc.VKnows {
		if err != nil {
			w.violation("forged-revocation-effective", kind, fmt.Sprintf("the forged revocation (%s) was refused, yet node V lists c%d as revoked afterwards", kind, mc.N))
		}
		mc.VKnows = true // reported once; from here on the model follows what node V believes (no cascade of verdicts)
		w.tainted = true
		return
	}
	w.judge(mc, w.verifyOn(w.V, mc.N), mc.VKnows, "verifying")
}

var attackKinds = []string{"other-subject-id", "bad-signature", "claims-issuer-signed-by-other", "with-credential-status", "wrong-purpose", "other-issuer"}

func mustReject(kind string) bool {
	return kind == "other-subject-id" || kind == "bad-signature" || kind == "claims-issuer-signed-by-other"
}

func (w *world) listTemplate(iss did.DID, subjectID, purpose string, bits map[int]bool, now time.Time) vc.VerifiableCredential {
	exp := now.Add(24 * time.Hour)
	id := ssi.MustParseURI(iss.String() + "#0b5e6f0a-3c0c-4c53-9a0e-0d7e5a0f5c11")
	return vc.VerifiableCredential{
		Context:        []ssi.URI{vc.VCContextV1URI(), revocation.StatusList2021ContextURI},
		Type:           []ssi.URI{vc.VerifiableCredentialTypeV1URI(), ssi.MustParseURI(revocation.StatusList2021CredentialType)},
		ID:             &id,
		Issuer:         iss.URI(),
		IssuanceDate:   now,
		ExpirationDate: &exp,
		CredentialSubject: []interface{}{revocation.StatusList2021CredentialSubject{ID: subjectID, Type: revocation.StatusList2021CredentialSubjectType,
			StatusPurpose: purpose, EncodedList: encodeBits(bits)}},
	}
}

// attack: while node V refreshes the list the credential names, the URL answers with a forged list that says the
// opposite of what V would otherwise conclude.
func (w *world) attack(kind string) {
	mc := w.firstCred(1, true)
	if mc == nil || w.m.Lists[mc.URL].Tainted {
		return
	}
	victim, attacker := issuerDID(1, true), issuerDID(2, true)
	before := w.vHeld(mc.URL)
	truth := before != nil && before.Bits[mc.Index] // what node V concludes without the forgery
	// the forged list is the issuer's current list with this credential's bit flipped
	bits := map[int]bool{}
	for i := range w.m.Lists[mc.URL].Revoked {
		bits[i] = true
	}
	if bits[mc.Index] {
		delete(bits, mc.Index)
	} else {
		bits[mc.Index] = true
	}
	now := vtime.Now()
	var body string
	marshal := func(v any) string { b, _ := json.Marshal(v); return string(b) }
	switch kind {
	case "other-subject-id":
		other := strings.Replace(mc.URL, "/"+victim.String()+"/", "/"+attacker.String()+"/", 1)
		body = marshal(w.signLD(w.listTemplate(attacker, other, "revocation", bits, now), kidOf(attacker), now))
	case "bad-signature": // the issuer's own current list with another bit string
		rows := queryRows(w.t, w.I.sqldb, "SELECT raw FROM status_list_credential WHERE subject_id = ?", mc.URL)
		if len(rows) == 0 {
			return
		}
		var m map[string]interface{}
		_ = json.Unmarshal([]byte(rows[0][0]), &m)
		switch cs := m["credentialSubject"].(type) {
		case map[string]interface{}:
			cs["encodedList"] = encodeBits(bits)
		case []interface{}:
			cs[0].(map[string]interface{})["encodedList"] = encodeBits(bits)
		}
		body = marshal(m)
	case "claims-issuer-signed-by-other":
		body = marshal(w.signLD(w.listTemplate(victim, mc.URL, "revocation", bits, now), kidOf(attacker), now))
	case "with-credential-status":
		tmpl := w.listTemplate(attacker, mc.URL, "revocation", bits, now)
		tmpl.CredentialStatus = []any{revocation.StatusList2021Entry{ID: mc.URL + "x#1", Type: revocation.StatusList2021EntryType, StatusPurpose: "revocation",
			StatusListIndex: "1", StatusListCredential: mc.URL + "x"}}
		body = marshal(w.signLD(tmpl, kidOf(attacker), now))
	case "wrong-purpose":
		body = marshal(w.signLD(w.listTemplate(attacker, mc.URL, "suspension", bits, now), kidOf(attacker), now))
	case "other-issuer": // DESIGN §4 row 18: validly signed by a DID that is not the credential's issuer
		body = marshal(w.signLD(w.listTemplate(attacker, mc.URL, "revocation", bits, now), kidOf(attacker), now))
	default:
		w.t.Fatalf("unknown attack %s", kind)
	}
	forged := &servedList{Body: body, URL: mc.URL, Kind: kind, Bits: bits}
	w.served[body] = forged
	w.http.override[mc.URL] = forged
	w.http.fetches = nil
	verdict := w.verifyOn(w.V, mc.N)
	delete(w.http.override, mc.URL)
	fetched := false
	for _, f := range w.http.fetches {
		fetched = fetched || f.Kind == kind
	}
	if !fetched {
		w.verdict["attack "+kind+": no download (cache fresh)"]++
		w.judge(mc, verdict, truth, "verifying")
		return
	}
	after := w.vHeld(mc.URL)
	accepted := after != nil && after.Body == body
	w.verdict[fmt.Sprintf("attack %s accepted=%v", kind, accepted)]++
	switch {
	case accepted && mustReject(kind):
		w.violation("forged-list-accepted", kind, fmt.Sprintf("node V stored a forged list (%s) for %s", kind, mc.URL))
	case accepted:
		// not judged: the statement asks for "the list the credential itself names"; the URL served it, validly signed
		w.r.Observation("list-signed-by-another-did-honoured/"+kind, map[string]any{"forged_list": kind, "served_at": "the URL the credential names",
			"signed_by": "a resolvable DID other than the credential's issuer", "stored_by_verifying_node": true, "verdict_for_the_credential": verdict})
		w.r.Sample(map[string]any{"observation": "list-signed-by-another-did-honoured/" + kind, "start": w.start, "history": fmt.Sprint(w.hist)})
		w.m.Lists[mc.URL].Tainted = true
		w.tainted = true
		return
	case (before == nil) != (after == nil) || (before != nil && before.Body != after.Body):
		w.violation("forged-list-changed-cache", kind, fmt.Sprintf("a rejected forged list (%s) changed what node V holds for %s", kind, mc.URL))
	}
	w.judge(mc, verdict, truth, "verifying")
}

var outageKinds = []string{"http-500", "network-error", "truncated-body"}

// outage: the endpoint of the list the credential names fails while node V wants to refresh. Whatever V held
// before is all it knows: the verdict must follow that, and a revoked credential must stay revoked.
func (w *world) outage(kind string) {
	mc := w.firstCred(1, true)
	if mc == nil || w.m.Lists[mc.URL].Tainted {
		return
	}
	before := w.vHeld(mc.URL)
	truth := before != nil && before.Bits[mc.Index]
	w.http.fail[mc.URL] = kind
	w.http.fetches = nil
	verdict := w.verifyOn(w.V, mc.N)
	delete(w.http.fail, mc.URL)
	asked := false
	for _, f := range w.http.fetches {
		asked = asked || strings.HasPrefix(f.Kind, "fail:")
	}
	w.verdict[fmt.Sprintf("outage %s asked=%v -> %s", kind, asked, verdict)]++
	after := w.vHeld(mc.URL)
	if (before == nil) != (after == nil) || (before != nil && before.Body != after.Body) {
		w.violation("failed-refresh-changed-cache", kind, fmt.Sprintf("the endpoint of %s failed (%s) and node V holds another list afterwards", mc.URL, kind))
	}
	w.judge(mc, verdict, truth, "verifying")
}

// ------------------------------------------------------------------ near-miss signer identifiers

// nearMisses computes, from an issuer DID, the identifiers an attacker would register to pass a sloppy comparison:
// proper prefixes, extensions (character, digit, "-2", ":segment", ".host"), case changes, the same id under another
// method. Only identifiers that parse as DIDs and differ from the original are kept.
func nearMisses(d string) map[string]string {
	out := map[string]string{}
	add := func(class, v string) {
		if v == d || v == "" {
			return
		}
		if _, err := did.ParseDID(v); err != nil {
			return
		}
		if _, dup := out[v]; !dup {
			out[v] = class
		}
	}
	add("prefix-minus-one-character", d[:len(d)-1])
	add("prefix-minus-two-characters", d[:len(d)-2])
	if i := strings.LastIndex(d, ":"); i > len("did:web:") {
		add("prefix-parent-path", d[:i])
	}
	add("extension-character", d+"Z")
	add("extension-digit", d+"2")
	add("extension-dash", d+"-2")
	add("extension-segment", d+":x")
	add("extension-host", d+".attacker.net")
	add("extension-percent", d+"%3Ax")
	flip := []byte(d)
	for i := len(flip) - 1; i > len("did:web:"); i-- {
		c := flip[i]
		if c >= 'a' && c <= 'z' {
			flip[i] = c - 32
			break
		}
		if c >= 'A' && c <= 'Z' {
			flip[i] = c + 32
			break
		}
	}
	add("case-change", string(flip))
	parts := strings.SplitN(d, ":", 3)
	if len(parts) == 3 {
		for _, m := range []string{"web", "nuts", "key", "jwk"} {
			if m != parts[1] {
				add("other-method-same-id", "did:"+m+":"+parts[2])
			}
		}
	}
	return out
}

// enrol makes a DID resolvable with a key of its own (held by node I's key store, which plays every signer).
func (w *world) enrol(d did.DID) {
	if _, ok := w.res.docs[d.String()]; ok {
		return
	}
	_, pub, err := w.I.ks.New(w.ctx, nutsCrypto.StringNamingFunc(kidOf(d)))
	if err != nil {
		w.t.Fatal(err)
	}
	vm, err := did.NewVerificationMethod(did.MustParseDIDURL(kidOf(d)), ssi.JsonWebKey2020, d, pub)
	if err != nil {
		w.t.Fatal(err)
	}
	doc := did.Document{Context: []interface{}{did.DIDContextV1URI()}, ID: d}
	doc.AddAssertionMethod(vm)
	w.res.docs[d.String()] = doc
}

// nearMissSweep: for the did:nuts and the did:web identity of issuer 1, every near-miss identifier x every forged
// shape, against one credential each; every forgery must be refused and change nothing.
func nearMissSweep(t *testing.T, r *ev.Run) {
	build(t, r, "fresh", []event{{Op: "issueNuts", I: 1}, {Op: "issueSL", I: 1}}, func(w *world) {
		w.start = "near-miss"
		n, refused := 0, 0
		for _, mc := range w.m.Creds {
			victim := issuerDID(1, mc.SL)
			subject := ssi.MustParseURI(mc.ID)
			misses := nearMisses(victim.String())
			ids := make([]string, 0, len(misses))
			for id := range misses {
				ids = append(ids, id)
			}
			sortStrings(ids)
			for _, id := range ids {
				attacker := did.MustParseDID(id)
				w.enrol(attacker)
				now := vtime.Now()
				shapes := map[string]map[string]interface{}{
					// names the victim as issuer; proof by the attacker's own, resolvable key
					"issuer-is-victim/key-of-near-miss": w.signLD(credential.BuildRevocation(victim.URI(), subject), kidOf(attacker), now),
					// the attacker signs as itself and names the victim's credential
					"issuer-is-near-miss": w.signLD(credential.BuildRevocation(attacker.URI(), subject), kidOf(attacker), now),
				}
				for _, shape := range []string{"issuer-is-victim/key-of-near-miss", "issuer-is-near-miss"} {
					b, _ := json.Marshal(shapes[shape])
					var rev credential.Revocation
					if err := json.Unmarshal(b, &rev); err != nil {
						t.Fatalf("harness: %v", err)
					}
					n++
					class := shape + "|" + misses[id]
					r.Eval("near-miss|" + victim.Method + "|" + class)
					w.hist = []event{{Op: "forgeRev", K: shape + " signer " + id + " victim " + victim.String()}}
					err := w.V.ver.RegisterRevocation(rev)
					known, _ := w.V.ver.IsRevoked(subject)
					switch {
					case err == nil || known:
						w.violation("forged-revocation-accepted", class, fmt.Sprintf("node V registered (error: %v, listed as revoked: %v) a revocation of credential c%d of %s made by %s", err, known, mc.N, victim, attacker))
						r.Outcome("near-miss forgery accepted")
						return // the credential is revoked now; later forgeries would tell nothing
					default:
						refused++
						r.Outcome("near-miss forgery refused")
					}
				}
			}
			if verdict := w.verifyOn(w.V, mc.N); verdict != "ok" {
				w.violation("forged-revocation-effective", "near-miss", fmt.Sprintf("after the refused forgeries credential c%d no longer verifies on node V: %s", mc.N, verdict))
			}
		}
		if n < 20 {
			t.Fatalf("harness: only %d near-miss forgeries were generated", n)
		}
		r.Bound("near_miss_forgeries", n)
		r.AddExtra("near_miss_forgeries_refused", int64(refused))
	})
}

func sortStrings(xs []string) {
	for i := 1; i < len(xs); i++ {
		for j := i; j > 0 && xs[j] < xs[j-1]; j-- {
			xs[j], xs[j-1] = xs[j-1], xs[j]
		}
	}
}

// ------------------------------------------------------------------ events

func (w *world) apply(e event) {
	w.hist = append(w.hist, e)
	switch e.Op {
	case "issueSL":
		w.issue(e.I, true)
	case "issueNuts":
		w.issue(e.I, false)
	case "revoke":
		w.revoke(e.C)
	case "deliver":
		w.deliver(e.C, e.K)
	case "check":
		w.check()
	case "advance":
		d, err := time.ParseDuration(e.K)
		if err != nil {
			w.t.Fatal(err)
		}
		vtime.Advance(d)
	case "forgeRev":
		w.forgeRev(e.K)
	case "attack":
		w.attack(e.K)
	case "outage":
		w.outage(e.K)
	default:
		w.t.Fatalf("unknown event %v", e)
	}
}

type bounds struct {
	attacks, outages []string
	maxSL, maxNuts   int
	advances         []string
	maxOffset        time.Duration
}

func (w *world) enabled(b bounds) []event {
	if w.tainted {
		return nil // verdicts on the tainted list are no longer judged: nothing more to learn below this state
	}
	var out []event
	for i := 1; i <= 2; i++ {
		nSL, nNuts := 0, 0
		for _, mc := range w.m.Creds {
			if mc.Issuer == i && mc.SL {
				nSL++
			} else if mc.Issuer == i {
				nNuts++
			}
		}
		if nSL < b.maxSL {
			out = append(out, event{Op: "issueSL", I: i})
		}
		if nNuts < b.maxNuts {
			out = append(out, event{Op: "issueNuts", I: i})
		}
	}
	for _, mc := range w.m.Creds {
		out = append(out, event{Op: "revoke", C: mc.N})
		if mc.RevPublished && !mc.VKnows {
			for _, k := range deliverKinds {
				out = append(out, event{Op: "deliver", C: mc.N, K: k})
			}
		}
	}
	out = append(out, event{Op: "check"})
	if vtime.Offset() < b.maxOffset {
		for _, d := range b.advances {
			out = append(out, event{Op: "advance", K: d})
		}
	}
	if w.firstCred(1, false) != nil {
		for _, k := range forgeRevKinds {
			out = append(out, event{Op: "forgeRev", K: k})
		}
	}
	if w.firstCred(1, true) != nil {
		for _, k := range b.attacks {
			out = append(out, event{Op: "attack", K: k})
		}
		for _, k := range b.outages {
			out = append(out, event{Op: "outage", K: k})
		}
	}
	return out
}

func mins(d time.Duration) int { return int(d.Round(5*time.Minute) / time.Minute) }

// canon: the property-relevant state. Random identifiers never appear (credentials are numbered by order of
// issuance, lists by URL which is deterministic); times are minutes relative to the virtual clock, rounded to 5.
// Two histories with equal canon have equal futures: every handler reads only the rows and facts listed here.
func (w *world) canon() string {
	now := vtime.Now()
	var sb strings.Builder
	fmt.Fprintf(&sb, "t=%d;", mins(vtime.Offset()))
	for _, mc := range w.m.Creds {
		known := false
		if !mc.SL {
			known, _ = w.V.ver.IsRevoked(ssi.MustParseURI(mc.ID))
		}
		fmt.Fprintf(&sb, "c%d{i%d sl=%v %s#%d rev=%v pub=%v vknows=%v/%v ever=%v};", mc.N, mc.Issuer, mc.SL, mc.URL, mc.Index, mc.Revoked, mc.RevPublished, mc.VKnows, known, mc.EverRevokedV)
	}
	for _, rec := range queryRows(w.t, w.I.sqldb, "SELECT subject_id, last_issued_index FROM status_list ORDER BY subject_id") {
		fmt.Fprintf(&sb, "I.list{%s last=%s};", rec[0], rec[1])
	}
	for _, rec := range queryRows(w.t, w.I.sqldb, "SELECT status_list_credential, status_list_index FROM status_list_entry ORDER BY 1, 2") {
		fmt.Fprintf(&sb, "I.revoked{%s#%s};", rec[0], rec[1])
	}
	for _, n := range []*node{w.I, w.V} {
		for _, rec := range queryRows(w.t, n.sqldb, "SELECT subject_id, created_at, expires, raw FROM status_list_credential ORDER BY subject_id") {
			created, _ := strconv.ParseInt(rec[1], 10, 64)
			expires, _ := strconv.ParseInt(rec[2], 10, 64)
			bits := "?"
			if sl := w.served[rec[3]]; sl != nil {
				bits = fmt.Sprint(setKeys(sl.Bits), sl.Kind)
			} else if n == w.I {
				bits = "own"
			}
			fmt.Fprintf(&sb, "%s.cred{%s age=%d left=%d bits=%s};", n.name, rec[0], mins(now.Sub(time.Unix(created, 0))), mins(time.Unix(expires, 0).Sub(now)), bits)
		}
	}
	for _, u := range w.m.urls() {
		l := w.m.Lists[u]
		fmt.Fprintf(&sb, "m{%s served=%v tainted=%v};", u, setKeys(l.Served), l.Tainted)
	}
	return sb.String()
}

// ------------------------------------------------------------------ part bfs

var runSeq int

func uniq(prefix string) string { runSeq++; return fmt.Sprintf("%s_%d", prefix, runSeq) }

// build replays a history on fresh nodes inside its own sub-test (so that the repo helpers clean up at once).
func build(t *testing.T, r *ev.Run, start string, hist []event, then func(w *world)) {
	t.Run(uniq("s"), func(t *testing.T) {
		w := newWorld(t, r, start, false)
		for _, e := range hist {
			w.apply(e)
			w.checkStored()
		}
		then(w)
	})
}

func setup(t *testing.T) {
	logrus.SetOutput(io.Discard)
	logrus.SetLevel(logrus.PanicLevel)
	jsonldMgr = jsonld.NewTestJSONLDManager(t)
	// the node gives up on a bbolt lock after one second of REAL time; on a loaded machine that is a harness hazard
	storage.DefaultBBoltOptions = append(storage.DefaultBBoltOptions, stoabs.WithLockAcquireTimeout(2*time.Minute))
}

func TestVerifC11BFS(t *testing.T) {
	setup(t)
	r := ev.Start(t, "C11")
	defer r.Finish()
	r.Rule("event histories over {issue status-list / nuts credential (2 issuers), revoke(c), deliver nuts revocation(c), check (serve every page + verify every credential on both nodes), " +
		"advance clock 16m / 19h / 25h, 5 forged revocations, 6 forged lists at the named URL, 3 failures of the list endpoint (HTTP 500, network error, truncated body) at a refresh}; network revocations reach node V through the real ambassador receiver under 6 environment answers (fine, key / store time-out or cancellation once, key permanently not found) with redelivery until nothing is pending; " +
		"plus once per run: a validly signed issuer revocation whose date is -1 y ... +1 d (10 offsets) relative to the receiving node's clock, through the ambassador receiver and through RegisterRevocation, must be registered and effective; " +
		"plus once per run: every near-miss of the issuer's did:nuts and did:web identifier (prefixes, extensions, case, other method) x 2 forged shapes from two start states (fresh; issuer 1's page two slots before roll-over), " +
		"breadth-first with canonical-state de-duplication below every history prefix of length 2; a state is distinct by its canonical form")
	r.Assume("DID resolution is a static table; JSON-LD, jwx and SQLite are exercised, not modelled; node V and node I share the virtual clock; " +
		"a list validly signed by a DID other than the credential's issuer served at the named URL is recorded as an observation (DESIGN §4 row 18) and the state is not explored further")

	var rc replayCase
	if r.ReplayCase(&rc) {
		if rc.Start == "multi-entry" {
			multiEntrySweep(t, r)
			r.States(1)
			r.Transitions(1)
			return
		}
		if rc.Start == "clock-offset" {
			clockOffsetSweep(t, r)
			r.States(1)
			r.Transitions(1)
			return
		}
		if rc.Start == "external-list" {
			externalListSweep(t, r)
			r.States(1)
			r.Transitions(1)
			return
		}
		if rc.Start == "near-miss" {
			nearMissSweep(t, r)
			r.States(1)
			r.Transitions(1)
			return
		}
		build(t, r, rc.Start, rc.History, func(w *world) { r.Eval(w.canon()) })
		r.States(1)
		r.Transitions(int64(len(rc.History)))
		return
	}

	depth := 4
	// quick leaves out one forged list of the observation class and one of the three endpoint failures
	b := bounds{maxSL: 2, maxNuts: 1, advances: []string{"16m", "19h"}, maxOffset: 30 * time.Hour,
		attacks: []string{"other-subject-id", "bad-signature", "claims-issuer-signed-by-other", "wrong-purpose", "other-issuer"}, outages: []string{"http-500", "truncated-body"}}
	if r.Thorough() {
		depth = 5 // depth 6 would be about 2.7 million transitions (about 15 successors per state, 50 ms each)
		b = bounds{maxSL: 2, maxNuts: 1, advances: []string{"16m", "19h", "25h"}, maxOffset: 50 * time.Hour, attacks: attackKinds, outages: outageKinds}
	}
	outcomes := map[string]int{}
	idx, nStates := 0, 0

	// vacuity guards on honest histories: the harness must see a status-list revocation and a network revocation
	// take effect on node V (else it is broken: exit 2, never a verdict)
	build(t, r, "fresh", []event{{Op: "issueSL", I: 1}, {Op: "check"}, {Op: "revoke", C: 0}, {Op: "advance", K: "16m"}, {Op: "check"}}, func(w *world) {
		if w.verdict["verifying:ok"] != 1 || w.verdict["verifying:revoked"] != 1 || w.verdict["issuing:revoked"] != 1 {
			t.Fatalf("harness: honest status-list history gives verdicts %v", w.verdict)
		}
	})
	build(t, r, "fresh", []event{{Op: "issueNuts", I: 1}, {Op: "check"}, {Op: "revoke", C: 0}, {Op: "check"}, {Op: "deliver", C: 0}, {Op: "check"}}, func(w *world) {
		if w.verdict["verifying:ok"] != 2 || w.verdict["verifying:revoked"] != 1 {
			t.Fatalf("harness: honest nuts history gives verdicts %v", w.verdict)
		}
	})
	ws, nws := r.Shard()
	if ws == 0 {
		nearMissSweep(t, r) // bounded-exhaustive input sweep, once per run
	}
	if ws == 1%nws {
		externalListSweep(t, r) // list length x revoked index of a foreign issuer's list, once per run
	}
	if ws == 3%nws {
		clockOffsetSweep(t, r) // revocation dates ahead of / behind the receiving node's clock, once per run
	}
	if ws == 2%nws {
		multiEntrySweep(t, r) // credentials with 2-3 status entries in every order, once per run
	}
	build(t, r, "seeded", []event{{Op: "issueSL", I: 1}, {Op: "issueSL", I: 1}}, func(w *world) {
		a, b := w.m.Creds[0], w.m.Creds[1]
		if a.Index != maxIndex || b.Index != 0 || a.URL == b.URL {
			t.Fatalf("harness: seeded start does not roll over: %s#%d then %s#%d", a.URL, a.Index, b.URL, b.Index)
		}
	})
	for _, start := range []string{"fresh", "seeded"} {
		// prefixes of length <= 2 are evaluated by every worker that needs them; subtrees are split over the workers
		var first []event
		build(t, r, start, nil, func(w *world) { first = w.enabled(b) })
		for _, e1 := range first {
			var second []event
			build(t, r, start, []event{e1}, func(w *world) { second = w.enabled(b) })
			for _, e2 := range second {
				idx++
				if !r.Mine(idx) || r.Expired() {
					continue
				}
				prefix := []event{e1, e2}
				sys := space.System[event]{
					Build: func(hist []event) (any, func()) {
						var keep *world
						full := append(append([]event{}, prefix...), hist...)
						build(t, r, start, full, func(w *world) {
							keep = w
							keep.canonCache = w.canon()
							keep.enabledCache = w.enabled(b)
							for k, v := range w.verdict {
								outcomes[k] += v
							}
						})
						if keep == nil {
							t.Fatalf("harness: building the state for %v failed", full)
						}
						return keep, func() {}
					},
					Enabled: func(inst any, _ []event) []event { return inst.(*world).enabledCache },
					Canon:   func(inst any) string { return inst.(*world).canonCache },
					Invariant: func(inst any, h []event) {
						w := inst.(*world)
						r.Eval(w.canonCache)
						if nStates++; nStates%997 == 3 {
							r.Sample(map[string]any{"start": start, "history": fmt.Sprint(w.hist), "state": w.canonCache})
						}
					},
					MaxDepth: depth - 2,
					Budget:   r.Expired,
				}
				res := space.BFS(sys)
				r.States(res.States)
				r.Transitions(res.Transitions)
				if !res.Exhaustive {
					r.NotExhaustive("bfs subtree cut short by the wall-clock budget")
				}
			}
		}
	}
	r.Bound("history_depth", depth)
	r.Bound("status_list_credentials_per_issuer", b.maxSL)
	r.Bound("prefixes_of_length_2", idx)
	for k := range outcomes {
		r.Outcome(k)
	}
}

// ------------------------------------------------------------------ part sched

type schedCase struct {
	Start    string `json:"start"`   // first | mid | rollover
	Threads  string `json:"threads"` // e.g. "EE", "EERC"
	Schedule []int  `json:"schedule,omitempty"`
}

func TestVerifC11Sched(t *testing.T) {
	setup(t)
	r := ev.Start(t, "C11")
	defer r.Finish()
	r.Rule("all interleavings (no preemption bound, except the four-thread set of the thorough tier: complete up to 3 preemptions) of concurrent StatusList2021.Entry calls, optionally with a Revoke of an earlier entry and a Credential() of the page, " +
		"scheduling points at SQL transaction begin and at every standalone statement (the single SQLite connection is a virtual lock); start states: no page yet, page in use, page one slot before roll-over; round 6: the age of the stored list is part of the start state (fresh / 19 h old = inside the 6 h re-issue margin / 25 h old = expired) with Revoke x Credential and Credential x Credential (thorough: + Entry, three threads) and further scheduling points at key resolution (thorough: and signing); afterwards the stored and the next served list must show every revocation answered with success")
	r.Assume("inside one SQL transaction no other thread runs (SQLite with one connection); SELECT FOR UPDATE semantics of server databases are not explored")

	// Round 6: the state of the stored list is a dimension of the start state. "mid" = list fresh (Credential() returns
	// it as stored); "mid-window" = 19 h old, inside the 6 h re-issue margin; "mid-expired" = 25 h old: in both,
	// Credential() re-signs the list, with scheduling points at key resolution, signing and every SQL statement.
	starts := []string{"first", "mid", "rollover", "mid-window", "mid-expired"}
	// E = Entry (2 steps: start, transaction), R = Revoke (start, key, 2 statements, transaction), C = Credential (3; re-issue: 2 statements, key, transaction)
	threadSets := []string{"EE", "EEE", "EER", "EEC", "RC", "CC"} // 6, 90, 420, 210 interleavings, ...
	if r.Thorough() {
		threadSets = []string{"EE", "EEE", "EER", "EEC", "RC", "CC", "ERC", "RCC", "EERC"} // + 1 260 (complete), 69 300 (up to 3 preemptions)
	}
	reissue := func(start string) bool { return start == "mid-window" || start == "mid-expired" }
	deadline := time.Now().Add(10 * time.Minute)
	if v, err := strconv.Atoi(os.Getenv("VERIF_BUDGET_S")); err == nil && v > 0 {
		deadline = time.Now().Add(time.Duration(v) * time.Second * 9 / 10)
	}
	var rc schedCase
	replay := r.ReplayCase(&rc)
	shard, nsh := r.Shard()
	total := int64(0)
	for _, start := range starts {
		for _, ths := range threadSets {
			if start == "first" && strings.ContainsAny(ths, "RC") {
				continue
			}
			if ths == "EERC" && start != "rollover" {
				continue // 69 300 interleavings: explored from the roll-over start state only
			}
			if reissue(start) && !strings.Contains(ths, "C") {
				continue // the age of the list matters to Credential() only
			}
			if (ths == "RC" || ths == "CC") && !(reissue(start) || start == "mid") {
				continue
			}
			if ths == "RCC" && !reissue(start) {
				continue
			}
			if reissue(start) && !r.Thorough() && !(ths == "RC" || (ths == "CC" && start == "mid-window")) {
				continue // quick: Revoke x Credential in both re-issue states, two re-issues in one
			}
			if replay && (rc.Start != start || rc.Threads != ths) {
				continue
			}
			if only := os.Getenv("C11_SCHED_ONLY"); only != "" && only != start+"/"+ths {
				continue
			}
			opts := sched.Options{Bound: -1, Shard: shard, NSh: nsh, SelfCheck: true, MaxSteps: 5000, Deadline: deadline}
			if ths == "EERC" || ths == "RCC" || (reissue(start) && len(ths) >= 3) {
				// four threads, 11 steps: 69 300 interleavings; explored completely up to 3 preemptions (CHESS bound)
				opts.Bound = 3
				r.Bound("preemption_bound "+start+"/"+ths, 3)
			}
			if replay {
				opts.Replay = rc.Schedule
				if opts.Replay == nil {
					opts.Replay = []int{}
				}
			}
			res := sched.Explore(opts, func(x *sched.Exec) func(x *sched.Exec) {
				return schedSetup(t, r, x, start, ths)
			})
			total += res.Executions
			r.Bound("schedules "+start+"/"+ths, res.Executions)
			if !res.Exhaustive {
				r.NotExhaustive("schedule exploration capped: " + res.Capped)
			}
			for _, e := range res.Errors {
				t.Fatalf("harness: scheduler: %s", e)
			}
			if res.Deadlocks > 0 {
				r.Observation("deadlock-under-virtual-connection-lock", fmt.Sprintf("%s/%s: %d schedules", start, ths, res.Deadlocks))
			}
			if r.Expired() {
				break
			}
		}
	}
	r.AddExtra("schedules", total)
	if lastScope != nil {
		lastScope.close()
		lastScope = nil
	}
	if os.Getenv("C11_DEBUG_DUMP") != "" {
		time.Sleep(2 * time.Second)
		buf := make([]byte, 1<<20)
		n := runtime.Stack(buf, true)
		fmt.Printf("DUMP\n%s\n", buf[:n])
	}
}

// scope is a testing.TB whose clean-ups and temp dirs are released by the harness, not at the end of the test.
type scope struct {
	testing.TB
	cleanups []func()
}

func (s *scope) Cleanup(f func()) { s.cleanups = append(s.cleanups, f) }
func (s *scope) TempDir() string {
	d, err := os.MkdirTemp("", "c11x")
	if err != nil {
		s.TB.Fatal(err)
	}
	s.cleanups = append(s.cleanups, func() { _ = os.RemoveAll(d) })
	return d
}
func (s *scope) close() {
	for i := len(s.cleanups) - 1; i >= 0; i-- {
		s.cleanups[i]()
	}
	s.cleanups = nil
}

var lastScope *scope

func schedSetup(t *testing.T, r *ev.Run, x *sched.Exec, start, ths string) func(x *sched.Exec) {
	var done func(x *sched.Exec)
	// The scheduler does not call the check function for its self-check replays, so the life time of a world cannot
	// hang on it: every execution gets a scope whose clean-ups run when the next execution is set up.
	if lastScope != nil {
		lastScope.close()
	}
	lastScope = &scope{TB: t}
	w := newWorld2(lastScope, r, "fresh", true, false)
	d := issuerDID(1, true)
	violation := func(clause, what string, x *sched.Exec) {
		r.Violation("C11|sched|"+clause+"|"+start+"/"+ths, fmt.Sprintf("%s [start %s, threads %s, trace %v]", what, start, ths, x.Trace),
			schedCase{Start: start, Threads: ths, Schedule: x.Choices()})
	}
	type slot struct {
		url string
		idx int
	}
	// scheduling points at the environment calls of the issuer half: key resolution and signing (no-ops outside threads)
	// (for the thread sets of round 6; the earlier sets keep their granularity: transaction begin / standalone statement)
	origKey, origSign := w.I.status.ResolveKey, w.I.status.Sign
	envPoints := start == "mid-window" || start == "mid-expired" || ths == "RC" || ths == "CC" || ths == "RCC"
	w.I.status.ResolveKey = func(id did.DID, at *time.Time, rel resolver.RelationType) (string, stdcrypto.PublicKey, error) {
		if envPoints {
			sched.Point("resolve-key")
		}
		return origKey(id, at, rel)
	}
	w.I.status.Sign = func(ctx context.Context, unsigned vc.VerifiableCredential, kid string) (*vc.VerifiableCredential, error) {
		if envPoints && r.Thorough() { // inside a transaction in the unchanged code: quick keeps the point at key resolution only
			sched.Point("sign")
		}
		return origSign(ctx, unsigned, kid)
	}
	var prior []slot
	var entry0 *revocation.StatusList2021Entry
	if start != "first" {
		e, err := w.I.status.Entry(w.ctx, d, revocation.StatusPurposeRevocation)
		if err != nil {
			t.Fatal(err)
		}
		entry0 = e
		i, _ := strconv.Atoi(e.StatusListIndex)
		prior = append(prior, slot{e.StatusListCredential, i})
		w.registerURL(e.StatusListCredential, d)
		w.m.handOut(e.StatusListCredential, 1, i, -1)
		if start == "rollover" {
			if _, err := w.I.sqldb.Exec("UPDATE status_list SET last_issued_index = ? WHERE subject_id = ?", maxIndex-1, e.StatusListCredential); err != nil {
				t.Fatal(err)
			}
		}
		switch start {
		case "mid-window":
			vtime.Advance(19 * time.Hour)
		case "mid-expired":
			vtime.Advance(25 * time.Hour)
		}
	}
	entries := make([]*revocation.StatusList2021Entry, len(ths))
	errs := make([]error, len(ths))
	servedBy := make([]*vc.VerifiableCredential, len(ths))
	for i, th := range ths {
		i := i
		switch th {
		case 'E':
			x.Go(fmt.Sprintf("entry%d", i), func() {
				entries[i], errs[i] = w.I.status.Entry(w.ctx, d, revocation.StatusPurposeRevocation)
			})
		case 'R':
			x.Go("revoke", func() {
				errs[i] = w.I.status.Revoke(w.ctx, ssi.MustParseURI(d.String()+"#6f7ad0c4-1d9c-4b8e-9d0a-0a9c0c0f3a11"), *entry0)
			})
		case 'C':
			x.Go(fmt.Sprintf("credential%d", i), func() {
				servedBy[i], errs[i] = w.I.status.Credential(w.ctx, d, 1)
			})
		}
	}
	done = func(x *sched.Exec) {
		if x.Deadlock || x.Diverged != "" || x.Horizon {
			return
		}
		for i, p := range x.Panics() {
			if p != nil {
				t.Fatalf("harness: thread %d panicked: %v", i, p)
			}
		}
		seen := map[slot]string{}
		for _, s := range prior {
			seen[s] = "earlier"
		}
		var got []string
		revoked := false
		for i, th := range ths {
			switch th {
			case 'E':
				if errs[i] != nil {
					r.Observation("concurrent-entry-error", errs[i].Error())
					continue
				}
				idx, _ := strconv.Atoi(entries[i].StatusListIndex)
				s := slot{entries[i].StatusListCredential, idx}
				if who, dup := seen[s]; dup {
					violation("slot-shared", fmt.Sprintf("position %s#%d was handed out twice (%s and entry%d)", s.url, s.idx, who, i), x)
				}
				seen[s] = fmt.Sprintf("entry%d", i)
				w.registerURL(s.url, d)
				w.m.handOut(s.url, 1, s.idx, i)
				got = append(got, fmt.Sprintf("p%d#%d", w.http.routes[s.url].Page, s.idx))
			case 'R':
				revoked = errs[i] == nil
				if errs[i] != nil {
					r.Observation("concurrent-revoke-error", errs[i].Error())
				}
			case 'C':
				if errs[i] != nil {
					r.Observation("concurrent-credential-error", errs[i].Error())
				} else if served := servedBy[i]; served != nil {
					now := vtime.Now()
					if err := w.I.ver.VerifySignature(*served, &now); err != nil {
						violation("served-list-not-validly-signed", err.Error(), x)
					}
					if subj, err := subjectOf(served); err == nil {
						bits, _, _ := decodeBits(subj.EncodedList)
						for b := range bits {
							if b != prior[0].idx {
								violation("bit-set-without-revoke", fmt.Sprintf("bit %d set in the list served during the run", b), x)
							}
						}
					}
				}
			}
		}
		if revoked {
			w.m.Lists[prior[0].url].Revoked[prior[0].idx] = true
		}
		// afterwards, sequentially: every page is served, signed, and shows exactly the issuer's revocations;
		// the counters cover every slot handed out
		w.scenario, w.replay = "sched", schedCase{Start: start, Threads: ths, Schedule: x.Choices()}
		w.hist = []event{{Op: "sched", K: start + "/" + ths}}
		w.checkStored() // the list the node holds shows every revocation that was answered with success
		for _, u := range w.m.urls() {
			w.serve(u)
		}
		last := map[string]int{}
		for _, rec := range queryRows(t, w.I.sqldb, "SELECT subject_id, last_issued_index FROM status_list") {
			last[rec[0]], _ = strconv.Atoi(rec[1])
		}
		for s := range seen {
			if l, ok := last[s.url]; !ok || l < s.idx {
				violation("counter-behind-slot", fmt.Sprintf("position %s#%d was handed out but the page counter is %d (the slot will be handed out again)", s.url, s.idx, l), x)
			}
		}
		key := fmt.Sprintf("%s/%s/%v", start, ths, x.Choices())
		r.Eval(key)
		r.Outcome(fmt.Sprintf("%s/%s slots=%v revoked=%v", start, ths, got, revoked))
		r.Transitions(int64(len(x.Trace)))
		r.States(1)
	}
	return done
}
