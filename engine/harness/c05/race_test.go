package c05

import (
	"fmt"
	"io"
	"os"
	"os/exec"
	"path/filepath"
	"regexp"
	"sort"
	"strings"
	"sync"
	"testing"
	"time"

	"github.com/sirupsen/logrus"

	"github.com/nuts-foundation/nuts-node/verifshim/vtime"

	"verif/ev"
)

// The free-running pass (DESIGN 2.1): the same thread bodies WITHOUT the scheduler, built with -race. Hand-offs under
// the baton are happens-before edges and blind the detector, so this pass is the only one that can see an
// unsynchronised access between two scheduling points. It decides nothing about the property: its result is an
// assumption check on the granularity of the exploration.
//
// The workload runs in a child process (GORACE: do not halt, exit code 0, reports to files), because the testing
// package fails a test during which the detector reported anything, and a failing worker without a violation is a
// machinery error for the driver.

const raceChildEnv = "VERIF_C05_RACE_CHILD"

func raceWorkload(t *testing.T) {
	t0 := time.Now().Truncate(time.Second)
	vtime.Freeze(t0)
	w := newWorld(t, t0)
	h := &harness{t: t, w: w}
	ks := h.kinds()
	rounds := 150
	total := 0
	for _, kn := range kindOrder {
		k := ks[kn]
		for i := 0; i < rounds; i++ {
			w.fresh(k.Alias)
			k.Seed()
			var wg sync.WaitGroup
			start := make(chan struct{})
			ok := make([]bool, 3)
			for j := 0; j < 3; j++ {
				j := j
				wg.Add(1)
				go func() {
					defer wg.Done()
					<-start
					rq := k.Good
					if j == 2 && i%2 == 1 {
						rq = k.GoodB
					}
					ok[j] = k.OK(w.do(rq))
				}()
			}
			close(start)
			wg.Wait()
			total++
			if !ok[0] && !ok[1] && !ok[2] {
				t.Fatalf("harness: race workload: %s: no request succeeded", kn)
			}
		}
	}
	fmt.Printf("RACE-WORKLOAD rounds=%d\n", total)
}

var raceFrame = regexp.MustCompile(`^\s+([^\s(]+)\(`)

// summarise reduces the detector's reports to "kind of access: top frames" lines (function names only).
func summarise(report string) []string {
	var out []string
	for _, block := range strings.Split(report, "==================") {
		if !strings.Contains(block, "DATA RACE") {
			continue
		}
		var parts []string
		lines := strings.Split(block, "\n")
		for i, l := range lines {
			if strings.HasPrefix(l, "Write at") || strings.HasPrefix(l, "Read at") || strings.HasPrefix(l, "Previous write at") ||
				strings.HasPrefix(l, "Previous read at") {
				var frames []string
				for _, f := range lines[i+1:] {
					m := raceFrame.FindStringSubmatch(f)
					if m == nil {
						if strings.TrimSpace(f) == "" {
							break
						}
						continue
					}
					frames = append(frames, m[1])
					if len(frames) == 4 {
						break
					}
				}
				parts = append(parts, strings.Fields(l)[0]+" "+strings.Join(frames, " < "))
			}
		}
		out = append(out, strings.Join(parts, "  ||  "))
	}
	sort.Strings(out)
	var uniq []string
	for i, s := range out {
		if i == 0 || s != out[i-1] {
			uniq = append(uniq, s)
		}
	}
	return uniq
}

func TestVerifC05Race(t *testing.T) {
	logrus.SetOutput(io.Discard)
	logrus.SetLevel(logrus.PanicLevel)
	if os.Getenv(raceChildEnv) == "1" {
		raceWorkload(t)
		return
	}
	r := ev.Start(t, "C05")
	defer r.Finish()
	if os.Getenv("VERIF_REPLAY") != "" {
		return // a replay runs exactly one case of the schedule part
	}
	r.Rule("free-running pass: per secret kind 150 rounds of 3 unscheduled goroutines sending the same requests as the schedule exploration to a fresh store, built with -race (assumption check only)")
	const name = "free-running -race pass: no unsynchronised access between two store operations of concurrent requests"
	if !raceEnabled {
		r.AssumptionCheck(name, false, "binary was not built with -race; pass skipped")
		return
	}
	dir := t.TempDir()
	cmd := exec.Command(os.Args[0], "-test.run", "^TestVerifC05Race$", "-test.count=1", "-test.timeout", "240s")
	cmd.Env = append(os.Environ(), raceChildEnv+"=1", "GORACE=halt_on_error=0 exitcode=0 log_path="+filepath.Join(dir, "race"),
		"VERIF_REPORT=", "VERIF_REPLAY=")
	out, err := cmd.CombinedOutput()
	files, _ := filepath.Glob(filepath.Join(dir, "race*"))
	var report strings.Builder
	for _, f := range files {
		b, _ := os.ReadFile(f)
		report.Write(b)
	}
	races := summarise(report.String())
	if !strings.Contains(string(out), "RACE-WORKLOAD rounds=") {
		t.Fatalf("harness: race workload did not complete: %v\n%s", err, clip(string(out)))
	}
	r.Eval("race-pass")
	r.Outcome(fmt.Sprintf("race-pass:%d-reports", len(races)))
	if len(races) == 0 {
		r.AssumptionCheck(name, true, "900 rounds (6 request kinds x 150) of 3 free-running requests, 0 reports")
		return
	}
	if len(races) > 12 {
		races = append(races[:12], fmt.Sprintf("... %d more", len(races)-12))
	}
	r.AssumptionCheck(name, false, strings.Join(races, "\n"))
}
