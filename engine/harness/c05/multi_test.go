package c05

import (
	"encoding/json"
	"fmt"
	"sort"
	"strings"
	"time"

	"github.com/nuts-foundation/nuts-node/auth/api/iam"
	"github.com/nuts-foundation/nuts-node/vcr/holder"

	"verif/sched"
)

// Requests that carry SEVERAL secrets. Two of the five kinds allow it: the vp_token-bearer grant (assertion = array of
// presentations, each with its own nonce) and the OpenID4VP authorization response (vp_token = array of presentations;
// the verifier demands one common nonce, so arrays with different nonces are refused by design - enumerated all the
// same). An authorization code, a request-object id and a DPoP proof are single-valued by the shape of the request.
//
// Oracle, from the statement ("each ... is honoured at most once"): a request that SUCCEEDS must not carry any secret
// that another successful request carried, whatever its position in the request.

type multiKind struct {
	K    *kindSpec // kind data shared with the single-secret scenarios (OK predicate, burn operation, signature name)
	Key  func(name string) string
	Seed func(names []string)
	Req  func(names []string) reqSpec
	Full bool // distinct secrets in one request can succeed (s2s); false: the handler demands one common nonce
}

var multiNames = []string{"A", "B", "C", "X", "Y", "Z", "P", "Q", "R"}

func envelope(vps []string) string {
	if len(vps) == 1 {
		return vps[0]
	}
	b, _ := json.Marshal(vps)
	return string(b)
}

func (h *harness) multiKinds(ks map[string]*kindSpec) []*multiKind {
	w := h.w
	cache := map[string]string{}
	vp := func(kind, name string, validity time.Duration) string {
		if s, ok := cache[kind+name]; ok {
			return s
		}
		s := w.presentation(holder.JWTPresentationFormat, "M-"+name, w.t0, validity)
		cache[kind+name] = s
		return s
	}
	alias := func(prefix, tag string) map[string]string {
		m := map[string]string{"oauth/client_state/STATE-M": "state:M"}
		for _, n := range multiNames {
			m[prefix+"M-"+n] = tag + ":" + n
		}
		return m
	}
	s2s := *ks["s2s-nonce"]
	s2s.Alias = alias("s2s/nonce/", "s2snonce")
	vpn := *ks["vp-nonce"]
	vpn.Alias = alias("oauth/nonce/", "vpnonce")
	return []*multiKind{
		{K: &s2s, Full: true,
			Key:  func(n string) string { return "s2s/nonce/M-" + n },
			Seed: func([]string) {},
			Req: func(names []string) reqSpec {
				var vps []string
				for _, n := range names {
					vps = append(vps, vp("s2s", n, iam.VerifS2SMaxPresentationValidity))
				}
				return w.s2sReq(envelope(vps))
			}},
		{K: &vpn,
			Key: func(n string) string { return "oauth/nonce/M-" + n },
			Seed: func(names []string) {
				w.seedVPSession("STATE-M", "M-"+names[0])
				for _, n := range names[1:] {
					if err := w.sessionStore(time.Minute, "oauth", "nonce").Put("M-"+n, "STATE-M"); err != nil {
						w.t.Fatal(err)
					}
				}
			},
			Req: func(names []string) reqSpec {
				var vps []string
				for _, n := range names {
					vps = append(vps, vp("vp", n, time.Hour))
				}
				return w.vpResponseReq("STATE-M", envelope(vps))
			}},
	}
}

// firstRequests: every request of up to maxK secrets up to renaming (set partitions in first-occurrence order):
// A | AA AB | AAA AAB ABA ABB ABC.
func firstRequests(maxK int) [][]string {
	var out [][]string
	var rec func(cur []string, used int)
	rec = func(cur []string, used int) {
		if len(cur) > 0 {
			out = append(out, append([]string{}, cur...))
		}
		if len(cur) == maxK {
			return
		}
		for i := 0; i <= used && i < 3; i++ {
			nu := used
			if i == used {
				nu++
			}
			rec(append(cur, multiNames[i]), nu)
		}
	}
	rec(nil, 0)
	return out
}

// laterRequests: every request of up to maxK positions, each position one of the `old` secrets or a fresh one; fresh
// secrets are introduced in the fixed order given by `fresh` (renaming symmetry).
func laterRequests(old []string, fresh []string, maxK int) [][]string {
	var out [][]string
	var rec func(cur []string, nfresh int)
	rec = func(cur []string, nfresh int) {
		if len(cur) > 0 {
			out = append(out, append([]string{}, cur...))
		}
		if len(cur) == maxK {
			return
		}
		for _, o := range old {
			rec(append(cur, o), nfresh)
		}
		for i := 0; i <= nfresh && i < len(fresh); i++ {
			nf := nfresh
			if i == nfresh {
				nf++
			}
			rec(append(cur, fresh[i]), nf)
		}
	}
	rec(nil, 0)
	return out
}

func distinct(names ...[]string) []string {
	seen := map[string]bool{}
	var out []string
	for _, l := range names {
		for _, n := range l {
			if !seen[n] {
				seen[n] = true
				out = append(out, n)
			}
		}
	}
	return out
}

// pattern: per position of request j - 'd' the secret already occurs earlier in this request, 'u' an earlier SUCCESSFUL
// request carried it, 'p' only earlier refused requests carried it, 'f' fresh.
func pattern(reqs [][]string, ok []bool, j int) string {
	var b strings.Builder
	for p, s := range reqs[j] {
		c := byte('f')
		for i := 0; i < j; i++ {
			for _, t := range reqs[i] {
				if t == s {
					if ok[i] {
						c = 'u'
					} else if c != 'u' {
						c = 'p'
					}
				}
			}
		}
		for _, t := range reqs[j][:p] {
			if t == s {
				c = 'd'
			}
		}
		b.WriteByte(c)
	}
	return b.String()
}

func (h *harness) runMultiSeq(mk *multiKind, reqs [][]string) []bool {
	w := h.w
	w.fresh(mk.K.Alias)
	mk.Seed(distinct(reqs...))
	var ok []bool
	for _, r := range reqs {
		ok = append(ok, mk.K.OK(w.do(mk.Req(r))))
	}
	return ok
}

// multiSequential enumerates sequences of nReq requests (each after the previous one returned).
func (h *harness) multiSequential(mk *multiKind, name string, nReq int, maxK int) {
	r := h.r
	// vacuity: a request carrying only fresh secrets is honoured (all distinct where the handler allows that)
	probe := [][]string{{"A"}, {"A", "B"}, {"A", "B", "C"}}
	if !mk.Full {
		probe = [][]string{{"A"}}
	}
	for _, p := range probe {
		if ok := h.runMultiSeq(mk, [][]string{p}); !ok[0] {
			h.t.Fatalf("harness: %s: honest request carrying %v refused", name, p)
		}
	}
	runs := 0
	var rec func(reqs [][]string)
	rec = func(reqs [][]string) {
		if len(reqs) == nReq {
			if r.Expired() {
				return
			}
			runs++
			ok := h.runMultiSeq(mk, reqs)
			r.Eval(name + fmt.Sprint(reqs))
			r.Transitions(int64(len(reqs)))
			nok := 0
			for _, o := range ok {
				if o {
					nok++
				}
			}
			r.Outcome(fmt.Sprintf("%s%s:multi-secret:sequential:%d-of-%d-succeed", mk.K.Kind, modeTag(h.w.mode), nok, len(reqs)))
			for j := range reqs {
				if !ok[j] {
					continue
				}
				if pat := pattern(reqs, ok, j); strings.ContainsRune(pat, 'u') {
					again := h.runMultiSeq(mk, reqs)
					if fmt.Sprint(again) != fmt.Sprint(ok) {
						h.t.Fatalf("harness: %s: %v is not reproducible", name, reqs)
					}
					r.Violation("C05|"+sigKind(mk.K, h.w.mode)+"|multi-secret|sequential|replay-accepted|"+pat,
						fmt.Sprintf("%s: requests %v (each after the previous one returned) were answered %v: request %d succeeded although it carries a secret "+
							"that an earlier successful request carried (positions: %s; u = used, f = fresh, d = duplicate within the request, p = presented before but refused)",
							name, reqs, ok, j+1, pat),
						replayCase{Item: name, Requests: map[string]any{"requests": reqs, "succeeded": ok}})
				}
			}
			return
		}
		if len(reqs) == 0 {
			for _, f := range firstRequests(maxK) {
				rec([][]string{f})
			}
			return
		}
		fresh := multiNames[3*len(reqs) : 3*len(reqs)+3]
		for _, l := range laterRequests(distinct(reqs...), fresh, maxK) {
			rec(append(append([][]string{}, reqs...), l))
		}
	}
	rec(nil)
	r.Bound(name, fmt.Sprintf("%d requests of <=%d secrets each, %d sequences", nReq, maxK, runs))
}

// multiScenarios: two concurrent requests that share at least one secret, complete interleaving space.
func (h *harness) multiScenarios(mks []*multiKind) []*scenario {
	var out []*scenario
	maxK := 2
	for _, mk := range mks {
		if !mk.Full {
			continue // different nonces in one authorization response are refused before any nonce is read
		}
		for _, a := range firstRequests(maxK) {
			for _, b := range laterRequests(distinct(a), multiNames[3:6], maxK) {
				shared := false
				for _, s := range b {
					for _, t := range a {
						shared = shared || s == t
					}
				}
				if !shared || (len(a) == 1 && len(b) == 1) {
					continue // nothing in common, or the single-secret scenario that exists already
				}
				k, names := *mk.K, distinct(a, b)
				k.Seed = func() { mk.Seed(names) }
				out = append(out, &scenario{K: &k, Multi: mk, Bound: -1,
					Name: mk.K.Kind + "/multi/" + strings.Join(a, "") + "||" + strings.Join(b, ""),
					Threads: []threadSpec{
						{Name: "r0", Req: mk.Req(a), Same: true, Carries: a},
						{Name: "r1", Req: mk.Req(b), Same: true, Carries: b}}})
			}
		}
	}
	return out
}

// judgeMulti: two successful requests must not have a secret in common. The shape is taken per common secret exactly
// as in judgeSingle; when every common secret shows the plain known window the signature is the known one.
func (h *harness) judgeMulti(sc *scenario, x *sched.Exec, ops []opRec, tids []int, out []response) verdict {
	mk := sc.Multi
	v := verdict{}
	for i := range sc.Threads {
		v.Statuses = append(v.Statuses, out[i].Status)
		if sc.K.OK(out[i]) {
			v.Successes = append(v.Successes, i)
		}
	}
	if len(v.Successes) < 2 {
		return v
	}
	var common []string
	for _, s := range distinct(sc.Threads[0].Carries) {
		for _, t := range distinct(sc.Threads[1].Carries) {
			if s == t {
				common = append(common, s)
			}
		}
	}
	sort.Strings(common)
	plain := "reads-before-first-" + sc.K.Burn
	worst := plain
	for _, name := range common {
		key := mk.Key(name)
		firstBurn := len(ops)
		for i, o := range ops {
			if o.Key == key && o.Op == sc.K.Burn && o.Fault != 1 {
				firstBurn = i
				break
			}
		}
		for _, s := range v.Successes {
			shape := plain
			read := -1
			for i, o := range ops {
				if tids[i] == s && o.Key == key && o.Op == "get" {
					read = i
					break
				}
			}
			switch {
			case read < 0:
				shape = "success-without-read"
			case read > firstBurn:
				shape = "read-after-" + sc.K.Burn
			default:
				tight := false
				for i := read + 1; i < len(ops); i++ {
					if tids[i] == s {
						tight = ops[i].Key == key && ops[i].Op == sc.K.Burn && ops[i].Fault != 1
						break
					}
				}
				if !tight {
					shape = plain + "|burn-not-next-to-read"
				}
			}
			if shape != plain {
				worst = shape
			}
		}
	}
	if worst == plain {
		v.Sig = "C05|" + sigKind(sc.K, sc.Mode) + "|concurrent|" + plain
	} else {
		v.Sig = "C05|" + sigKind(sc.K, sc.Mode) + "|multi-secret|concurrent|" + worst
	}
	v.What = fmt.Sprintf("%s: both concurrent requests succeeded although they have the secret(s) %v in common (%s); schedule %v",
		sc.Name, common, worst, x.Choices())
	return v
}
