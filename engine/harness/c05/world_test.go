package c05

import (
	"context"
	"crypto"
	"crypto/ecdsa"
	"crypto/elliptic"
	"crypto/rand"
	"crypto/sha256"
	"encoding/base64"
	"encoding/json"
	"net/http"
	"net/http/httptest"
	"net/url"
	"strings"
	"testing"
	"time"

	"github.com/labstack/echo/v4"
	"github.com/lestrrat-go/jwx/v2/jwa"
	"github.com/lestrrat-go/jwx/v2/jwk"
	"github.com/lestrrat-go/jwx/v2/jwt"
	"github.com/nuts-foundation/go-did/did"

	"github.com/nuts-foundation/nuts-node/audit"
	"github.com/nuts-foundation/nuts-node/auth"
	"github.com/nuts-foundation/nuts-node/auth/api/iam"
	"github.com/nuts-foundation/nuts-node/core"
	nutsCrypto "github.com/nuts-foundation/nuts-node/crypto"
	"github.com/nuts-foundation/nuts-node/crypto/dpop"
	"github.com/nuts-foundation/nuts-node/jsonld"
	"github.com/nuts-foundation/nuts-node/storage"
	"github.com/nuts-foundation/nuts-node/vcr"
	"github.com/nuts-foundation/nuts-node/vcr/holder"
	"github.com/nuts-foundation/nuts-node/vcr/pe"
	"github.com/nuts-foundation/nuts-node/vcr/signature/proof"
	"github.com/nuts-foundation/nuts-node/vdr/didjwk"
	"github.com/nuts-foundation/nuts-node/vdr/didsubject"
	"github.com/nuts-foundation/nuts-node/vdr/resolver"
)

const (
	subject   = "alice"
	publicURL = "https://as.example"
	clientID  = "https://client.example/oauth2/bob"
	scope     = "verif-scope"
	pdID      = "pd-verif"
)

// ---- stubs for collaborators that no clause of the property is about (they hold no secret state)

type authStub struct {
	auth.AuthenticationServices // nil: any other call would be a harness error (nil dereference inside a thread is reported)
	url                         *url.URL
}

func (a authStub) PublicURL() *url.URL                { return a.url }
func (a authStub) AuthorizationEndpointEnabled() bool { return true }
func (a authStub) SupportedDIDMethods() []string      { return []string{"web", "jwk"} }

type subjectStub struct {
	didsubject.Manager
	dids []did.DID
}

func (s subjectStub) Exists(_ context.Context, id string) (bool, error) { return id == subject, nil }
func (s subjectStub) ListDIDs(_ context.Context, id string) ([]did.DID, error) {
	if id != subject {
		return nil, didsubject.ErrSubjectNotFound
	}
	return s.dids, nil
}

type policyStub struct{ mapping pe.WalletOwnerMapping }

func (p policyStub) PresentationDefinitions(_ context.Context, sc string) (pe.WalletOwnerMapping, error) {
	if sc != scope {
		return nil, errNoScope
	}
	return p.mapping, nil
}

type harnessError string

func (e harnessError) Error() string { return string(e) }

const errNoScope = harnessError("unknown scope")

// engine is the real storage engine with the session database replaced by the one built over the scheduled
// store; it is swapped for a fresh one before every execution.
type engine struct {
	storage.Engine
	db storage.SessionDatabase
}

func (e *engine) GetSessionDatabase() storage.SessionDatabase { return e.db }

// ---- the world

type world struct {
	mode     string // back-end answer semantics of every store created by fresh() (see store_test.go)
	t        *testing.T
	e        *echo.Echo
	eng      *engine
	st       *vstore
	vcr      vcr.TestVCRContext
	ownDID   did.DID
	holder   did.DID
	baseURL  string // https://as.example/oauth2/alice — audience of presentations, client_id of request objects
	pd       pe.PresentationDefinition
	dpopKey  *ecdsa.PrivateKey
	dpopJKT  string
	verifier string // PKCE
	t0       time.Time
}

func didJWKName(pub crypto.PublicKey) (string, error) {
	k, err := jwk.FromRaw(pub)
	if err != nil {
		return "", err
	}
	b, err := json.Marshal(k)
	if err != nil {
		return "", err
	}
	return "did:jwk:" + base64.RawStdEncoding.EncodeToString(b) + "#0", nil
}

func newWorld(t *testing.T, t0 time.Time) *world {
	w := &world{t: t, t0: t0, verifier: "verif-pkce-verifier-0123456789-0123456789-0123"}
	ks := nutsCrypto.NewMemoryCryptoInstance(t)
	w.vcr = vcr.NewTestVCRContext(t, ks)
	newDID := func() did.DID {
		ref, _, err := ks.New(audit.TestContext(), didJWKName)
		if err != nil {
			t.Fatal(err)
		}
		d, err := did.ParseDIDURL(ref.KID)
		if err != nil {
			t.Fatal(err)
		}
		return d.DID
	}
	w.ownDID, w.holder = newDID(), newDID()
	pub, _ := url.Parse(publicURL)
	w.baseURL = publicURL + "/oauth2/" + subject
	if err := json.Unmarshal([]byte(`{"id":"`+pdID+`","input_descriptors":[]}`), &w.pd); err != nil {
		t.Fatal(err)
	}
	w.eng = &engine{Engine: w.vcr.Storage}
	w.fresh(nil)
	wrapper := iam.New(authStub{url: pub}, w.vcr.VCR, resolver.DIDKeyResolver{Resolver: didjwk.NewResolver()},
		subjectStub{dids: []did.DID{w.ownDID}}, w.eng, policyStub{mapping: pe.WalletOwnerMapping{pe.WalletOwnerOrganization: w.pd}},
		ks, jsonld.NewTestJSONLDManager(t))
	w.e = echo.New()
	w.e.HTTPErrorHandler = core.CreateHTTPErrorHandler()
	wrapper.Routes(w.e)

	var err error
	if w.dpopKey, err = ecdsa.GenerateKey(elliptic.P256(), rand.Reader); err != nil {
		t.Fatal(err)
	}
	pk, _ := jwk.FromRaw(w.dpopKey.Public())
	tp, _ := pk.Thumbprint(crypto.SHA256)
	w.dpopJKT = base64.RawURLEncoding.EncodeToString(tp)
	return w
}

// fresh replaces the session database by a new, empty one over a new scheduled store.
func (w *world) fresh(alias map[string]string) *vstore {
	if alias == nil {
		alias = map[string]string{}
	}
	w.st = newVStore(alias)
	w.st.mode = w.mode
	w.eng.db = w.st.database()
	return w.st
}

func (w *world) sessionStore(ttl time.Duration, keys ...string) storage.SessionStore {
	return w.eng.db.GetStore(ttl, keys...)
}

// ---- requests

type reqSpec struct {
	Method  string            `json:"method"`
	Path    string            `json:"path"`
	CT      string            `json:"content_type,omitempty"`
	Body    string            `json:"body,omitempty"`
	Headers map[string]string `json:"headers,omitempty"`
}

type response struct {
	Status int
	Body   string
}

func form(kv ...string) string {
	v := url.Values{}
	for i := 0; i+1 < len(kv); i += 2 {
		v.Set(kv[i], kv[i+1])
	}
	return v.Encode()
}

func (w *world) do(rq reqSpec) response {
	req := httptest.NewRequest(rq.Method, rq.Path, strings.NewReader(rq.Body))
	if rq.CT != "" {
		req.Header.Set("Content-Type", rq.CT)
	}
	req.Header.Set("Accept", "application/json")
	for k, v := range rq.Headers {
		req.Header.Set(k, v)
	}
	rec := httptest.NewRecorder()
	w.e.ServeHTTP(rec, req)
	return response{Status: rec.Code, Body: rec.Body.String()}
}

const formCT = "application/x-www-form-urlencoded"

// -- authorization code

func (w *world) seedCode(code string) {
	sum := sha256.Sum256([]byte(w.verifier))
	sub := subject
	err := w.sessionStore(time.Minute, "oauth", "code").Put(code, iam.OAuthSession{
		ClientID:    clientID,
		ClientState: "client-state",
		OwnSubject:  &sub,
		PKCEParams:  iam.PKCEParams{Challenge: base64.RawURLEncoding.EncodeToString(sum[:]), ChallengeMethod: "S256"},
		RedirectURI: "https://client.example/cb",
		Scope:       scope,
		OpenID4VPVerifier: &iam.PEXConsumer{RequiredPresentationDefinitions: pe.WalletOwnerMapping{},
			Submissions: map[string]pe.PresentationSubmission{}, SubmittedEnvelopes: map[string]pe.Envelope{}},
	})
	if err != nil {
		w.t.Fatal(err)
	}
}

// codeReq builds a token request; way "" is the correct one, the others are the ways the grant handler can fail.
func (w *world) codeReq(code string, way string) reqSpec {
	kv := map[string]string{"grant_type": "authorization_code", "code": code, "code_verifier": w.verifier, "client_id": clientID}
	rq := reqSpec{Method: "POST", Path: "/oauth2/" + subject + "/token", CT: formCT}
	switch way {
	case "":
	case "wrong-verifier":
		kv["code_verifier"] = w.verifier + "x"
	case "missing-verifier":
		delete(kv, "code_verifier")
	case "wrong-client":
		kv["client_id"] = clientID + "x"
	case "missing-client":
		delete(kv, "client_id")
	case "bad-dpop":
		rq.Headers = map[string]string{"DPoP": "not-a-dpop-proof"}
	default:
		w.t.Fatalf("unknown way %q", way)
	}
	var flat []string
	for _, k := range []string{"grant_type", "code", "code_verifier", "client_id"} {
		if v, ok := kv[k]; ok {
			flat = append(flat, k, v)
		}
	}
	rq.Body = form(flat...)
	return rq
}

func okToken(r response) bool {
	if r.Status != http.StatusOK {
		return false
	}
	var m map[string]any
	if json.Unmarshal([]byte(r.Body), &m) != nil {
		return false
	}
	s, _ := m["access_token"].(string)
	return s != ""
}

// -- stored request objects

func (w *world) seedRequestObject(id string, method string) {
	aud := ""
	if method == "get" {
		aud = "https://verifier.example/oauth2/carol"
	}
	ro := iam.VerifJarRequest(w.ownDID, w.baseURL, aud, map[string]string{"response_type": "code", "state": "s-" + id, "scope": scope})
	if err := w.sessionStore(iam.VerifAccessTokenValidity, "oauth", "requestobject").Put(id, ro); err != nil {
		w.t.Fatal(err)
	}
}

func (w *world) requestObjectReq(id string, method string) reqSpec {
	rq := reqSpec{Method: "GET", Path: "/oauth2/" + subject + "/request.jwt/" + id}
	if method == "post" {
		rq.Method, rq.CT, rq.Body = "POST", formCT, form("wallet_nonce", "wn-1")
	}
	return rq
}

func okRequestObject(r response) bool {
	if r.Status != http.StatusOK {
		return false
	}
	// a compact JWS: three non-empty dot-separated parts
	parts := strings.Split(strings.TrimSpace(r.Body), ".")
	return len(parts) == 3 && parts[0] != "" && parts[1] != "" && parts[2] != ""
}

// -- DPoP proofs

func (w *world) dpopProof(jti string, iat time.Time, accessToken string) string {
	hr, _ := http.NewRequest("GET", "https://resource.example/data", nil)
	p := dpop.New(*hr)
	_ = p.Token.Set(jwt.JwtIDKey, jti)
	_ = p.Token.Set(jwt.IssuedAtKey, iat)
	p.GenerateProof(accessToken)
	s, err := p.Sign("kid-unused", w.dpopKey, jwa.ES256)
	if err != nil {
		w.t.Fatal(err)
	}
	return s
}

func (w *world) dpopReq(proof string, accessToken string) reqSpec {
	b, _ := json.Marshal(map[string]string{"dpop_proof": proof, "method": "GET", "thumbprint": w.dpopJKT,
		"token": accessToken, "url": "https://resource.example/data"})
	return reqSpec{Method: "POST", Path: "/internal/auth/v2/dpop/validate", CT: "application/json", Body: string(b)}
}

func okDPoP(r response) bool {
	if r.Status != http.StatusOK {
		return false
	}
	var m struct {
		Valid bool `json:"valid"`
	}
	return json.Unmarshal([]byte(r.Body), &m) == nil && m.Valid
}

// -- presentations (built by the product's own wallet)

func (w *world) presentation(format string, nonce string, created time.Time, validity time.Duration) string {
	expires := created.Add(validity)
	holderURI := w.holder.URI()
	aud := w.baseURL
	vp, err := w.vcr.VCR.Wallet().BuildPresentation(audit.TestContext(), nil, holder.PresentationOptions{
		Format: format,
		Holder: &holderURI,
		ProofOptions: proof.ProofOptions{Created: created, Expires: &expires, Nonce: &nonce, Challenge: &nonce, Domain: &aud,
			ProofPurpose: "assertionMethod"},
	}, &w.holder, false)
	if err != nil {
		w.t.Fatalf("build presentation: %v", err)
	}
	if format == holder.JWTPresentationFormat {
		return vp.Raw()
	}
	b, err := vp.MarshalJSON()
	if err != nil {
		w.t.Fatal(err)
	}
	return string(b)
}

func submissionJSON() string {
	return `{"id":"sub-1","definition_id":"` + pdID + `","descriptor_map":[]}`
}

func (w *world) s2sReq(vp string) reqSpec {
	return reqSpec{Method: "POST", Path: "/oauth2/" + subject + "/token", CT: formCT,
		Body: form("grant_type", "vp_token-bearer", "client_id", clientID, "scope", scope, "assertion", vp,
			"presentation_submission", submissionJSON())}
}

// -- OpenID4VP authorization response

func (w *world) seedVPSession(state string, nonce string) {
	sub := subject
	err := w.sessionStore(time.Minute, "oauth", "client_state").Put(state, iam.OAuthSession{
		ClientID:    clientID,
		ClientState: "client-" + state,
		OwnSubject:  &sub,
		PKCEParams:  iam.PKCEParams{Challenge: "c", ChallengeMethod: "S256"},
		RedirectURI: "https://client.example/cb",
		Scope:       scope,
		OpenID4VPVerifier: &iam.PEXConsumer{RequiredPresentationDefinitions: pe.WalletOwnerMapping{pe.WalletOwnerOrganization: w.pd},
			Submissions: map[string]pe.PresentationSubmission{}, SubmittedEnvelopes: map[string]pe.Envelope{}},
	})
	if err != nil {
		w.t.Fatal(err)
	}
	if err := w.sessionStore(time.Minute, "oauth", "nonce").Put(nonce, state); err != nil {
		w.t.Fatal(err)
	}
}

func (w *world) vpResponseReq(state string, vp string) reqSpec {
	return reqSpec{Method: "POST", Path: "/oauth2/" + subject + "/response", CT: formCT,
		Body: form("state", state, "vp_token", vp, "presentation_submission", submissionJSON())}
}

// okVPResponse: the verifier honoured the presentation — 200 with a redirect that carries an authorization code
// (errors are answered with a 302 to the client's redirect URI carrying `error`, or a 4xx).
func okVPResponse(r response) bool {
	if r.Status != http.StatusOK {
		return false
	}
	var m struct {
		RedirectURI string `json:"redirect_uri"`
	}
	if json.Unmarshal([]byte(r.Body), &m) != nil {
		return false
	}
	u, err := url.Parse(m.RedirectURI)
	return err == nil && u.Query().Get("code") != "" && u.Query().Get("error") == ""
}
