// C05 — One-time secrets are honoured at most once under every interleaving.
//
// The REAL iam handlers (token endpoint: authorization_code and vp_token-bearer grants; request.jwt GET/POST;
// OpenID4VP authorization response; DPoP proof validation) are driven through the echo routes of a real
// iam.Wrapper (iam.New) over the REAL storage.SessionStoreImpl / InMemorySessionDatabase. Only the
// store.StoreInterface at the very bottom is wrapped (store_test.go): each Get / Set / Delete is one
// sched.Point, and expiry is decided against the virtual clock. 2 and 3 harness threads present the same
// secret; sched.Explore enumerates the COMPLETE interleaving space at store-operation granularity.
//
// Oracle (only what the statement says): among requests presenting the same value at most one succeeds
// (concurrently and sequentially, at every boundary instant of the clocks involved); an authorization code is
// dead after any failed redemption attempt. Converse facts (an honest single request succeeds, a request with
// another value is unaffected) are vacuity guards / observations, never violations.
package c05

import (
	"crypto/sha256"
	"fmt"
	"io"
	"os"
	"sort"
	"strconv"
	"strings"
	"testing"
	"time"

	"github.com/sirupsen/logrus"

	"github.com/nuts-foundation/nuts-node/auth/api/iam"
	"github.com/nuts-foundation/nuts-node/vcr/holder"
	"github.com/nuts-foundation/nuts-node/verifshim/vtime"

	"verif/ev"
	"verif/sched"
)

// ------------------------------------------------------------------ scenarios

type threadSpec struct {
	Carries []string // multi-secret scenarios: names of the secrets the request carries, in order
	Name    string
	Req     reqSpec
	Same    bool // presents the secret under test (false: another value in the same store)
	Honest  bool // a correct request (succeeds when it is the only one)
}

type kindSpec struct {
	Kind   string // code | reqobj-get | reqobj-post | vp-nonce | s2s-nonce | dpop-jti
	Sig    string // the secret kind as it appears in signatures (one per kind the statement names)
	Burn   string // the operation that is meant to make the secret unusable: "del" (take) or "set" (mark as used)
	OK     func(response) bool
	Secret string // full store key of the secret under test
	Other  string // full store key of the unrelated value
	Alias  map[string]string
	Seed   func() // puts the secret (and the unrelated value) into the fresh store
	Good   reqSpec
	GoodB  reqSpec // honest request presenting the unrelated value
}

type scenario struct {
	K       *kindSpec
	Name    string
	Threads []threadSpec
	Bound   int        // preemption bound, -1 = complete space
	Glue    bool       // operations on request-private keys take no scheduling point of their own (see vstore.gluePrivate)
	Multi   *multiKind // requests that carry several secrets (multi_test.go); nil = one secret per request
	Mode    string     // back-end answer semantics ("" = go-cache, memcached, redis)
	Faults  []faultAt  // environment answers: these store operations are answered with a generic store error
	Big     bool       // explored by all shards together (level-1 subtrees dealt round-robin)
}

type replayCase struct {
	Item     string         `json:"item"`
	Schedule []int          `json:"schedule,omitempty"`
	Trace    []string       `json:"trace,omitempty"`
	Status   []int          `json:"status,omitempty"`
	First    string         `json:"first_at,omitempty"`
	Replay   string         `json:"replay_at,omitempty"`
	Requests map[string]any `json:"requests,omitempty"`
	Faults   []faultAt      `json:"faults,omitempty"`
}

type harness struct {
	rotation map[string]int // per jointly explored scenario: rotation of the worker numbers
	t        *testing.T
	r        *ev.Run
	w        *world
	deadline time.Time
}

func (h *harness) kinds() map[string]*kindSpec {
	w := h.w
	ks := map[string]*kindSpec{}
	add := func(k *kindSpec) {
		k.Sig = k.Kind
		if strings.HasPrefix(k.Kind, "reqobj") {
			k.Sig = "reqobj"
		}
		ks[k.Kind] = k
	}

	// authorization code
	add(&kindSpec{Kind: "code", Burn: "del", OK: okToken, Secret: "oauth/code/CODE-A", Other: "oauth/code/CODE-B",
		Alias: map[string]string{"oauth/code/CODE-A": "code:A", "oauth/code/CODE-B": "code:B"},
		Seed:  func() { w.seedCode("CODE-A"); w.seedCode("CODE-B") },
		Good:  w.codeReq("CODE-A", ""), GoodB: w.codeReq("CODE-B", "")})

	// stored request objects (request_uri), fetched by GET and by POST
	for _, m := range []string{"get", "post"} {
		m := m
		add(&kindSpec{Kind: "reqobj-" + m, Burn: "del", OK: okRequestObject,
			Secret: "oauth/requestobject/RO-A", Other: "oauth/requestobject/RO-B",
			Alias: map[string]string{"oauth/requestobject/RO-A": "ro:A", "oauth/requestobject/RO-B": "ro:B"},
			Seed:  func() { w.seedRequestObject("RO-A", m); w.seedRequestObject("RO-B", m) },
			Good:  w.requestObjectReq("RO-A", m), GoodB: w.requestObjectReq("RO-B", m)})
	}

	// DPoP proof id
	tokenA := "access-token-verif"
	add(&kindSpec{Kind: "dpop-jti", Burn: "set", OK: okDPoP, Secret: "nonceonce/JTI-A", Other: "nonceonce/JTI-B",
		Alias: map[string]string{"nonceonce/JTI-A": "jti:A", "nonceonce/JTI-B": "jti:B"},
		Seed:  func() {},
		Good:  w.dpopReq(w.dpopProof("JTI-A", w.t0, tokenA), tokenA), GoodB: w.dpopReq(w.dpopProof("JTI-B", w.t0, tokenA), tokenA)})

	// service-to-service presentation nonce (vp_token-bearer grant). The presentation is valid for the maximum the
	// grant allows; the clock is frozen during the schedule exploration, so it does not expire meanwhile.
	add(&kindSpec{Kind: "s2s-nonce", Burn: "set", OK: okToken, Secret: "s2s/nonce/NONCE-A", Other: "s2s/nonce/NONCE-B",
		Alias: map[string]string{"s2s/nonce/NONCE-A": "s2snonce:A", "s2s/nonce/NONCE-B": "s2snonce:B"},
		Seed:  func() {},
		Good:  w.s2sReq(w.presentation(holder.JWTPresentationFormat, "NONCE-A", w.t0, iam.VerifS2SMaxPresentationValidity)),
		GoodB: w.s2sReq(w.presentation(holder.JWTPresentationFormat, "NONCE-B", w.t0, iam.VerifS2SMaxPresentationValidity))})

	// OpenID4VP nonce (authorization response, direct_post)
	add(&kindSpec{Kind: "vp-nonce", Burn: "del", OK: okVPResponse, Secret: "oauth/nonce/NONCE-A", Other: "oauth/nonce/NONCE-B",
		Alias: map[string]string{"oauth/nonce/NONCE-A": "vpnonce:A", "oauth/nonce/NONCE-B": "vpnonce:B",
			"oauth/client_state/STATE-A": "state:A", "oauth/client_state/STATE-B": "state:B"},
		Seed:  func() { w.seedVPSession("STATE-A", "NONCE-A"); w.seedVPSession("STATE-B", "NONCE-B") },
		Good:  w.vpResponseReq("STATE-A", w.presentation(holder.JWTPresentationFormat, "NONCE-A", w.t0, time.Hour)),
		GoodB: w.vpResponseReq("STATE-B", w.presentation(holder.JWTPresentationFormat, "NONCE-B", w.t0, time.Hour))})
	return ks
}

var kindOrder = []string{"code", "reqobj-get", "reqobj-post", "dpop-jti", "s2s-nonce", "vp-nonce"}
var failWays = []string{"wrong-verifier", "missing-verifier", "wrong-client", "missing-client", "bad-dpop"}

func same(k *kindSpec, n int) []threadSpec {
	var out []threadSpec
	for i := 0; i < n; i++ {
		out = append(out, threadSpec{Name: "r" + strconv.Itoa(i), Req: k.Good, Same: true, Honest: true})
	}
	return out
}

func (h *harness) scenarios(ks map[string]*kindSpec) []*scenario {
	var out []*scenario
	thorough := h.r.Thorough()
	for _, kn := range kindOrder {
		k := ks[kn]
		out = append(out, &scenario{K: k, Name: kn + "/2same", Threads: same(k, 2), Bound: -1})
		s3 := &scenario{K: k, Name: kn + "/3same", Threads: same(k, 3), Bound: -1, Big: kn == "code" || kn == "vp-nonce"}
		so := &scenario{K: k, Name: kn + "/2same+other", Bound: -1, Big: kn == "code" || kn == "vp-nonce",
			Threads: append(same(k, 2), threadSpec{Name: "other", Req: k.GoodB, Honest: true})}
		if kn == "vp-nonce" {
			// 3 x 5 store operations would be up to 756 756 interleavings (> 24 min on 16 cores, measured). The fifth
			// operation stores the freshly generated authorization code under a key no other request can name; it
			// commutes with everything, so it is glued to the fourth: 3 x 4 operations, complete.
			s3.Glue, so.Glue = true, true
		}
		out = append(out, s3)
		if kn != "vp-nonce" || thorough {
			out = append(out, so)
		}
		if thorough && kn != "code" && kn != "vp-nonce" {
			// beyond the quantifier (2 or 3 requests): 4 requests for the kinds with 2 operations per request (the s2s
			// request's third operation stores the new access token under a private key and is glued)
			out = append(out, &scenario{K: k, Name: kn + "/4same", Threads: same(k, 4), Bound: -1, Glue: kn == "s2s-nonce"})
		}
	}
	// failed redemption attempts racing with correct ones (only the at-most-one clause applies while they race)
	k := ks["code"]
	for _, way := range failWays {
		bad := threadSpec{Name: "bad", Req: h.w.codeReq("CODE-A", way), Same: true}
		out = append(out, &scenario{K: k, Name: "code/fail:" + way + "+1good", Bound: -1, Threads: append([]threadSpec{bad}, same(k, 1)...)})
		out = append(out, &scenario{K: k, Name: "code/fail:" + way + "+2good", Bound: -1, Threads: append([]threadSpec{bad}, same(k, 2)...)})
	}
	if thorough {
		// one stored request object fetched through both methods at once (the wrong method fails but consumes)
		g := ks["reqobj-get"]
		out = append(out, &scenario{K: g, Name: "reqobj-get/get+post+get", Bound: -1, Threads: []threadSpec{
			{Name: "get0", Req: g.Good, Same: true, Honest: true},
			{Name: "post", Req: h.w.requestObjectReq("RO-A", "post"), Same: true},
			{Name: "get1", Req: g.Good, Same: true, Honest: true}}})
	}
	return out
}

// ------------------------------------------------------------------ exploration of one scenario

type stateSet map[[8]byte]struct{}

func (s stateSet) add(str string) {
	h := sha256.Sum256([]byte(str))
	var k [8]byte
	copy(k[:], h[:8])
	s[k] = struct{}{}
}

func allZero(c []int) bool {
	for _, v := range c {
		if v != 0 {
			return false
		}
	}
	return true
}

type verdict struct {
	Statuses  []int
	Successes []int // thread indexes (same-value threads only)
	Sig       string
	What      string
}

// sigKind is the secret kind as it appears in a signature. The back-end class is part of it where the class answers
// differently in the operation the kind's burn consists of: memcached reports the delete of a missing key, go-cache
// and redis do not. A double redemption of a take-once secret under memcached semantics therefore never matches the
// known findings, which are about back-ends whose delete does not report a missing key (go-cache, redis). The
// remember-as-used kinds burn by Set, which all three back-ends answer alike: same mechanism, same signature.
func sigKind(k *kindSpec, mode string) string {
	if mode == modeMemcached && k.Burn == "del" {
		return k.Sig + "|backend:memcached"
	}
	return k.Sig
}

func modeTag(mode string) string {
	if mode == "" {
		return ""
	}
	return "[" + mode + "]"
}

// judge evaluates one finished execution against the statement.
func (h *harness) judge(sc *scenario, x *sched.Exec, st *vstore, out []response, states stateSet) (verdict, error) {
	ops, tids, err := h.attribute(sc, x, st, states)
	if err != nil {
		return verdict{}, err
	}
	if sc.Multi != nil {
		return h.judgeMulti(sc, x, ops, tids, out), nil
	}
	return h.judgeSingle(sc, x, st, ops, tids, out), nil
}

// attribute maps every logged store operation of an execution to the harness thread that performed it (and records
// the abstract states passed through).
func (h *harness) attribute(sc *scenario, x *sched.Exec, st *vstore, states stateSet) ([]opRec, []int, error) {
	zero := st.zeroOps
	ops := st.managedOps()
	// attribute every logged operation to its thread: a thread's start step performs its first operation (merged),
	// every later step performs exactly the operation whose label the thread was parked at; operations glued to the
	// previous one (request-private keys, see vstore.gluePrivate) belong to the same step
	var tids []int
	take := func(id int) {
		tids = append(tids, id)
		for len(tids) < len(ops) && ops[len(tids)].Glued {
			tids = append(tids, id)
		}
	}
	for _, tr := range x.Trace {
		i := strings.IndexByte(tr, ':')
		id, _ := strconv.Atoi(tr[1:i])
		j := len(tids)
		if tr[i+1:] == "start" {
			if zero[id] {
				continue // the request never reached the store
			}
			if j >= len(ops) || !ops[j].Merged {
				return nil, nil, fmt.Errorf("start step of thread %d: its first operation is not in the log", id)
			}
			take(id)
			continue
		}
		if j >= len(ops) || ops[j].Merged || ops[j].Glued || !strings.HasPrefix(tr[i+1:], ops[j].Op+" ") {
			return nil, nil, fmt.Errorf("trace step %q does not match the logged operations (position %d of %d)", tr, j, len(ops))
		}
		take(id)
	}
	if len(tids) != len(ops) {
		return nil, nil, fmt.Errorf("%d scheduled operations but %d logged", len(tids), len(ops))
	}
	for i, o := range ops {
		if o.Who != tids[i] { // two independent attributions (the scheduler's trace, the wrapper's baton tracking) must agree
			return nil, nil, fmt.Errorf("operation %d (%s %s): trace says thread %d, store wrapper says %d", i, o.Op, st.name(o.Key), tids[i], o.Who)
		}
	}
	// the independence argument behind glued operations: their keys are private to one request
	owner := map[string]int{}
	for i, o := range ops {
		if _, named := st.alias[o.Key]; named {
			continue
		}
		if t, seen := owner[o.Key]; seen && t != tids[i] && st.gluePrivate {
			return nil, nil, fmt.Errorf("key %s, treated as private to one request, was accessed by threads %d and %d", st.name(o.Key), t, tids[i])
		}
		owner[o.Key] = tids[i]
	}
	// abstract states passed through: per-thread history of (op, key, result) + abstract store content
	if states != nil {
		hist := make([]string, len(sc.Threads))
		states.add(sc.Name + "|init")
		for i, o := range ops {
			hist[tids[i]] += o.Op[:1] + st.name(o.Key) + map[bool]string{true: "+", false: "-"}[o.Found] + ";"
			states.add(sc.Name + "|" + strings.Join(hist, "|") + "|" + o.After)
		}
	}
	return ops, tids, nil
}

// judgeSingle: every thread presents one secret; the oracle of the statement for one value.
func (h *harness) judgeSingle(sc *scenario, x *sched.Exec, st *vstore, ops []opRec, tids []int, out []response) verdict {
	v := verdict{}
	for i, th := range sc.Threads {
		v.Statuses = append(v.Statuses, out[i].Status)
		if th.Same && sc.K.OK(out[i]) {
			v.Successes = append(v.Successes, i)
		}
	}
	if len(v.Successes) < 2 {
		return v
	}
	// minimal shape of the interleaving: where do the successful requests' reads of the secret lie relative to the
	// first burning operation (delete for take-once secrets, set for remember-as-used secrets) on it?
	firstBurn := len(ops)
	for i, o := range ops {
		if o.Key == sc.K.Secret && o.Op == sc.K.Burn && o.Fault != 1 { // a burn that took effect
			firstBurn = i
			break
		}
	}
	shape := "reads-before-first-" + sc.K.Burn
	for _, s := range v.Successes {
		read := -1
		for i, o := range ops {
			if tids[i] == s && o.Key == sc.K.Secret && o.Op == "get" {
				read = i
				break
			}
		}
		if read < 0 {
			shape = "success-without-read"
			break
		}
		if read > firstBurn {
			shape = "read-after-" + sc.K.Burn
			continue
		}
		// the minimal window is the non-atomic pair "read the secret, then burn it" with nothing in between: when a
		// successful request performs another store operation between its read and its own burn (or never burns),
		// the window is a wider one and gets its own signature
		tight := false
		for i := read + 1; i < len(ops); i++ {
			if tids[i] == s {
				tight = ops[i].Key == sc.K.Secret && ops[i].Op == sc.K.Burn && ops[i].Fault != 1
				break
			}
		}
		if !tight && shape == "reads-before-first-"+sc.K.Burn {
			shape += "|burn-not-next-to-read"
		}
	}
	v.Sig = "C05|" + sigKind(sc.K, sc.Mode) + "|concurrent|" + shape
	v.What = fmt.Sprintf("%s: %d of %d concurrent requests presenting the same secret succeeded (%s); schedule %v", sc.Name,
		len(v.Successes), len(sc.Threads), shape, x.Choices())
	// A store error answered to one of the operations: the plain window (every winner read before the first burn, the
	// burn directly follows the read) is the mechanism of the known findings whether or not an error was answered
	// somewhere; any other shape in an execution with an answered error is attributed to the error.
	if desc := faultDesc(sc.K, ops); desc != "" && shape != "reads-before-first-"+sc.K.Burn {
		v.Sig = "C05|" + sigKind(sc.K, sc.Mode) + "|store-fault|" + desc + "|concurrent|" + shape
		v.What = fmt.Sprintf("%s: %d of %d concurrent requests presenting the same secret succeeded although the store answered %s (%s); schedule %v",
			sc.Name, len(v.Successes), len(sc.Threads), desc, shape, x.Choices())
	}
	return v
}

// faultDesc names the store errors that were answered in a run, in order: "<op>-error" (the operation did not take
// effect) or "<op>-error-applied" (it did), "@other" when the key is not the secret under test.
func faultDesc(k *kindSpec, ops []opRec) string {
	var parts []string
	for _, o := range ops {
		if o.Fault == 0 {
			continue
		}
		p := o.Op + "-error"
		if o.Fault == 2 {
			p += "-applied"
		}
		if o.Key != k.Secret {
			p += "@other"
		}
		parts = append(parts, p)
	}
	return strings.Join(parts, "+")
}

func (h *harness) runSchedule(sc *scenario, o sched.Options, each func(x *sched.Exec, st *vstore, out []response)) sched.Result {
	w := h.w
	w.mode = sc.Mode
	defer func() { w.mode = modeGoCache }()
	return sched.Explore(o, func(x *sched.Exec) func(*sched.Exec) {
		st := w.fresh(sc.K.Alias)
		sc.K.Seed()
		st.begin(sc.Faults)
		st.gluePrivate = sc.Glue
		st.zeroOps = make([]bool, len(sc.Threads))
		out := make([]response, len(sc.Threads))
		for i, th := range sc.Threads {
			i, th := i, th
			x.Go(th.Name, func() {
				st.skipPoint, st.cur = true, i
				out[i] = w.do(th.Req)
				// still set: the request performed no store operation at all (it ran from start to end in one step)
				st.zeroOps[i] = st.skipPoint
				st.skipPoint = false
			})
		}
		return func(x *sched.Exec) {
			for i, p := range x.Panics() {
				if p != nil {
					h.t.Fatalf("harness: %s: thread %d panicked: %v", sc.Name, i, p)
				}
			}
			if x.Deadlock {
				h.t.Fatalf("harness: %s: deadlock reported although no thread ever blocks", sc.Name)
			}
			each(x, st, out)
		}
	})
}

func (h *harness) explore(sc *scenario, replay []int) {
	r := h.r
	shard, nsh := 0, 1
	if sc.Big && replay == nil {
		shard, nsh = r.Shard()
		shard = (shard - h.rotation[sc.Name]%nsh + nsh) % nsh
	}
	states := stateSet{}
	var steps int64
	var zeroSuccess string
	outcomes := map[string]int64{}
	opts := sched.Options{Bound: sc.Bound, Shard: shard, NSh: nsh, Replay: replay, SelfCheck: true, Deadline: h.deadline}
	res := h.runSchedule(sc, opts, func(x *sched.Exec, st *vstore, out []response) {
		if shard != 0 && allZero(x.Choices()) {
			return // the root execution is counted by shard 0
		}
		v, err := h.judge(sc, x, st, out, states)
		if err != nil {
			h.t.Fatalf("harness: %s: %v", sc.Name, err)
		}
		steps += int64(len(x.Trace))
		oc := fmt.Sprintf("%s%s:%d-of-%d-succeed", sc.K.Kind, modeTag(sc.Mode), len(v.Successes), len(sc.Threads))
		if sc.Multi != nil {
			oc = "multi-secret:" + oc
		}
		if len(sc.Faults) == 0 {
			r.AddExtra("schedules "+sc.Name, 1)
			if len(v.Successes) >= 2 {
				r.AddExtra("schedules with a double success "+sc.Name, 1)
			}
		}
		if len(sc.Faults) == 0 {
			r.Eval(sc.Name + fmt.Sprint(x.Choices()))
		} else if desc := faultDesc(sc.K, st.managedOps()); desc != "" {
			r.Eval(sc.Name + fmt.Sprint(x.Choices()))
			oc = fmt.Sprintf("%s%s:store-fault:%d-of-%d-succeed", sc.K.Kind, modeTag(sc.Mode), len(v.Successes), len(sc.Threads))
		} else {
			r.Eval("") // the operation to be answered with an error was never reached on this schedule: same as without it
		}
		outcomes[oc]++
		r.Outcome(oc)
		honest := true
		for i, th := range sc.Threads {
			honest = honest && th.Honest
			if !th.Same && !sc.K.OK(out[i]) {
				r.Observation("other-value-request-failed|"+sc.K.Kind, map[string]any{"scenario": sc.Name, "schedule": x.Choices(),
					"status": out[i].Status, "body": clip(out[i].Body)})
			}
		}
		if honest && len(sc.Faults) == 0 && len(v.Successes) == 0 && zeroSuccess == "" {
			zeroSuccess = fmt.Sprintf("schedule %v: statuses %v, first body %s", x.Choices(), v.Statuses, clip(out[0].Body))
		}
		if len(outcomes) <= 3 && outcomes[oc] == 1 {
			r.Sample(map[string]any{"scenario": sc.Name, "schedule": x.Choices(), "trace": x.Trace, "status": v.Statuses,
				"same_value_successes": len(v.Successes)})
		}
		if v.Sig != "" {
			// believe it only when the same schedule gives the same observation again
			var again verdict
			h.runSchedule(sc, sched.Options{Replay: append([]int{}, x.Choices()...)}, func(x2 *sched.Exec, st2 *vstore, out2 []response) {
				again, _ = h.judge(sc, x2, st2, out2, nil)
			})
			if again.Sig != v.Sig || fmt.Sprint(again.Statuses) != fmt.Sprint(v.Statuses) {
				h.t.Fatalf("harness: %s: schedule %v is not reproducible (%v/%q then %v/%q)", sc.Name, x.Choices(), v.Statuses, v.Sig,
					again.Statuses, again.Sig)
			}
			r.Violation(v.Sig, v.What, replayCase{Item: sc.Name, Schedule: x.Choices(), Trace: x.Trace, Status: v.Statuses, Faults: sc.Faults})
		}
	})
	if len(res.Errors) > 0 {
		h.t.Fatalf("harness: %s: scheduler: %v", sc.Name, res.Errors)
	}
	if zeroSuccess != "" {
		h.t.Fatalf("harness: %s: no honest request succeeded (%s)", sc.Name, zeroSuccess)
	}
	if !res.Exhaustive {
		r.NotExhaustive(sc.Name + ": " + res.Capped)
	}
	r.States(int64(len(states)))
	r.Transitions(steps)
	b := "complete"
	if sc.Glue {
		b = "complete up to commuting of operations on request-private keys"
	}
	if sc.Bound >= 0 {
		b = "preemptions<=" + strconv.Itoa(sc.Bound)
	}
	if replay == nil {
		r.Bound(sc.Name, fmt.Sprintf("%s, %d executions in this worker, <=%d choice points", b, res.Executions, res.MaxPoints))
		r.AddExtra("executions", res.Executions)
	}
}

func clip(s string) string {
	if len(s) > 300 {
		return s[:300] + "..."
	}
	return s
}

// ------------------------------------------------------------------ sequential clauses

// seqState names what the store holds for the secret just before a replay: for take-once secrets whether the value
// is still there, for remember-as-used secrets whether the mark is live, expired, or was never written.
func seqState(k *kindSpec, st *vstore) string {
	live := st.holds(k.Secret)
	if k.Burn == "del" {
		if live {
			return "secret-still-stored"
		}
		return "secret-gone"
	}
	if live {
		return "mark-live"
	}
	for _, o := range st.log {
		if (o.Op == "set" || o.Op == "setnx" && !o.Found) && o.Key == k.Secret {
			return "mark-expired"
		}
	}
	return "mark-never-written"
}

// sequentialReplay: clause (a) — the same request again after the first has returned, at the same instant.
func (h *harness) sequentialReplay(k *kindSpec, name string) {
	r, w := h.r, h.w
	st := w.fresh(k.Alias)
	k.Seed()
	first := w.do(k.Good)
	if !k.OK(first) {
		h.t.Fatalf("harness: %s: honest first request refused: %d %s", name, first.Status, clip(first.Body))
	}
	n := 1
	for i := 0; i < 2; i++ {
		state := seqState(k, st)
		again := w.do(k.Good)
		r.Eval(name + "#" + strconv.Itoa(i))
		r.Transitions(1)
		r.Outcome(fmt.Sprintf("%s%s:sequential-replay-%v", k.Kind, modeTag(h.w.mode), k.OK(again)))
		if k.OK(again) {
			n++
			r.Violation("C05|"+sigKind(k, h.w.mode)+"|sequential|replay-accepted|"+state,
				fmt.Sprintf("%s: presentation %d of the same secret, made after the previous one had returned, succeeded again (%s)", name, i+2, state),
				replayCase{Item: name, Status: []int{first.Status, again.Status}})
		}
	}
	r.Sample(map[string]any{"item": name, "successes": n, "of": 3})
}

// failedAttempt: clause (b) — a failed redemption attempt, then (after it returned) a correct one.
func (h *harness) failedAttempt(k *kindSpec, way string, name string) {
	r, w := h.r, h.w
	st := w.fresh(k.Alias)
	k.Seed()
	bad := w.do(w.codeReq("CODE-A", way))
	state := seqState(k, st)
	good := w.do(k.Good)
	r.Eval(name)
	r.Transitions(2)
	r.Outcome(fmt.Sprintf("code%s:failed-attempt:%s:first=%v,then=%v", modeTag(h.w.mode), way, k.OK(bad), k.OK(good)))
	switch {
	case !k.OK(bad) && k.OK(good):
		r.Violation("C05|"+sigKind(k, h.w.mode)+"|failed-attempt|"+way+"|code-still-redeemable",
			fmt.Sprintf("%s: redemption attempt failed (%d) and the code was redeemed afterwards (%s)", name, bad.Status, state),
			replayCase{Item: name, Status: []int{bad.Status, good.Status}})
	case k.OK(bad) && k.OK(good):
		r.Violation("C05|"+sigKind(k, h.w.mode)+"|sequential|replay-accepted|"+state,
			fmt.Sprintf("%s: both the (supposedly failing) attempt and the following correct one succeeded", name),
			replayCase{Item: name, Status: []int{bad.Status, good.Status}})
	case k.OK(bad):
		r.Observation("failing-way-succeeded|"+way, map[string]any{"item": name, "status": bad.Status})
	}
}

// refusedBeforeHandler: requests refused before the grant handler is reached are not redemption attempts; what they
// do to the code is only observed.
func (h *harness) refusedBeforeHandler(k *kindSpec) {
	w := h.w
	for _, c := range []struct{ name, path, grant string }{
		{"unknown-subject", "/oauth2/nobody/token", "authorization_code"},
		{"other-grant-type", "/oauth2/" + subject + "/token", "client_credentials"},
	} {
		w.fresh(k.Alias)
		k.Seed()
		rq := reqSpec{Method: "POST", Path: c.path, CT: formCT,
			Body: form("grant_type", c.grant, "code", "CODE-A", "code_verifier", w.verifier, "client_id", clientID)}
		bad := w.do(rq)
		good := w.do(k.Good)
		h.r.Eval("")
		h.r.Observation("code-after-request-refused-before-grant-handler|"+c.name,
			map[string]any{"first_status": bad.Status, "code_redeemable_afterwards": k.OK(good)})
	}
}

// ------------------------------------------------------------------ environment answers: store errors ("deviations")

// The in-memory store never fails; Redis / memcached do (time-out, reset connection, fail-over). The bottom store
// wrapper can answer any Get / Set / Delete with a generic store error (not "not found"), either without performing the
// operation or - for writes - after performing it. Deviation bound: 1 answered error per run in the quick tier (every
// position of every store operation of every request), 2 in the thorough tier. The oracle stays the statement: among
// requests presenting the same value at most one SUCCEEDS. A request that fails because the store failed is fine.

func modesFor(op string) []bool {
	if op == "get" {
		return []bool{false}
	}
	return []bool{false, true}
}

// probeOps: the store operations of one honest request on a fresh store (positions and kinds for the concurrent universe).
func (h *harness) probeOps(k *kindSpec) []opRec {
	st := h.w.fresh(k.Alias)
	k.Seed()
	st.begin(nil)
	h.w.do(k.Good)
	return append([]opRec{}, st.managedOps()...)
}

func faultName(fs []faultAt) string {
	var parts []string
	for _, f := range fs {
		p := fmt.Sprintf("t%d.op%d", f.Who, f.N)
		if f.Applied {
			p += ".applied"
		}
		parts = append(parts, p)
	}
	return strings.Join(parts, "+")
}

// faultScenarios: the 2-request scenario of every kind, explored completely once per set of answered errors. An error
// is placed by (thread, number of the thread's operation); where a schedule never reaches that operation the run equals
// the one without it (counted as trivial).
func (h *harness) faultScenarios(ks map[string]*kindSpec) []*scenario {
	var out []*scenario
	depth := 1
	if h.r.Thorough() {
		depth = 2
	}
	for _, kn := range kindOrder {
		k := ks[kn]
		probe := h.probeOps(k)
		var universe []faultAt
		for t := 0; t < 2; t++ {
			for n, o := range probe {
				for _, applied := range modesFor(o.Op) {
					universe = append(universe, faultAt{Who: t, N: n, Applied: applied})
				}
			}
		}
		var sets [][]faultAt
		for i, a := range universe {
			sets = append(sets, []faultAt{a})
			if depth >= 2 {
				for _, b := range universe[i+1:] {
					if a.Who != b.Who || a.N != b.N {
						sets = append(sets, []faultAt{a, b})
					}
				}
			}
		}
		for _, fs := range sets {
			out = append(out, &scenario{K: k, Name: "fault/" + kn + "/2same/" + faultName(fs), Threads: same(k, 2), Bound: -1, Faults: fs})
		}
	}
	return out
}

type seqStep struct {
	Name string
	Req  reqSpec
}

func (h *harness) runSeq(k *kindSpec, steps []seqStep, faults []faultAt) ([]response, *vstore) {
	st := h.w.fresh(k.Alias)
	k.Seed()
	st.begin(faults)
	var out []response
	for i, sp := range steps {
		st.cur = i
		out = append(out, h.w.do(sp.Req))
	}
	return out, st
}

// faultSequence enumerates, for one sequence of requests that all present the same secret, every placement of up to
// `depth` answered errors: the run so far tells which operations exist after the last placed error.
func (h *harness) faultSequence(k *kindSpec, name string, steps []seqStep, depth int) {
	r := h.r
	runs := 0
	var rec func(faults []faultAt, from int, left int)
	rec = func(faults []faultAt, from int, left int) {
		if r.Expired() {
			return
		}
		out, st := h.runSeq(k, steps, faults)
		ops := st.managedOps()
		if len(faults) > 0 {
			runs++
			h.judgeSeqFault(k, name, steps, faults, out, ops)
		}
		if left == 0 {
			return
		}
		for i := from; i < len(ops); i++ {
			for _, applied := range modesFor(ops[i].Op) {
				rec(append(append([]faultAt{}, faults...), faultAt{Who: -1, N: i, Applied: applied}), i+1, left-1)
			}
		}
	}
	rec(nil, 0, depth)
	r.Bound(name, fmt.Sprintf("<=%d answered store errors per run, %d runs", depth, runs))
}

func (h *harness) judgeSeqFault(k *kindSpec, name string, steps []seqStep, faults []faultAt, out []response, ops []opRec) {
	r := h.r
	desc := faultDesc(k, ops)
	var status []int
	var okAt []int
	for i := range out {
		status = append(status, out[i].Status)
		if k.OK(out[i]) {
			okAt = append(okAt, i)
		}
	}
	r.Eval(name + "|" + faultName(faults))
	r.Transitions(int64(len(ops)))
	r.Outcome(fmt.Sprintf("%s%s:store-fault:sequential:%d-of-%d-succeed", k.Kind, modeTag(h.w.mode), len(okAt), len(out)))
	rc := replayCase{Item: name, Faults: faults, Status: status}
	if len(okAt) >= 2 {
		// believe it only when it reproduces
		out2, _ := h.runSeq(k, steps, faults)
		for i := range out2 {
			if out2[i].Status != out[i].Status {
				h.t.Fatalf("harness: %s: run with %s is not reproducible", name, faultName(faults))
			}
		}
		r.Violation("C05|"+sigKind(k, h.w.mode)+"|store-fault|"+desc+"|replay-accepted",
			fmt.Sprintf("%s: requests %v of %d sequential requests presenting the same secret all succeeded when the store answered %s (statuses %v)",
				name, okAt, len(out), desc, status), rc)
		return
	}
	if k.Kind != "code" || len(okAt) == 0 {
		return
	}
	// authorization code: dead after any failed redemption attempt. A request that failed before the one that succeeded:
	j := okAt[0]
	if j == 0 {
		return
	}
	// when a Delete of the code itself was answered with an error and did not take effect, the environment - not the
	// handler - kept the code alive: ambiguous under the statement, recorded as an observation only
	prevented := false
	for _, o := range ops {
		if o.Who < j && o.Key == k.Secret && o.Op == "del" && o.Fault == 1 {
			prevented = true
		}
	}
	if prevented {
		r.Observation("code-alive-after-failed-attempt-whose-delete-was-answered-with-an-error|"+desc,
			map[string]any{"item": name, "faults": faults, "status": status})
		return
	}
	r.Violation("C05|"+sigKind(k, h.w.mode)+"|store-fault|"+desc+"|failed-attempt|code-still-redeemable",
		fmt.Sprintf("%s: a redemption attempt failed (statuses %v) while the store answered %s - no Delete of the code was refused - and the code was redeemed afterwards",
			name, status, desc), rc)
}

// ------------------------------------------------------------------ boundary-instant replays (virtual time)

type timeCase struct {
	K     *kindSpec
	Name  string
	Class string          // input class appended to the signature ("" = none)
	First []time.Duration // instants (offsets from t0) of the first presentation
	Abs   []time.Duration // further replay instants (offsets from t0), e.g. around the end of the acceptance window
}

func around(d time.Duration) []time.Duration {
	return []time.Duration{d - time.Millisecond, d, d + time.Millisecond}
}

func (h *harness) at(off time.Duration, rq reqSpec) response {
	vtime.SetOffset(off)
	defer vtime.SetOffset(0)
	return h.w.do(rq)
}

func (h *harness) timeGrid(tc timeCase) {
	r, w, k := h.r, h.w, tc.K
	accepted := 0
	var doubles []string
	for _, u := range tc.First {
		// probe: learn the time-to-live the product gives the secret / the used-mark, from what the store sees
		st := w.fresh(k.Alias)
		k.Seed()
		h.at(u, k.Good)
		ttl, known := st.ttl[k.Secret]
		var ttlFrom time.Duration // instant the TTL counts from: seeding (take-once) or first use (mark)
		if k.Burn == "set" {
			ttlFrom = u
		}
		instants := map[time.Duration]bool{u: true, u + time.Millisecond: true}
		if known {
			for _, v := range around(ttlFrom + ttl) {
				instants[v] = true
			}
			instants[ttlFrom+2*ttl] = true
		}
		for _, v := range tc.Abs {
			instants[v] = true
		}
		var vs []time.Duration
		for v := range instants {
			if v >= u {
				vs = append(vs, v)
			}
		}
		sort.Slice(vs, func(i, j int) bool { return vs[i] < vs[j] })
		for _, v := range vs {
			st := w.fresh(k.Alias)
			k.Seed()
			first := h.at(u, k.Good)
			vtime.SetOffset(v)
			state := seqState(k, st)
			vtime.SetOffset(0)
			again := h.at(v, k.Good)
			name := fmt.Sprintf("%s first@%v replay@%v", tc.Name, u, v)
			r.Eval(name)
			r.Transitions(2)
			r.Outcome(fmt.Sprintf("%s:time:first=%v,replay=%v", k.Kind, k.OK(first), k.OK(again)))
			if k.OK(first) {
				accepted++
			}
			if k.OK(first) && k.OK(again) {
				sig := "C05|" + sigKind(k, h.w.mode) + "|sequential|replay-accepted|" + state
				if tc.Class != "" {
					sig += "|" + tc.Class
				}
				r.Violation(sig, fmt.Sprintf("%s: first presentation at t0+%v and a second one at t0+%v both succeeded (%s; time-to-live seen by the store %v)",
					tc.Name, u, v, state, ttl),
					replayCase{Item: tc.Name, First: u.String(), Replay: v.String(), Status: []int{first.Status, again.Status}})
				doubles = append(doubles, fmt.Sprintf("first@t0+%v replay@t0+%v (%s)", u, v, state))
			}
		}
	}
	if accepted == 0 {
		h.t.Fatalf("harness: %s: no first presentation was accepted at any probed instant", tc.Name)
	}
	r.Bound(tc.Name, fmt.Sprintf("%d first-use instants", len(tc.First)))
	if len(doubles) > 0 {
		r.Extra("double_success_pairs "+tc.Name, doubles)
	}
}

func (h *harness) timeCases(ks map[string]*kindSpec) []timeCase {
	w := h.w
	var out []timeCase
	min := time.Minute
	// take-once secrets: the only clock is the secret's time-to-live in the store
	for _, kn := range []string{"code", "reqobj-get", "reqobj-post", "vp-nonce"} {
		ttl := min
		if strings.HasPrefix(kn, "reqobj") {
			ttl = iam.VerifAccessTokenValidity
		}
		first := append([]time.Duration{0, time.Second}, around(ttl)...)
		out = append(out, timeCase{K: ks[kn], Name: "time/" + kn, First: first})
	}
	// DPoP proof: iat = t0; the proof is accepted from iat on (jwx refuses a future iat); the jti mark lives for the
	// time the store is told. First uses around 0 and around the mark's lifetime, and one far later.
	v := iam.VerifAccessTokenValidity
	out = append(out, timeCase{K: ks["dpop-jti"], Name: "time/dpop-jti",
		First: append(append([]time.Duration{0, time.Millisecond, time.Minute}, around(v)...), 4*v)})

	// s2s nonce: presentation created at t0+10s (presenter's clock ahead), valid for the maximum. Two formats.
	val, skew := iam.VerifS2SMaxPresentationValidity, iam.VerifS2SMaxClockSkew
	created := 10 * time.Second
	for _, f := range []string{holder.JWTPresentationFormat, holder.JSONLDPresentationFormat} {
		k := *ks["s2s-nonce"]
		k.Good = w.s2sReq(w.presentation(f, "NONCE-A", w.t0.Add(created), val))
		var first, abs []time.Duration
		for _, d := range []time.Duration{created - skew, created, created + val, created + val + skew} {
			first = append(first, around(d)...)
			abs = append(abs, around(d)...)
		}
		first = append(first, created+val/2)
		out = append(out, timeCase{K: &k, Name: "time/s2s-nonce/" + f, Class: f, First: first, Abs: abs})
	}
	return out
}

// ------------------------------------------------------------------ the test

type item struct {
	name   string
	big    bool // explored by all workers together
	weight int  // rough cost estimate, used only to spread the items over the workers
	run    func()
}

// estimate: upper bound of the number of interleavings (multinomial of the per-thread operation counts) times a
// per-execution cost factor. Only used for load balancing.
func estimate(sc *scenario) int {
	ops := map[string]int{"code": 4, "reqobj-get": 2, "reqobj-post": 2, "dpop-jti": 2, "s2s-nonce": 3, "vp-nonce": 5}[sc.K.Kind]
	cost := map[string]int{"code": 1, "reqobj-get": 2, "reqobj-post": 2, "dpop-jti": 1, "s2s-nonce": 4, "vp-nonce": 6}[sc.K.Kind]
	if sc.Glue {
		ops--
	}
	n, total := 1, 0
	for _, th := range sc.Threads {
		k := ops
		if sc.Multi != nil {
			k = 2*len(th.Carries) + 1
		}
		if !th.Honest && sc.Multi == nil {
			k = 2
		}
		for i := 1; i <= k; i++ {
			total++
			n = n * total / i
		}
	}
	return n * cost
}

// bigShare: measured share of a jointly explored scenario that lands on the worker with (rotated) number 0, 1, 2, 3
// when sched.Explore deals the level-1 subtrees round-robin (the subtrees of the first choice points are the largest).
var bigShare = []float64{0.34, 0.34, 0.17, 0.13}

// assign spreads the work: every jointly explored scenario gets its own rotation of the worker numbers, so that the
// heavy subtrees of different scenarios land on different workers; the other items are dealt longest first, each to
// the least loaded worker. Deterministic, and identical in every worker.
func assign(items []item, nsh int) (owner map[string]int, rotation map[string]int) {
	owner, rotation = map[string]int{}, map[string]int{}
	load := make([]float64, nsh)
	nbig := 0
	var order []int
	for i, it := range items {
		if !it.big {
			order = append(order, i)
			continue
		}
		rot := (4 * nbig) % nsh
		nbig++
		rotation[it.name] = rot
		for v, sh := range bigShare {
			load[(v+rot)%nsh] += sh * float64(it.weight)
		}
	}
	sort.SliceStable(order, func(a, b int) bool { return items[order[a]].weight > items[order[b]].weight })
	for _, i := range order {
		best := 0
		for s := 1; s < nsh; s++ {
			if load[s] < load[best] {
				best = s
			}
		}
		load[best] += float64(items[i].weight + 1)
		owner[items[i].name] = best
	}
	return
}

func TestVerifC05(t *testing.T) {
	logrus.SetOutput(io.Discard)
	logrus.SetLevel(logrus.PanicLevel)
	r := ev.Start(t, "C05")
	defer r.Finish()
	budget := 600
	if v, err := strconv.Atoi(os.Getenv("VERIF_BUDGET_S")); err == nil && v > 0 {
		budget = v
	}
	// The virtual clock is frozen at a whole second for the whole run (it never runs ahead of tokens minted later:
	// every token is minted with explicit instants relative to t0) and moved only by the boundary-instant replays.
	t0 := time.Now().Truncate(time.Second)
	vtime.Freeze(t0)
	h := &harness{t: t, r: r, w: newWorld(t, t0), deadline: time.Now().Add(time.Duration(budget) * time.Second)}
	ks := h.kinds()

	r.Rule("per secret kind (authorization code, request object by GET and by POST, OpenID4VP nonce, s2s presentation nonce, DPoP jti): " +
		"2 and 3 threads presenting the same value (plus one with another value) through the real echo routes; every Get/Set/Delete that " +
		"reaches the bottom store is one scheduling point and sched.Explore enumerates every interleaving (a case = one schedule, distinct by " +
		"its choice vector); sequential replays at once and at every boundary instant (+-1 ms) of the secret's time-to-live and of the " +
		"presentation's / proof's acceptance window under a frozen virtual clock; failed redemption attempts followed by a correct one; " +
		"environment answers: every single store operation (two in the thorough tier) of the sequential scenarios and of the complete " +
		"2-request schedule spaces is answered with a generic store error, with and - for writes - without the operation taking effect; " +
		"back-end answer semantics: the schedule spaces, sequential clauses and answered-error runs are repeated with the bottom store " +
		"answering like memcached (Get / Delete of a missing key -> memcache.ErrCacheMiss) and like redis (Get -> store.NotFound(redis.Nil), Delete -> nil); " +
		"requests carrying several secrets (vp_token-bearer assertion arrays, OpenID4VP vp_token arrays): every sequence of 2 requests (thorough: also 3) " +
		"of up to 3 secrets each, every position a used, fresh or repeated secret, up to renaming; and the complete 2-request schedule spaces of requests " +
		"of up to 2 secrets with a secret in common")
	r.Assume("the bottom store is the in-memory go-cache store; the memcached and redis back-ends are represented by their ANSWER SEMANTICS " +
		"(what Get / Delete of a missing key answer, as gocache's memcache and redis stores v4.2.2 surface it) - their servers, key " +
		"restrictions, value types and second-granular expiry are not")
	r.Assume("between two store operations a handler touches no state shared with another request (checked by the free-running -race part when run)")
	r.Assume("jwx's built-in clock (dpop.Parse) is the wall clock: it only bounds iat from below and every proof is minted at t0 <= wall clock")

	depth := 1
	if r.Thorough() {
		depth = 2
	}
	r.Bound("answered_store_errors_per_run", depth)
	var items []item
	var allScenarios []*scenario
	takeOnce := func(kn string) bool { return ks[kn].Burn == "del" }
	for _, mode := range append([]string{modeGoCache}, backendModes...) {
		mode := mode
		prefix := ""
		if mode != modeGoCache {
			prefix = "be:" + mode + "/"
		}
		// run an item's body with every store it creates answering like `mode`
		in := func(f func()) func() {
			return func() {
				h.w.mode = mode
				defer func() { h.w.mode = modeGoCache }()
				f()
			}
		}
		h.w.mode = mode
		scs := append(h.scenarios(ks), h.faultScenarios(ks)...)
		h.w.mode = modeGoCache
		var multi []*scenario
		if mode == modeGoCache {
			// requests that carry several secrets (multi_test.go)
			mks := h.multiKinds(ks)
			multi = h.multiScenarios(mks)
			for _, mk := range mks {
				mk, name := mk, "multi/seq/"+mk.K.Kind
				items = append(items, item{name: name, weight: 3000, run: func() { h.multiSequential(mk, name, 2, 3) }})
				if r.Thorough() {
					name3 := "multi/seq3/" + mk.K.Kind
					items = append(items, item{name: name3, weight: 8000, run: func() { h.multiSequential(mk, name3, 3, 2) }})
				}
			}
		}
		for _, sc := range scs {
			sc := sc
			if mode != modeGoCache {
				// Other answer semantics: the take-once kinds (GetAndDelete passes the Delete's answer on) with 2 and 3
				// requests, the failed-attempt races and the answered-error spaces; the remember-as-used kinds (Get then
				// Put, which all back-ends answer alike apart from the form of the miss) with 2 requests only.
				base := strings.TrimPrefix(sc.Name, sc.K.Kind+"/")
				keep := base == "2same"
				if takeOnce(sc.K.Kind) {
					keep = keep || base == "3same" || strings.HasPrefix(sc.Name, "fault/") ||
						strings.HasSuffix(base, "+1good") || (r.Thorough() && (base == "2same+other" || strings.HasSuffix(base, "+2good")))
				}
				if !keep {
					continue
				}
				sc.Name, sc.Mode = prefix+sc.Name, mode
			}
			allScenarios = append(allScenarios, sc)
			items = append(items, item{name: sc.Name, big: sc.Big, weight: estimate(sc), run: func() { h.explore(sc, nil) }})
		}
		for _, sc := range multi {
			sc := sc
			allScenarios = append(allScenarios, sc)
			items = append(items, item{name: sc.Name, weight: estimate(sc), run: func() { h.explore(sc, nil) }})
		}
		for _, kn := range kindOrder {
			k, name := ks[kn], prefix+"fault/seq/"+kn+"/replay"
			steps := []seqStep{{"first", k.Good}, {"replay", k.Good}, {"replay2", k.Good}}
			items = append(items, item{name: name, weight: 40 * depth * depth * depth, run: in(func() { h.faultSequence(k, name, steps, depth) })})
		}
		for _, way := range failWays {
			k, name := ks["code"], prefix+"fault/seq/code/failed:"+way
			steps := []seqStep{{"bad", h.w.codeReq("CODE-A", way)}, {"good", k.Good}, {"good2", k.Good}}
			items = append(items, item{name: name, weight: 40 * depth * depth * depth, run: in(func() { h.faultSequence(k, name, steps, depth) })})
		}
		for _, kn := range kindOrder {
			k, name := ks[kn], prefix+"seq/"+kn
			items = append(items, item{name: name, run: in(func() { h.sequentialReplay(k, name) })})
		}
		for _, way := range failWays {
			way, name := way, prefix+"seq/code/failed:"+way
			items = append(items, item{name: name, run: in(func() { h.failedAttempt(ks["code"], way, name) })})
		}
		if mode != modeGoCache {
			continue // expiry is the wrapper's own in every mode: the boundary-instant replays are run once
		}
		items = append(items, item{name: "seq/code/refused-before-handler", run: func() { h.refusedBeforeHandler(ks["code"]) }})
		for _, tc := range h.timeCases(ks) {
			tc := tc
			items = append(items, item{name: tc.Name, weight: 100 * len(tc.First), run: func() { h.timeGrid(tc) }})
		}
	}

	var rc replayCase
	if r.ReplayCase(&rc) {
		for _, it := range items {
			if it.name == rc.Item {
				if rc.Schedule != nil {
					for _, sc := range allScenarios {
						if sc.Name == rc.Item {
							h.explore(sc, rc.Schedule)
						}
					}
				} else {
					it.run()
				}
				return
			}
		}
		t.Fatalf("replay: unknown item %q", rc.Item)
	}

	// vacuity guards: every honest request succeeds when it is alone, on a fresh store
	for _, mode := range append([]string{modeGoCache}, backendModes...) {
		h.w.mode = mode
		for _, kn := range kindOrder {
			k := ks[kn]
			for _, rq := range []reqSpec{k.Good, k.GoodB} {
				h.w.fresh(k.Alias)
				k.Seed()
				if res := h.w.do(rq); !k.OK(res) {
					t.Fatalf("harness: %s%s: honest single request refused: %d %s", kn, modeTag(mode), res.Status, clip(res.Body))
				}
			}
		}
	}
	h.w.mode = modeGoCache

	shard, nsh := r.Shard()
	mine, rotation := assign(items, nsh)
	h.rotation = rotation
	for _, it := range items {
		if !it.big && mine[it.name] != shard {
			continue
		}
		if r.Expired() {
			break
		}
		it.run()
	}
}
