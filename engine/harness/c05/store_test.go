package c05

import (
	"context"
	"errors"

	"github.com/bradfitz/gomemcache/memcache"
	"github.com/redis/go-redis/v9"
	"sort"
	"strconv"
	"strings"
	"sync"
	"time"

	"github.com/eko/gocache/lib/v4/store"
	gocachestore "github.com/eko/gocache/store/go_cache/v4"
	gocacheclient "github.com/patrickmn/go-cache"

	"github.com/nuts-foundation/nuts-node/storage"
	"github.com/nuts-foundation/nuts-node/verifshim/vtime"

	"verif/sched"
)

// opRec is one operation that reached the bottom store.
type opRec struct {
	Op     string // get | set | del (| take | setnx: atomic primitives, only used by repair sketches)
	Key    string // full key as the session store built it ("oauth/code/<code>")
	Found  bool   // get: a live value was returned
	Merged bool   // first operation of a harness thread: performed in the thread's start step, without a scheduling point of its own
	Glued  bool   // operation on a key private to the request, performed in the same step as the thread's previous operation
	After  string // abstract store content after the operation (aliased keys present + number of other keys)
	Who    int    // harness thread (schedule exploration) or request number (sequential scenarios) that performed it
	Fault  int    // environment answer: 0 = the store's own, 1 = generic error and the operation did not take effect,
	//               2 = generic error although the operation took effect (write acknowledged too late)
}

// faultAt names one store operation that the environment answers with a generic error (NOT "not found"): the N-th
// operation (from 0) of harness thread / request Who, or with Who < 0 the N-th operation of the whole run.
type faultAt struct {
	Who     int  `json:"who"`
	N       int  `json:"n"`
	Applied bool `json:"applied,omitempty"` // Set / Delete only: the operation took effect, the answer is an error all the same
}

// errInjected is what a Redis / memcached client returns on a time-out or a reset connection: an error that is
// neither store.NotFound nor memcache.ErrCacheMiss.
var errInjected = errors.New("verif: injected session-store failure: read tcp 127.0.0.1:6379: i/o timeout")

// vstore is the store.StoreInterface handed to the REAL cache.Cache / SessionStoreImpl /
// InMemorySessionDatabase. It delegates to the real go-cache store of the product and adds exactly two things:
//   - every Get / Set / Delete is ONE scheduling point (taken before the operation is performed), which is the
//     granularity the property names;
//   - expiry is decided here against the virtual clock from the store.WithExpiration option it sees
//     (go-cache would ask the wall clock); the comparison is go-cache's own: expired iff now > expiry.
type vstore struct {
	inner   store.StoreInterface
	mu      sync.Mutex
	exp     map[string]time.Time
	ttl     map[string]time.Duration // last time-to-live seen per key
	alias   map[string]string        // full key -> stable name used in labels / signatures
	log     []opRec
	present map[string]bool
	// runFrom is the length of the log when the harness threads were started (everything before is seeding)
	runFrom int
	// skipPoint is set by a harness thread as its very first action. Everything a request does before its first store
	// operation is local to it, so that prefix and the first operation form ONE step; without this every thread would
	// have one more (empty) step and the 3-thread spaces would be explored with ~20x redundant interleavings.
	skipPoint bool
	// gluePrivate (3-thread OpenID4VP scenarios only): an operation on a key that is not one of the harness's named
	// keys - a freshly generated 256-bit access token or authorization code, which no other request can name - takes
	// no scheduling point of its own. Such an operation commutes with every operation of every other thread (other
	// key, same results, same final store), so each interleaving that is skipped is equivalent to one that is explored.
	// judge() verifies after every execution that each such key was indeed touched by one thread only.
	gluePrivate bool
	zeroOps     []bool // per harness thread: it finished without any store operation
	// environment answers ("deviations"): see faultAt. track is set whenever the harness wants operations attributed
	// to threads / requests (cur); it is off in the free-running race pass, where cur would itself be a data race.
	// mode: whose ANSWER SEMANTICS the bottom store has (see answers below). "" = go-cache, the store it really is.
	mode    string
	track   bool
	cur     int
	faults  []faultAt
	nGlobal int
	nPer    map[int]int
}

// Back-end answer semantics. What the handlers can tell apart is only what the bottom store ANSWERS; the three
// back-ends of the product differ in exactly two answers (gocache store/memcache, store/redis, store/go_cache v4.2.2):
//
//	                    Get of a missing key                              Delete of a missing key
//	go-cache  ("")      *store.NotFound (cause: "value not found ...")    nil
//	memcached           memcache.ErrCacheMiss, unwrapped                  memcache.ErrCacheMiss
//	redis               *store.NotFound (cause: redis.Nil)                nil
//
// storage/session.go distinguishes store.NotFound{} and memcache.ErrCacheMiss (Get, Delete helper) and passes every
// other error on; GetAndDelete passes the Delete's answer on unchanged.
const (
	modeGoCache   = ""
	modeMemcached = "memcached"
	modeRedis     = "redis"
)

var backendModes = []string{modeMemcached, modeRedis}

// missGet turns go-cache's own not-found answer into the one of the back-end whose semantics are simulated.
func (s *vstore) missGet(err error) error {
	if err == nil || !errors.Is(err, store.NotFound{}) {
		return err
	}
	switch s.mode {
	case modeMemcached:
		return memcache.ErrCacheMiss
	case modeRedis:
		return store.NotFoundWithCause(redis.Nil)
	}
	return err
}

// begin marks the end of seeding: operations are counted (and faults applied) from here on.
func (s *vstore) begin(faults []faultAt) {
	s.runFrom = len(s.log)
	s.track, s.cur, s.faults, s.nGlobal, s.nPer = true, 0, faults, 0, map[int]int{}
}

// answer decides the environment's answer for the operation that is about to be performed (called with mu held).
func (s *vstore) answer() int {
	if !s.track {
		return 0
	}
	g, p := s.nGlobal, s.nPer[s.cur]
	s.nGlobal++
	s.nPer[s.cur]++
	for _, f := range s.faults {
		if (f.Who < 0 && f.N == g) || (f.Who >= 0 && f.Who == s.cur && f.N == p) {
			if f.Applied {
				return 2
			}
			return 1
		}
	}
	return 0
}

func newVStore(alias map[string]string) *vstore {
	// same construction as storage.NewInMemorySessionDatabase, minus the janitor goroutine (expiry is virtual)
	client := gocacheclient.New(15*time.Minute, 0)
	return &vstore{inner: gocachestore.NewGoCache(client), exp: map[string]time.Time{}, ttl: map[string]time.Duration{},
		alias: alias, present: map[string]bool{}}
}

func (s *vstore) database() storage.SessionDatabase { return storage.VerifNewSessionDatabase(s) }

// name gives a label that is identical in every execution: random last segments (access tokens, generated
// codes) are replaced by '*', the harness's own secrets by their alias.
func (s *vstore) name(k string) string {
	if a, ok := s.alias[k]; ok {
		return a
	}
	if i := strings.LastIndexByte(k, '/'); i >= 0 {
		return k[:i] + "/*"
	}
	return "*"
}

func (s *vstore) abstract() string {
	var names []string
	others := 0
	for k := range s.present {
		if a, ok := s.alias[k]; ok {
			names = append(names, a)
		} else {
			others++
		}
	}
	sort.Strings(names)
	return strings.Join(names, ",") + "#" + strconv.Itoa(others)
}

// expire drops k when the virtual clock is past its expiry (go-cache: now > expiration).
func (s *vstore) expire(ctx context.Context, k string) {
	if e, ok := s.exp[k]; ok && vtime.Now().After(e) {
		_ = s.inner.Delete(ctx, k)
		delete(s.exp, k)
		delete(s.present, k)
	}
}

func (s *vstore) rec(op, k string, found bool, how int, fault ...int) {
	r := opRec{Op: op, Key: k, Found: found, Merged: how == 1, Glued: how == 2, After: s.abstract(), Who: s.cur}
	if len(fault) > 0 {
		r.Fault = fault[0]
	}
	s.log = append(s.log, r)
}

// point is the scheduling point in front of an operation. It is skipped for the first operation of a thread
// (result 1) and, when gluePrivate is set, for operations on request-private keys (result 2).
func (s *vstore) point(op string, k string) int {
	if s.skipPoint {
		s.skipPoint = false
		return 1
	}
	if _, named := s.alias[k]; s.gluePrivate && !named {
		return 2
	}
	me := s.cur
	sched.Point(op + " " + s.name(k))
	if s.track {
		s.cur = me // other threads ran meanwhile; this one holds the baton again
	}
	return 0
}

func (s *vstore) Get(ctx context.Context, key any) (any, error) {
	k := key.(string)
	merged := s.point("get", k)
	s.mu.Lock()
	defer s.mu.Unlock()
	s.expire(ctx, k)
	if f := s.answer(); f != 0 {
		s.rec("get", k, false, merged, 1)
		return nil, errInjected
	}
	v, err := s.inner.Get(ctx, key)
	s.rec("get", k, err == nil, merged)
	return v, s.missGet(err)
}

func (s *vstore) GetWithTTL(ctx context.Context, key any) (any, time.Duration, error) {
	k := key.(string)
	merged := s.point("get", k)
	s.mu.Lock()
	defer s.mu.Unlock()
	s.expire(ctx, k)
	v, _, err := s.inner.GetWithTTL(ctx, key)
	err = s.missGet(err)
	s.rec("get", k, err == nil, merged)
	var left time.Duration
	if e, ok := s.exp[k]; ok {
		left = e.Sub(vtime.Now())
	}
	return v, left, err
}

func (s *vstore) Set(ctx context.Context, key any, value any, options ...store.Option) error {
	k := key.(string)
	merged := s.point("set", k)
	s.mu.Lock()
	defer s.mu.Unlock()
	o := store.ApplyOptions(options...)
	f := s.answer()
	if f == 1 {
		s.rec("set", k, false, merged, 1)
		return errInjected
	}
	// the product's own expiry is replaced by a far one: only the virtual expiry below decides
	err := s.inner.Set(ctx, key, value, append(append([]store.Option{}, options...), store.WithExpiration(24*time.Hour))...)
	if err == nil {
		if o.Expiration > 0 {
			s.exp[k] = vtime.Now().Add(o.Expiration)
			s.ttl[k] = o.Expiration
		} else {
			delete(s.exp, k)
		}
		s.present[k] = true
	}
	s.rec("set", k, false, merged, f)
	if f == 2 {
		return errInjected
	}
	return err
}

func (s *vstore) Delete(ctx context.Context, key any) error {
	k := key.(string)
	merged := s.point("del", k)
	s.mu.Lock()
	defer s.mu.Unlock()
	f := s.answer()
	if f == 1 {
		s.rec("del", k, false, merged, 1)
		return errInjected
	}
	s.expire(ctx, k)
	_, gerr := s.inner.Get(ctx, key)
	existed := gerr == nil
	err := s.inner.Delete(ctx, key)
	delete(s.exp, k)
	delete(s.present, k)
	s.log = append(s.log, opRec{Op: "del", Key: k, Found: existed, Merged: merged == 1, Glued: merged == 2, After: s.abstract(), Who: s.cur, Fault: f})
	if f == 2 {
		return errInjected
	}
	if err == nil && !existed && s.mode == modeMemcached {
		return memcache.ErrCacheMiss // memcached answers NOT_FOUND to the delete of a missing (or expired) key
	}
	return err
}

// Take and SetIfAbsent are atomic primitives that the product does NOT use today (storage.SessionStoreImpl knows
// nothing of them). They exist so that a repair of the double-redemption windows - which needs exactly such a
// primitive per back-end - can be run under this check: each is ONE scheduling point. See mutants/c05/RESULTS.md
// (atomic-primitives sketch) for the run that shows the check is silent when they are used.
func (s *vstore) Take(ctx context.Context, key any) (any, error) {
	k := key.(string)
	how := s.point("take", k)
	s.mu.Lock()
	defer s.mu.Unlock()
	s.expire(ctx, k)
	v, err := s.inner.Get(ctx, key)
	if err == nil {
		_ = s.inner.Delete(ctx, key)
		delete(s.exp, k)
		delete(s.present, k)
	}
	s.rec("take", k, err == nil, how)
	return v, err
}

func (s *vstore) SetIfAbsent(ctx context.Context, key any, value any, options ...store.Option) (bool, error) {
	k := key.(string)
	how := s.point("setnx", k)
	s.mu.Lock()
	defer s.mu.Unlock()
	s.expire(ctx, k)
	if _, err := s.inner.Get(ctx, key); err == nil {
		s.rec("setnx", k, true, how)
		return false, nil
	}
	o := store.ApplyOptions(options...)
	err := s.inner.Set(ctx, key, value, store.WithExpiration(24*time.Hour))
	if err == nil {
		if o.Expiration > 0 {
			s.exp[k] = vtime.Now().Add(o.Expiration)
			s.ttl[k] = o.Expiration
		}
		s.present[k] = true
	}
	s.rec("setnx", k, false, how)
	return err == nil, err
}

func (s *vstore) Invalidate(ctx context.Context, options ...store.InvalidateOption) error {
	return s.inner.Invalidate(ctx, options...)
}
func (s *vstore) Clear(ctx context.Context) error { return s.inner.Clear(ctx) }
func (s *vstore) GetType() string                 { return s.inner.GetType() }

// holds reports whether a live (unexpired at the virtual instant) value is stored under k. Harness-side
// inspection only: no scheduling point, no log entry.
func (s *vstore) holds(k string) bool {
	s.mu.Lock()
	defer s.mu.Unlock()
	if e, ok := s.exp[k]; ok && vtime.Now().After(e) {
		return false
	}
	_, err := s.inner.Get(context.Background(), k)
	return err == nil
}

func (s *vstore) managedOps() []opRec { return s.log[s.runFrom:] }
