//go:build race

package c05

const raceEnabled = true
