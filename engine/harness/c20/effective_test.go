package c20

import (
	"encoding/binary"
	"fmt"
	"io"
	"net"
	"os"
	"path/filepath"
	"reflect"
	"strconv"
	"strings"
	"sync"
	"testing"
	"time"

	"github.com/nuts-foundation/nuts-node/core"
	"github.com/nuts-foundation/nuts-node/crypto"
	"github.com/nuts-foundation/nuts-node/http/client"
	"github.com/nuts-foundation/nuts-node/network"
	"github.com/nuts-foundation/nuts-node/storage"

	"verif/ev"
)

// Effective state. "The node refused to start" is only one way of honouring the statement; the other half is that a strict node
// which DID start is not running on the implicit / insecure default. So on every node that starts — in every section — the
// harness looks at what the node actually runs on, independent of how (and how oddly spelled) the option was given:
//
//	the option values as the engines LOADED them (crypto.storage, storage.sql.connection, tls.*, url)
//	which database file is open        <datadir>/sqlite.db exists = the implicit SQLite database is in use
//	which key-storage back-end         <datadir>/crypto exists    = the file-system back-end is in use
//	which TLS setting the network has  the gRPC listener answers a plaintext HTTP/2 preface with a SETTINGS frame = no TLS
//
// Oracle (strict mode on, node started): no must-be-set option is blank as loaded; the implicit database file is not open unless the
// connection string names it; the file-system back-end is not in use unless crypto.storage names it; the gRPC listener does not
// speak plaintext (unless TLS is documented to be offloaded to a proxy: tls.offload set).
type effState struct {
	Strictmode    bool   `json:"strictmode"`
	URL           string `json:"url"`
	CryptoStorage string `json:"crypto_storage"`
	SQLConnection string `json:"sql_connection"`
	CertFile      string `json:"tls_certfile"`
	CertKeyFile   string `json:"tls_certkeyfile"`
	Offload       string `json:"tls_offload"`
	GRPCAddr      string `json:"grpcaddr"`
	ImplicitDB    bool   `json:"implicit_db_file"` // <datadir>/sqlite.db exists
	FSKeyDir      bool   `json:"fs_key_dir"`       // <datadir>/crypto exists
	GRPCListens   bool   `json:"grpc_listens"`
	GRPCPlain     bool   `json:"grpc_plaintext"` // positive evidence: plaintext HTTP/2 SETTINGS frame received
	ClientStrict  bool   `json:"client_strict"`  // http/client.StrictMode after the start (reported, not judged: the requests are)
	// Loaded: every koanf-tagged scalar option of core.ServerConfig and of every engine's Config(), as the node loaded it (reflection)
	Loaded map[string]string `json:"loaded,omitempty"`
}

// gateRef names one gating option of a case: key, kind and the YAML value as written.
type gateRef struct {
	Key   string `json:"key"`
	Kind  string `json:"kind"`
	Value string `json:"value"`
}

func walkValues(prefix string, v reflect.Value, out map[string]string) {
	for v.Kind() == reflect.Ptr {
		if v.IsNil() {
			return
		}
		v = v.Elem()
	}
	if v.Kind() != reflect.Struct {
		return
	}
	t := v.Type()
	for i := 0; i < t.NumField(); i++ {
		f := t.Field(i)
		tag := f.Tag.Get("koanf")
		if tag == "" || !f.IsExported() {
			continue
		}
		key := tag
		if prefix != "" {
			key = prefix + "." + tag
		}
		fv := v.Field(i)
		for fv.Kind() == reflect.Ptr && !fv.IsNil() {
			fv = fv.Elem()
		}
		switch kindOf(fv.Type()) {
		case "bool", "string", "int", "duration":
			out[key] = fmt.Sprint(fv.Interface())
		case "":
			if fv.Kind() == reflect.Struct {
				walkValues(key, fv, out)
			}
		}
	}
}

// judgeReached: did the gating value that was written to the config file arrive in the configuration the node runs with? If not, the
// gating case says nothing about that option (reported; a key written in a way the loader does not understand is no defect of this property).
func judgeReached(r *ev.Run, nc nodeCase, res startResult) {
	if res.Eff == nil || res.Eff.Loaded == nil {
		return
	}
	for _, g := range nc.Gates {
		got, ok := res.Eff.Loaded[g.Key]
		if !ok {
			continue
		}
		want := g.Value
		switch g.Kind {
		case "bool", "int":
		case "duration":
			d, err := time.ParseDuration(g.Value)
			if err != nil {
				continue
			}
			want = d.String()
		case "string":
			u, err := strconv.Unquote(g.Value)
			if err != nil || strings.Contains(u, "{") {
				continue
			}
			want = u
		default:
			continue
		}
		reached := got == want
		r.Outcome(fmt.Sprintf("gating value reached the node's configuration: %v", reached))
		if !reached {
			r.AddExtra("gating_values_that_did_not_reach_the_configuration", 1)
			r.Observation("an option written to the config file does not arrive in the configuration the node runs with: "+nc.Flag, fmt.Sprintf("written %s, loaded %q", g.Value, got))
		}
	}
}

// resetProcessGlobals puts every package-level variable that the node's engines assign during start-up (grep: only the HTTP engine's
// configureClient does: http/client.StrictMode and http/client.DefaultCachingTransport) back to what a fresh process has, so that a
// value left behind by the previous start cannot stand in for one that this start fails to set.
func resetProcessGlobals() {
	client.StrictMode = false
	client.DefaultCachingTransport = client.SafeHttpTransport
}

func effectiveState(sys *core.System, datadir, grpcAddr string, grpcOpen bool) *effState {
	e := &effState{GRPCAddr: grpcAddr, GRPCListens: grpcOpen, ClientStrict: client.StrictMode, Loaded: map[string]string{}}
	if sys.Config != nil {
		walkValues("", reflect.ValueOf(sys.Config), e.Loaded)
		e.Strictmode, e.URL = sys.Config.Strictmode, sys.Config.URL
		e.CertFile, e.CertKeyFile, e.Offload = sys.Config.TLS.CertFile, sys.Config.TLS.CertKeyFile, string(sys.Config.TLS.Offload)
	}
	sys.VisitEngines(func(en core.Engine) {
		inj, ok := en.(core.Injectable)
		if !ok {
			return
		}
		walkValues(strings.ToLower(inj.Name()), reflect.ValueOf(inj.Config()), e.Loaded)
		switch cfg := inj.Config().(type) {
		case *crypto.Config:
			e.CryptoStorage = cfg.Storage
		case *storage.Config:
			e.SQLConnection = cfg.SQL.ConnectionString
		case *network.Config:
			// the address the node was really given (a gating case may set it by file)
			if cfg.GrpcAddr != "" && cfg.GrpcAddr != grpcAddr {
				e.GRPCAddr = cfg.GrpcAddr
				e.GRPCListens = false
				if c, err := net.DialTimeout("tcp", dialable(cfg.GrpcAddr), time.Second); err == nil {
					e.GRPCListens = true
					c.Close()
				}
			}
		}
	})
	if _, err := os.Stat(filepath.Join(datadir, "sqlite.db")); err == nil {
		e.ImplicitDB = true
	}
	if _, err := os.Stat(filepath.Join(datadir, "crypto")); err == nil {
		e.FSKeyDir = true
	}
	if e.GRPCListens {
		e.GRPCPlain = speaksPlainH2(dialable(e.GRPCAddr))
	}
	return e
}

func dialable(addr string) string {
	if strings.HasPrefix(addr, ":") {
		return "127.0.0.1" + addr
	}
	return addr
}

// speaksPlainH2 sends the HTTP/2 client preface and an empty SETTINGS frame in the clear. A server that does not use TLS answers
// with its own SETTINGS frame (type 4 on stream 0); a TLS server answers with an alert record or closes. Only the SETTINGS frame
// counts (positive evidence); anything else — also a time-out — is "not plaintext".
func speaksPlainH2(addr string) bool {
	c, err := net.DialTimeout("tcp", addr, 2*time.Second)
	if err != nil {
		return false
	}
	defer c.Close()
	_ = c.SetDeadline(time.Now().Add(3 * time.Second))
	if _, err := c.Write([]byte("PRI * HTTP/2.0\r\n\r\nSM\r\n\r\n\x00\x00\x00\x04\x00\x00\x00\x00\x00")); err != nil {
		return false
	}
	hdr := make([]byte, 9)
	if _, err := io.ReadFull(c, hdr); err != nil {
		return false
	}
	length := int(binary.BigEndian.Uint32(append([]byte{0}, hdr[0:3]...)))
	return hdr[3] == 0x4 && length%6 == 0 && length < 1024 && binary.BigEndian.Uint32(hdr[5:9])&0x7fffffff == 0
}

func blank(s string) bool { return strings.TrimSpace(s) == "" }

// judgeEffective applies the effective-state oracle to a node that started. what names the case in messages.
func judgeEffective(r *ev.Run, nc nodeCase, c nodeCfg, res startResult, sfx string) {
	e := res.Eff
	if e == nil || !res.Started {
		return
	}
	r.Outcome(fmt.Sprintf("effective state strict=%v: implicit-db-file=%v fs-key-dir=%v crypto.storage-blank=%v sql.connection-blank=%v grpc-listens=%v grpc-plaintext=%v",
		c.Strict, e.ImplicitDB, e.FSKeyDir, blank(e.CryptoStorage), blank(e.SQLConnection), e.GRPCListens, e.GRPCPlain))
	if !c.Strict {
		return
	}
	where := ev.Key(c)
	if nc.Flag != "" {
		where += " with " + nc.Flag
	}
	if blank(e.SQLConnection) {
		r.Violation("C20|node|effective|sqlite-implicit|connection-blank-as-loaded"+sfx, fmt.Sprintf("strict mode on: the node started although storage.sql.connection as the storage engine loaded it is blank (%q): %s", e.SQLConnection, where), nc)
	}
	if e.ImplicitDB && !strings.Contains(e.SQLConnection, "sqlite.db") {
		r.Violation("C20|node|effective|sqlite-implicit|default-database-file-open"+sfx, fmt.Sprintf("strict mode on: the node runs on the implicit SQLite database (<datadir>/sqlite.db exists, storage.sql.connection=%q does not name it): %s", e.SQLConnection, where), nc)
	}
	if blank(e.CryptoStorage) {
		r.Violation("C20|node|effective|crypto-implicit|storage-blank-as-loaded"+sfx, fmt.Sprintf("strict mode on: the node started although crypto.storage as the crypto engine loaded it is blank (%q): %s", e.CryptoStorage, where), nc)
	}
	if e.FSKeyDir && !strings.EqualFold(strings.TrimSpace(e.CryptoStorage), "fs") {
		r.Violation("C20|node|effective|crypto-implicit|fs-backend-in-use-unnamed"+sfx, fmt.Sprintf("strict mode on: the node keeps its keys in the file-system back-end (<datadir>/crypto exists) although crypto.storage=%q does not name it: %s", e.CryptoStorage, where), nc)
	}
	if e.GRPCPlain && e.Offload == "" {
		r.Violation("C20|node|effective|tls-off|grpc-plaintext"+sfx, fmt.Sprintf("strict mode on: the gRPC network listener %s speaks plaintext HTTP/2 (no TLS, tls.offload not set; tls.certfile=%q): %s", e.GRPCAddr, e.CertFile, where), nc)
	}
	if blank(e.URL) {
		r.Violation("C20|node|effective|url-blank-as-loaded"+sfx, fmt.Sprintf("strict mode on: the node started although its public URL as loaded is blank (%q): %s", e.URL, where), nc)
	}
}

var effGuardOnce sync.Once

// effectiveGuards: vacuity guards of the effective-state probes (once per process). A non-strict node on the implicit back-ends and
// without TLS must show all three facts; the strict baseline must show none of them and a gRPC listener that does not speak plaintext.
func effectiveGuards(t *testing.T) {
	effGuardOnce.Do(func() {
		var why string
		for attempt := 0; attempt < 5; attempt++ { // a loaded machine may let the 3 s plaintext probe time out
			why = ""
			c := baseline(false)
			c.SQL, c.Crypto, c.TLS = "implicit", "implicit", "disabled"
			res := runNode(t, startSpec{Env: c.settings(t)}, nil)
			if e := res.Eff; !res.Started || e == nil || !e.ImplicitDB || !e.FSKeyDir || !e.GRPCListens || !e.GRPCPlain || !blank(e.SQLConnection) || !blank(e.CryptoStorage) {
				why = fmt.Sprintf("non-strict node on implicit back-ends without TLS: started=%v refusal=%q effective=%+v", res.Started, res.Refusal, e)
				continue
			}
			res = runNode(t, startSpec{Env: baseline(true).settings(t)}, nil)
			if e := res.Eff; !res.Started || e == nil || e.ImplicitDB || !e.FSKeyDir || !e.GRPCListens || e.GRPCPlain || e.CryptoStorage != "fs" || blank(e.SQLConnection) || !e.Strictmode {
				why = fmt.Sprintf("strict baseline: started=%v refusal=%q effective=%+v", res.Started, res.Refusal, e)
				continue
			}
			return
		}
		t.Fatalf("effective-state probes do not see what they should (harness broken): %s", why)
	})
}
