package c20

import (
	"fmt"
	"net"
	nethttp "net/http"
	"strings"
	"sync"
	"sync/atomic"

	"verif/netlab"
)

// The lab: two HTTPS origins and one plain-HTTP listener that answers for both names on port 80.
const (
	hostOrigin   = "origin.verif-lab.nl"
	hostOther    = "other.verif-lab.nl"
	hostIP       = "192.0.2.10" // TEST-NET-1; only ever dialled inside the lab
	hostReserved = "node.localhost"
)

// hostClasses: the host classes over which endpoints taken from remote answers range. "public" is the only class a strict node
// may contact according to ParsePublicURL(strict) (no IP literal, no RFC 2606 / rfc2606bis reserved name).
var hostClasses = map[string]string{
	"public": hostOrigin, "ipv4": hostIP, "ipv6": "[2001:db8::1]", "link-local": "169.254.169.254", "loopback": "127.0.0.1",
	"localhost": "localhost", "dot-local": "node.local", "reserved-tld": "node.test", "example-com": "www.example.com",
}

var hostClassOrder = []string{"public", "ipv4", "ipv6", "link-local", "loopback", "localhost", "dot-local", "reserved-tld", "example-com"}

// classOfHost maps a Host header (with or without port) back to its class ("" = not one of ours).
func classOfHost(h string) string {
	if hh, _, err := net.SplitHostPort(h); err == nil {
		h = hh
	}
	h = strings.Trim(h, "[]")
	for cl, name := range hostClasses {
		if strings.Trim(name, "[]") == h {
			return cl
		}
	}
	switch h {
	case hostOther:
		return "public"
	case hostReserved:
		return "reserved-tld"
	}
	return ""
}

var (
	lab     *netlab.Lab
	labOnce sync.Once
	nonce   atomic.Int64
)

func theLab() *netlab.Lab {
	labOnce.Do(func() {
		lab = netlab.New(labHandler)
		lab.AddTLS("origin-tls", hostOrigin+":443")
		lab.AddTLS("other-tls", hostOther+":443")
		lab.AddTLS("ip-tls", hostIP+":443")
		lab.AddTLS("reserved-tls", hostReserved+":443")
		plain := []string{hostOrigin + ":80", hostOther + ":80", hostIP + ":80", hostReserved + ":80"}
		var nonPublic []string
		for cl, h := range hostClasses {
			if cl == "public" || cl == "ipv4" {
				continue
			}
			nonPublic = append(nonPublic, h+":443")
			plain = append(plain, h+":80")
		}
		lab.AddTLS("non-public-tls", nonPublic...)
		lab.AddPlain("plain", plain...)
		lab.Install()
	})
	return lab
}

func nextNonce() string { return fmt.Sprintf("n%d", nonce.Add(1)) }

// Paths are /<nonce>/<behaviour>[/tail…]. Behaviours:
//
//	ok                      200, a JSON document that is at once a DID document (id = ?id= or derived from host+path),
//	                        OAuth metadata and a JSON-LD context
//	r<code>-<target>        redirect with <code> to <target> ∈ same-https | other-https | same-http | other-http | same-HTTP,
//	                        Location = <target origin>/<nonce>/ok/<tail>?id=<did of this request>
//	rr<code>-<target>       redirect to https same host r<code>-<target> first (two hops)
func labHandler(listener string, w nethttp.ResponseWriter, r *nethttp.Request) {
	segs := strings.Split(strings.TrimPrefix(r.URL.Path, "/"), "/")
	if len(segs) >= 3 && segs[0] == ".well-known" { // RFC 8414 style: /.well-known/<name>/<issuer path>
		segs = segs[2:]
	}
	if len(segs) < 2 {
		nethttp.Error(w, "no such thing", 404)
		return
	}
	host := r.Host
	if hh, _, err := net.SplitHostPort(host); err == nil {
		host = hh
		if strings.Contains(hh, ":") {
			host = "[" + hh + "]"
		}
	}
	didSegs := segs
	if n := len(didSegs); n > 0 && didSegs[n-1] == "did.json" {
		didSegs = didSegs[:n-1]
	}
	id := r.URL.Query().Get("id")
	if id == "" {
		id = "did:web:" + host + ":" + strings.Join(didSegs, ":")
	}
	beh, tail := segs[1], strings.Join(segs[2:], "/")
	switch {
	case beh == "asmeta" && len(segs) >= 6:
		// authorization-server / credential-issuer metadata whose endpoints live elsewhere:
		// /<nonce>/asmeta/<class of the presentation-definition endpoint>/<scheme>/<class of the token endpoint>/<scheme>
		pd := fmt.Sprintf("%s://%s/%s/pd/x", segs[3], hostClasses[segs[2]], segs[0])
		tok := fmt.Sprintf("%s://%s/%s/token/x", segs[5], hostClasses[segs[4]], segs[0])
		w.Header().Set("Content-Type", "application/json")
		fmt.Fprintf(w, `{"issuer":"https://%s/%s","presentation_definition_endpoint":%q,"token_endpoint":%q,"authorization_endpoint":%q,"credential_endpoint":%q,"credential_issuer":"https://%s/%s","did_methods_supported":["web","nuts","jwk"],`+
			`"vp_formats_supported":{"jwt_vp":{"alg_values_supported":["ES256"]},"jwt_vc":{"alg_values_supported":["ES256"]},"ldp_vp":{"proof_type_values_supported":["JsonWebSignature2020"]},"ldp_vc":{"proof_type_values_supported":["JsonWebSignature2020"]}},`+
			`"client_id_schemes_supported":["entity_id"]}`, r.Host, strings.Join(segs, "/"), pd, tok, tok, pd, r.Host, strings.Join(segs, "/"))
	case beh == "pd":
		w.Header().Set("Content-Type", "application/json")
		fmt.Fprint(w, `{"id":"verif-pd","input_descriptors":[]}`)
	case beh == "token":
		w.Header().Set("Content-Type", "application/json")
		fmt.Fprint(w, `{"access_token":"verif-token","token_type":"bearer","expires_in":60}`)
	case beh == "ok":
		w.Header().Set("Content-Type", "application/json")
		fmt.Fprintf(w, `{"@context":["https://www.w3.org/ns/did/v1"],"id":%q,"servedBy":%q,"issuer":"https://%s","client_id":"x"}`, id, listener, host)
	case beh == "ctx":
		w.Header().Set("Content-Type", "application/ld+json")
		fmt.Fprintf(w, `{"@context":{"verifTerm":"https://verif-lab.nl/terms#verifTerm"}}`)
	case strings.HasPrefix(beh, "rr"):
		var code int
		var target string
		fmt.Sscanf(beh, "rr%d-%s", &code, &target)
		w.Header().Set("Location", fmt.Sprintf("https://%s/%s/r%d-%s/%s?id=%s", host, segs[0], code, target, tail, id))
		w.WriteHeader(code)
	case strings.HasPrefix(beh, "r"):
		var code int
		var target string
		fmt.Sscanf(beh, "r%d-%s", &code, &target)
		other := hostOther
		if host == hostOther {
			other = hostOrigin
		}
		var origin string
		switch target {
		case "same-https":
			origin = "https://" + host
		case "other-https":
			origin = "https://" + other
		case "same-http":
			origin = "http://" + host
		case "same-HTTP": // the scheme of the redirect target in capitals
			origin = "HTTP://" + host
		case "other-http":
			origin = "http://" + other
		default:
			nethttp.Error(w, "bad target", 500)
			return
		}
		w.Header().Set("Location", fmt.Sprintf("%s/%s/ok/%s?id=%s", origin, segs[0], tail, id))
		w.WriteHeader(code)
	default:
		nethttp.Error(w, "no such thing", 404)
	}
}

// plainHits returns the requests that reached the plain-HTTP listener.
func plainHits(hits []netlab.Hit) []netlab.Hit {
	var out []netlab.Hit
	for _, h := range hits {
		if h.Scheme == "http" {
			out = append(out, h)
		}
	}
	return out
}
