package c20

import (
	"fmt"
	nethttp "net/http"
	"strings"
	"sync"
	"sync/atomic"

	"verif/netlab"
)

// The lab: two HTTPS origins and one plain-HTTP listener that answers for both names on port 80.
const (
	hostOrigin   = "origin.verif-lab.nl"
	hostOther    = "other.verif-lab.nl"
	hostIP       = "192.0.2.10" // TEST-NET-1; only ever dialled inside the lab
	hostReserved = "node.localhost"
)

var (
	lab     *netlab.Lab
	labOnce sync.Once
	nonce   atomic.Int64
)

func theLab() *netlab.Lab {
	labOnce.Do(func() {
		lab = netlab.New(labHandler)
		lab.AddTLS("origin-tls", hostOrigin+":443")
		lab.AddTLS("other-tls", hostOther+":443")
		lab.AddTLS("ip-tls", hostIP+":443")
		lab.AddTLS("reserved-tls", hostReserved+":443")
		lab.AddPlain("plain", hostOrigin+":80", hostOther+":80", hostIP+":80", hostReserved+":80")
		lab.Install()
	})
	return lab
}

func nextNonce() string { return fmt.Sprintf("n%d", nonce.Add(1)) }

// Paths are /<nonce>/<behaviour>[/tail…]. Behaviours:
//
//	ok                      200, a JSON document that is at once a DID document (id = ?id= or derived from host+path),
//	                        OAuth metadata and a JSON-LD context
//	r<code>-<target>        redirect with <code> to <target> ∈ same-https | other-https | same-http | other-http,
//	                        Location = <target origin>/<nonce>/ok/<tail>?id=<did of this request>
//	rr<code>-<target>       redirect to https same host r<code>-<target> first (two hops)
func labHandler(listener string, w nethttp.ResponseWriter, r *nethttp.Request) {
	segs := strings.Split(strings.TrimPrefix(r.URL.Path, "/"), "/")
	if len(segs) >= 3 && segs[0] == ".well-known" { // RFC 8414 style: /.well-known/<name>/<issuer path>
		segs = segs[2:]
	}
	if len(segs) < 2 {
		nethttp.Error(w, "no such thing", 404)
		return
	}
	host := r.Host
	if i := strings.Index(host, ":"); i >= 0 {
		host = host[:i]
	}
	didSegs := segs
	if n := len(didSegs); n > 0 && didSegs[n-1] == "did.json" {
		didSegs = didSegs[:n-1]
	}
	id := r.URL.Query().Get("id")
	if id == "" {
		id = "did:web:" + host + ":" + strings.Join(didSegs, ":")
	}
	beh, tail := segs[1], strings.Join(segs[2:], "/")
	switch {
	case beh == "ok":
		w.Header().Set("Content-Type", "application/json")
		fmt.Fprintf(w, `{"@context":["https://www.w3.org/ns/did/v1"],"id":%q,"servedBy":%q,"issuer":"https://%s","client_id":"x"}`, id, listener, host)
	case beh == "ctx":
		w.Header().Set("Content-Type", "application/ld+json")
		fmt.Fprintf(w, `{"@context":{"verifTerm":"https://verif-lab.nl/terms#verifTerm"}}`)
	case strings.HasPrefix(beh, "rr"):
		var code int
		var target string
		fmt.Sscanf(beh, "rr%d-%s", &code, &target)
		w.Header().Set("Location", fmt.Sprintf("https://%s/%s/r%d-%s/%s?id=%s", host, segs[0], code, target, tail, id))
		w.WriteHeader(code)
	case strings.HasPrefix(beh, "r"):
		var code int
		var target string
		fmt.Sscanf(beh, "r%d-%s", &code, &target)
		other := hostOther
		if host == hostOther {
			other = hostOrigin
		}
		var origin string
		switch target {
		case "same-https":
			origin = "https://" + host
		case "other-https":
			origin = "https://" + other
		case "same-http":
			origin = "http://" + host
		case "other-http":
			origin = "http://" + other
		default:
			nethttp.Error(w, "bad target", 500)
			return
		}
		w.Header().Set("Location", fmt.Sprintf("%s/%s/ok/%s?id=%s", origin, segs[0], tail, id))
		w.WriteHeader(code)
	default:
		nethttp.Error(w, "no such thing", 404)
	}
}

// plainHits returns the requests that reached the plain-HTTP listener.
func plainHits(hits []netlab.Hit) []netlab.Hit {
	var out []netlab.Hit
	for _, h := range hits {
		if h.Scheme == "http" {
			out = append(out, h)
		}
	}
	return out
}
