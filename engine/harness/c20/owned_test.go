package c20

import (
	"context"
	"encoding/json"
	"fmt"
	nethttp "net/http"
	"net/url"
	"strings"

	"github.com/nuts-foundation/go-did/did"
	"github.com/nuts-foundation/go-did/vc"
	"github.com/nuts-foundation/nuts-node/audit"
	"github.com/nuts-foundation/nuts-node/auth"
	"github.com/nuts-foundation/nuts-node/core"
	"github.com/nuts-foundation/nuts-node/discovery"
	"github.com/nuts-foundation/nuts-node/vcr"
	"github.com/nuts-foundation/nuts-node/vdr/didsubject"

	"verif/ev"
	"verif/netlab"
)

// Owned clients. The assembled node builds its outbound HTTP clients during its own start-up (engines are configured in the order
// cmd.CreateSystem registers them; http.Engine, which sets client.StrictMode, comes last). On every started node one plain-http
// request and one https->http redirect is driven through EACH client the node owns, reached through the node's own engines.
//
// Call sites of client.New / NewWithCache / NewWithTLSConfig (grep over the non-test sources) and their probe:
//
//	vdr/didweb/web.go:47          didweb.NewResolver (vdr.Configure)        vdr.Resolver().Resolve(did:web) — first hop is https by construction, redirect probe only
//	vcr/vcr.go:232                StatusList2021 client (vcr.Configure)     vcr.Verifier().Verify(credential whose statusListCredential is the probe URL)
//	vcr/vcr.go:222,223            OpenID4VCI issuer / wallet clients        the two client objects themselves (injected export VerifOpenID4VCIClients): reaching them through
//	                                                                        the wallet/issuer handlers needs a did:nuts document with a base-URL service
//	discovery/module.go:109 (-> discovery/api/server/client/http.go:39)     discovery.Server.Register forwarded to a service whose endpoint is the probe URL; the client's
//	                                                                        background refresh at start polls the same endpoints and is picked up from the lab's record
//	auth/client/iam/openid4vp.go:71   built by auth.IAMClient() per use     IAMClient().ClientMetadata and RequestRFC021AccessToken (metadata naming further endpoints)
//	auth/services/oauth/relying_party.go:113  built per request             auth.RelyingParty().RequestRFC003AccessToken
//	vcr/openid4vci/identifiers.go:147  built per resolution                 not probed on the node (needs a DID document service to resolve); same constructor per call
//	jsonld (json-gold default loader, http.DefaultClient)                   DocumentLoader().LoadDocument (node_test.go)
//	pki denylist / CRL, crypto external / vault, CLI clients                plain net/http clients configured by the operator: not strict clients, out of scope

const discoveryDefinitions = `{"id":"verif-plain","endpoint":"http://` + hostOrigin + `/pdisc-plain/ok/discovery","presentation_max_validity":36000,"presentation_definition":{"id":"pd","input_descriptors":[{"id":"1","constraints":{"fields":[{"path":["$.type"]}]}}]}}`
const discoveryDefinitionsRedirect = `{"id":"verif-redirect","endpoint":"https://` + hostOrigin + `/pdisc-redirect/r302-same-http/discovery","presentation_max_validity":36000,"presentation_definition":{"id":"pd","input_descriptors":[{"id":"1","constraints":{"fields":[{"path":["$.type"]}]}}]}}`

var ownedFiles = map[string]string{"discovery/plain.json": discoveryDefinitions, "discovery/redirect.json": discoveryDefinitionsRedirect}

type ownedObs struct {
	Plain    int    `json:"plain_hits"`    // direct plain-http probe: requests that reached the plain listener
	Redirect int    `json:"redirect_hits"` // https -> 302 -> http probe: requests that reached the plain listener
	Err      string `json:"err,omitempty"`
	Skipped  string `json:"skipped,omitempty"`
}

func statusCredential(statusURL string) vc.VerifiableCredential {
	raw := fmt.Sprintf(`{"@context":["https://www.w3.org/2018/credentials/v1","https://w3id.org/vc/status-list/2021/v1"],"id":"did:web:issuer.verif-lab.nl#1",`+
		`"type":["VerifiableCredential","VerifCredential"],"issuer":"did:web:issuer.verif-lab.nl","issuanceDate":"2024-01-01T00:00:00Z","credentialSubject":{"id":"did:web:subject.verif-lab.nl"},`+
		`"credentialStatus":{"id":%q,"type":"StatusList2021Entry","statusPurpose":"revocation","statusListIndex":"1","statusListCredential":%q}}`, statusURL+"#1", statusURL)
	var c vc.VerifiableCredential
	_ = json.Unmarshal([]byte(raw), &c)
	return c
}

func countPlain(hits []netlab.Hit, marker string) int {
	n := 0
	for _, h := range hits {
		if h.Scheme == "http" && strings.Contains(h.URI, marker) {
			n++
		}
	}
	return n
}

// ownedClientProbes drives the probes. startHits are the requests the lab saw before the first probe (background activity of the
// node during and right after start-up).
func ownedClientProbes(c nodeCfg, sys *core.System, startHits []netlab.Hit) (map[string]ownedObs, []string) {
	l := theLab()
	out := map[string]ownedObs{}
	ctx, cancel := context.WithTimeout(audit.TestContext(), 30e9)
	defer cancel()
	// each probe: f(url) performs the call; it is run with a plain-http URL and with an https URL that redirects to http
	probe := func(name string, f func(u string) error) {
		var o ownedObs
		for i, beh := range []string{"ok", "r302-same-http"} {
			scheme := "http"
			if i == 1 {
				scheme = "https"
			}
			marker := "/" + nextNonce() + "/"
			u := scheme + "://" + hostOrigin + marker + beh + "/x"
			l.Take()
			var err error
			func() {
				defer func() {
					if p := recover(); p != nil {
						err = fmt.Errorf("PANIC: %v", p)
					}
				}()
				err = f(u)
			}()
			hits, _ := l.Take()
			if i == 0 {
				o.Plain = countPlain(hits, marker)
				if err != nil {
					o.Err = err.Error()
				}
			} else {
				o.Redirect = countPlain(hits, marker)
			}
		}
		out[name] = o
	}
	if v, ok := sys.FindEngineByName("vcr").(vcr.VCR); ok {
		probe("vcr.StatusList2021", func(u string) error { return v.Verifier().Verify(statusCredential(u), true, false, nil) })
		issuer, wallet := vcr.VerifOpenID4VCIClients(v)
		for name, cl := range map[string]core.HTTPRequestDoer{"vcr.OpenID4VCI-issuer-client": issuer, "vcr.OpenID4VCI-wallet-client": wallet} {
			if cl == nil {
				out[name] = ownedObs{Skipped: "OpenID4VCI disabled"}
				continue
			}
			cl := cl
			probe(name, func(u string) error {
				req, err := nethttp.NewRequestWithContext(ctx, "GET", u, nil)
				if err != nil {
					return err
				}
				resp, err := cl.Do(req)
				if err == nil {
					resp.Body.Close()
				}
				return err
			})
		}
	}
	if a, ok := sys.FindEngineByName("auth").(auth.AuthenticationServices); ok {
		probe("auth.RelyingParty.RequestRFC003AccessToken", func(u string) error {
			pu, _ := url.Parse(u)
			_, err := a.RelyingParty().RequestRFC003AccessToken(ctx, "grant", *pu)
			return err
		})
	}
	// discovery: the endpoints are fixed in the definition files
	if d, ok := sys.FindEngineByName("discovery").(discovery.Server); ok {
		var o ownedObs
		l.Take()
		err := d.Register(ctx, "verif-plain", vc.VerifiablePresentation{})
		hits, _ := l.Take()
		o.Plain = countPlain(hits, "/pdisc-plain/")
		if err != nil {
			o.Err = err.Error()
		}
		_ = d.Register(ctx, "verif-redirect", vc.VerifiablePresentation{})
		hits, _ = l.Take()
		o.Redirect = countPlain(hits, "/pdisc-redirect/")
		out["discovery.Register(forward)"] = o
		// the background refresh of the discovery client polls the same endpoints right after start
		out["discovery.client(background refresh)"] = ownedObs{Plain: countPlain(startHits, "/pdisc-plain/"), Redirect: countPlain(startHits, "/pdisc-redirect/")}
	}
	// RFC021 through the node's own IAM client and a real subject: endpoints named by remote metadata
	var flows []string
	if a, ok := sys.FindEngineByName("auth").(auth.AuthenticationServices); ok {
		if mgr, ok := sys.FindEngineByName("vdr").(didsubject.Manager); ok {
			if _, subject, err := mgr.Create(ctx, didsubject.DefaultCreationOptions()); err == nil {
				for _, f := range [][4]string{{"public", "http", "public", "https"}, {"loopback", "https", "public", "https"}, {"public", "https", "public", "http"}, {"public", "https", "link-local", "https"}, {"public", "https", "localhost", "https"}} {
					issuer := fmt.Sprintf("https://%s/%s/asmeta/%s/%s/%s/%s", hostOrigin, nextNonce(), f[0], f[1], f[2], f[3])
					l.Take()
					_, err := a.IAMClient().RequestRFC021AccessToken(ctx, "https://client.verif-lab.nl", subject, issuer, "scope", false, nil)
					hits, _ := l.Take()
					for _, h := range hits {
						flows = append(flows, fmt.Sprintf("%s|%s|%s|%s", stepOf(h), h.Scheme, classOfHost(h.Host), h.Host+h.URI))
					}
					_ = err
				}
			} else {
				flows = append(flows, "no-subject: "+err.Error())
			}
		}
	}
	return out, flows
}

// judgeOwned applies the oracle: strict => no plain-http request leaves the node through any owned client (directly or after a
// redirect), and the IAM client calls no endpoint on a host class that ParsePublicURL(strict) refuses.
func judgeOwned(r *ev.Run, nc nodeCase, c nodeCfg, owned map[string]ownedObs, flows []string, sfx string) {
	for name, o := range owned {
		if o.Skipped != "" {
			continue
		}
		r.Outcome(fmt.Sprintf("owned client %s strict=%v: plain=%v redirect-to-http=%v", name, c.Strict, o.Plain > 0, o.Redirect > 0))
		if c.Strict {
			if o.Plain > 0 {
				r.Violation("C20|outbound|plain-http|node:"+name+sfx, fmt.Sprintf("strict mode on: a plain-http request left the assembled node through %s (the client the node built during its own start-up): %s", name, ev.Key(c)), nc)
			}
			if o.Redirect > 0 {
				r.Violation("C20|outbound|redirect-to-http|node:"+name+sfx, fmt.Sprintf("strict mode on: %s of the assembled node followed a redirect from https to plain http: %s", name, ev.Key(c)), nc)
			}
		} else if o.Plain == 0 && !strings.Contains(name, "background") {
			r.Observation("strict mode off: no plain-http request through "+name, o.Err)
		}
	}
	for _, f := range flows {
		p := strings.SplitN(f, "|", 4)
		if len(p) < 4 {
			r.Observation("RFC021 node probe not run", f)
			continue
		}
		r.Outcome(fmt.Sprintf("node rfc021 strict=%v: %s over %s on %s host", c.Strict, p[0], p[1], p[2]))
		if !c.Strict {
			continue
		}
		if p[1] == "http" {
			r.Violation("C20|outbound|plain-http|node:iam.RequestRFC021AccessToken:"+p[0]+sfx, fmt.Sprintf("strict mode on: the node's IAM client sent a plain-http request to the %s named by remote metadata (%s): %s", p[0], p[3], ev.Key(c)), nc)
		}
		if p[2] != "public" {
			r.Violation("C20|outbound|non-public-host|node:iam.RequestRFC021AccessToken:"+p[0]+sfx, fmt.Sprintf("strict mode on: the node's IAM client called the %s named by remote metadata on a %s host (%s): %s", p[0], p[2], p[3], ev.Key(c)), nc)
		}
	}
}

// globalClientProbes: the whole caller battery of outbound_test.go (every constructor of the strict HTTP client and every caller
// wrapping one) is driven once more while THIS node runs, against whatever process-wide state the node's own start-up left behind
// (http/client.StrictMode, the default caching transport) — the harness does not set that state here. One plain-http request and one
// https -> 302 -> http redirect per caller.
func globalClientProbes(c nodeCfg) map[string]ownedObs {
	l := theLab()
	out := map[string]ownedObs{}
	var names []string
	for v := range vias {
		names = append(names, v)
	}
	sortStrings(names)
	for _, via := range names {
		var o ownedObs
		for i, beh := range []string{"ok", "r302-same-http"} {
			scheme := "http"
			if i == 1 {
				scheme = "https"
			}
			if via == "didweb.Resolve" && i == 0 {
				continue // a did:web identifier cannot express plain http
			}
			n := nextNonce()
			u := fmt.Sprintf("%s://%s/%s/%s/x", scheme, hostOrigin, n, beh)
			id := did.DID{}
			if via == "didweb.Resolve" {
				id = did.MustParseDID(fmt.Sprintf("did:web:%s:%s:%s:x", hostOrigin, n, beh))
			}
			ctx, cancel := context.WithTimeout(context.Background(), 2*outTimeout)
			l.Take()
			var err error
			func() {
				defer func() {
					if p := recover(); p != nil {
						err = fmt.Errorf("PANIC: %v", p)
					}
				}()
				err = vias[via](ctx, c.Strict, u, id)
			}()
			cancel()
			hits, _ := l.Take()
			if i == 0 {
				o.Plain = countPlain(hits, "/"+n+"/")
				if err != nil {
					o.Err = err.Error()
				}
			} else {
				o.Redirect = countPlain(hits, "/"+n+"/")
			}
		}
		out[via] = o
	}
	return out
}

func judgeGlobal(r *ev.Run, nc nodeCase, c nodeCfg, global map[string]ownedObs, sfx string) {
	for via, o := range global {
		r.Outcome(fmt.Sprintf("caller %s while the node runs, strict=%v: plain=%v redirect-to-http=%v", via, c.Strict, o.Plain > 0, o.Redirect > 0))
		if !c.Strict {
			continue
		}
		if o.Plain > 0 {
			r.Violation("C20|outbound|plain-http|running-node:"+via+sfx, fmt.Sprintf("strict mode on: while the assembled node runs, %s sends a plain-http request (the node's start-up did not arm the strict HTTP client): %s %s", via, ev.Key(c), nc.Flag), nc)
		}
		if o.Redirect > 0 {
			r.Violation("C20|outbound|redirect-to-http|running-node:"+via+sfx, fmt.Sprintf("strict mode on: while the assembled node runs, %s follows a redirect from https to plain http: %s %s", via, ev.Key(c), nc.Flag), nc)
		}
	}
}
