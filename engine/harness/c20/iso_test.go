package c20

import (
	"bufio"
	"context"
	"encoding/json"
	"fmt"
	"os"
	"os/exec"
	"path/filepath"
	"strconv"
	"strings"
	"testing"
	"time"
)

// Isolated cases. Some values of the gating alphabet (zero, negative and very large numbers and durations) can take the whole
// process down — a ticker with a non-positive interval panics in a bare goroutine, a zero time-out can hang a start — and a test
// process cannot recover from that. Such cases are run in a CHILD process (this very test binary, test TestVerifC20Child): the child
// starts the node of each case, runs the action battery and writes start result + observations as one JSON line per case; the parent
// judges them with the ordinary oracle. A child that dies or hangs costs exactly the case it was running (reported as an
// observation: a crashed node is not a started node) and is restarted for the rest of its batch.

type isoOut struct {
	Idx int         `json:"idx"`
	Res startResult `json:"res"`
	Obs actionObs   `json:"obs"`
}

type isoIn struct {
	Cases   []nodeCase      `json:"cases"`
	DummyVP json.RawMessage `json:"dummy_vp,omitempty"`
}

// selfExe: this test binary (os.Args is overwritten by the node starter)
var selfExe = func() string {
	if p, err := os.Executable(); err == nil {
		return p
	}
	return os.Args[0]
}()

var (
	startDeadline = 30 * time.Second // how long a node may take to answer /status
	maxHangs      = 2                // hangs tolerated per process before the harness gives up
)

const (
	envChildIn   = "VERIF_C20_CHILD_IN"
	envChildOut  = "VERIF_C20_CHILD_OUT"
	envChildFrom = "VERIF_C20_CHILD_FROM"
)

// TestVerifC20Child is the child side; it does nothing unless started by runIsolated.
func TestVerifC20Child(t *testing.T) {
	inFile, outFile := os.Getenv(envChildIn), os.Getenv(envChildOut)
	if inFile == "" || outFile == "" {
		t.Skip("child side of the isolated cases of TestVerifC20")
	}
	raw, err := os.ReadFile(inFile)
	if err != nil {
		t.Fatal(err)
	}
	var in isoIn
	if err := json.Unmarshal(raw, &in); err != nil {
		t.Fatal(err)
	}
	from, _ := strconv.Atoi(os.Getenv(envChildFrom))
	out, err := os.OpenFile(outFile, os.O_APPEND|os.O_CREATE|os.O_WRONLY, 0o600)
	if err != nil {
		t.Fatal(err)
	}
	defer out.Close()
	installLogrus()
	theLab()
	dummyVP = in.DummyVP
	// a start that neither serves nor refuses is given up quickly here: it costs one case, not the run
	startDeadline, maxHangs = 10*time.Second, 0
	for i := from; i < len(in.Cases); i++ {
		fmt.Fprintf(out, "BEGIN %d\n", i)
		res, obs := execCfgCase(t, in.Cases[i])
		// a goroutine of the node that dies a moment after the start (first tick of a ticker) still belongs to this case
		time.Sleep(30 * time.Millisecond)
		b, _ := json.Marshal(isoOut{Idx: i, Res: res, Obs: obs})
		fmt.Fprintf(out, "RESULT %s\n", b)
	}
	fmt.Fprintf(out, "DONE\n")
}

// runIsolated runs the cases in child processes and returns one result per case (Res.Crashed set when the child died on it).
func runIsolated(t testing.TB, cases []nodeCase) []isoOut {
	results := make([]isoOut, len(cases))
	if len(cases) == 0 {
		return results
	}
	dir, err := os.MkdirTemp("", "c20iso")
	if err != nil {
		t.Fatal(err)
	}
	defer os.RemoveAll(dir)
	inFile, outFile := filepath.Join(dir, "in.json"), filepath.Join(dir, "out.jsonl")
	b, _ := json.Marshal(isoIn{Cases: cases, DummyVP: dummyVP})
	if err := os.WriteFile(inFile, b, 0o600); err != nil {
		t.Fatal(err)
	}
	done := make([]bool, len(cases))
	from, spawns, early := 0, 0, 0
	for from < len(cases) {
		spawns++
		if spawns > 2*len(cases)+6 {
			t.Fatalf("isolated cases: child restarted %d times for %d cases (harness broken)", spawns, len(cases))
		}
		_ = os.Remove(outFile)
		ctx, cancel := context.WithTimeout(context.Background(), time.Duration(120+20*(len(cases)-from))*time.Second)
		cmd := exec.CommandContext(ctx, selfExe, "-test.run", "^TestVerifC20Child$", "-test.count=1", "-test.timeout", "0")
		cmd.Env = append(childEnv(), envChildIn+"="+inFile, envChildOut+"="+outFile, envChildFrom+"="+strconv.Itoa(from))
		tail := &tailWriter{max: 6000}
		cmd.Stdout, cmd.Stderr = tail, tail
		cmd.WaitDelay = 5 * time.Second
		runErr := cmd.Run()
		cancel()
		begun, finished := -1, false
		if f, err := os.Open(outFile); err == nil {
			sc := bufio.NewScanner(f)
			sc.Buffer(make([]byte, 1<<20), 64<<20)
			for sc.Scan() {
				line := sc.Text()
				switch {
				case strings.HasPrefix(line, "BEGIN "):
					begun, _ = strconv.Atoi(line[6:])
				case strings.HasPrefix(line, "RESULT "):
					var o isoOut
					if json.Unmarshal([]byte(line[7:]), &o) == nil && o.Idx >= 0 && o.Idx < len(cases) {
						results[o.Idx], done[o.Idx] = o, true
					}
				case line == "DONE":
					finished = true
				}
			}
			f.Close()
		}
		if finished {
			break
		}
		// the child died: on the case it had begun (or before its first case: the harness, not a case)
		if begun < from {
			// died before its first case: not a case's doing (no port block left, machine out of memory, ...). Try again, then give the
			// batch up as not explored — never a verdict, never a failure of the run
			early++
			if early < 3 {
				time.Sleep(time.Duration(early) * time.Second)
				continue
			}
			for i := from; i < len(cases); i++ {
				if !done[i] {
					results[i] = isoOut{Idx: i, Res: startResult{Crashed: fmt.Sprintf("harness: the child process could not run its cases (%v): %s", runErr, crashLine(tail.String()))}}
					done[i] = true
				}
			}
			break
		}
		early = 0
		if !done[begun] {
			results[begun] = isoOut{Idx: begun, Res: startResult{Crashed: fmt.Sprintf("%v: %s", runErr, crashLine(tail.String()))}}
			done[begun] = true
		}
		from = begun + 1
	}
	for i := range done {
		if !done[i] {
			results[i] = isoOut{Idx: i, Res: startResult{Crashed: "no result from the child process"}}
		}
	}
	return results
}

// childEnv: the parent's environment without what belongs to the parent's own reporting.
func childEnv() []string {
	var out []string
	for _, kv := range os.Environ() {
		if strings.HasPrefix(kv, "VERIF_REPORT=") || strings.HasPrefix(kv, "VERIF_REPLAY=") || strings.HasPrefix(kv, "NUTS_") {
			continue
		}
		out = append(out, kv)
	}
	return out
}

// crashLine picks the line that says why a Go process died.
func crashLine(s string) string {
	for _, l := range strings.Split(s, "\n") {
		if strings.HasPrefix(l, "panic:") || strings.HasPrefix(l, "fatal error:") || strings.Contains(l, "neither started nor refused") || strings.Contains(l, "did not shut down") {
			if len(l) > 200 {
				l = l[:200]
			}
			return l
		}
	}
	if len(s) > 200 {
		s = s[len(s)-200:]
	}
	return s
}

type tailWriter struct {
	buf []byte
	max int
}

func (w *tailWriter) Write(p []byte) (int, error) {
	w.buf = append(w.buf, p...)
	if len(w.buf) > 2*w.max {
		// keep the head (that is where a panic message is) and the tail
		w.buf = append(w.buf[:w.max:w.max], w.buf[len(w.buf)-w.max:]...)
	}
	return len(p), nil
}
func (w *tailWriter) String() string { return string(w.buf) }
