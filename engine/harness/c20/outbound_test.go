package c20

import (
	"context"
	"fmt"
	"io"
	nethttp "net/http"
	"net/url"
	"strings"
	"testing"
	"time"

	"github.com/nuts-foundation/go-did/did"
	"github.com/nuts-foundation/go-did/vc"
	"github.com/nuts-foundation/nuts-node/auth/client/iam"
	"github.com/nuts-foundation/nuts-node/auth/oauth"
	legacyoauth "github.com/nuts-foundation/nuts-node/auth/services/oauth"
	discoveryclient "github.com/nuts-foundation/nuts-node/discovery/api/server/client"
	"github.com/nuts-foundation/nuts-node/http/client"
	"github.com/nuts-foundation/nuts-node/vcr/pe"
	"github.com/nuts-foundation/nuts-node/vdr/didweb"

	"verif/ev"
)

// outCase is one outbound attempt: a caller (`Via`) is pointed at <Scheme>://<Host>/<nonce>/<Behaviour>/…
type outCase struct {
	Strict    bool   `json:"strict"`
	Via       string `json:"via"`
	Scheme    string `json:"scheme"`
	Host      string `json:"host"` // origin | ip | reserved
	Behaviour string `json:"behaviour"`
}

type outResult struct {
	Err       string
	PlainHits int
	TLSHits   int
	Hosts     []string
}

const outTimeout = 5 * time.Second

// vias: every constructor of the strict client, and the callers that wrap one. Each takes the full URL.
var vias = map[string]func(ctx context.Context, strict bool, u string, id did.DID) error{
	"client.New:GET": func(ctx context.Context, _ bool, u string, _ did.DID) error {
		return doWith(ctx, client.New(outTimeout), "GET", u)
	},
	"client.New:POST": func(ctx context.Context, _ bool, u string, _ did.DID) error {
		return doWith(ctx, client.New(outTimeout), "POST", u)
	},
	"client.NewWithCache:GET": func(ctx context.Context, _ bool, u string, _ did.DID) error {
		return doWith(ctx, client.NewWithCache(outTimeout), "GET", u)
	},
	"client.NewWithTLSConfig:GET": func(ctx context.Context, _ bool, u string, _ did.DID) error {
		return doWith(ctx, client.NewWithTLSConfig(outTimeout, theLab().TLSClientConfig()), "GET", u)
	},
	"client.NewWithTLSConfig:POST": func(ctx context.Context, _ bool, u string, _ did.DID) error {
		return doWith(ctx, client.NewWithTLSConfig(outTimeout, theLab().TLSClientConfig()), "POST", u)
	},
	"iam.ClientMetadata": func(ctx context.Context, strict bool, u string, _ did.DID) error {
		_, err := iamClient(strict).ClientMetadata(ctx, u)
		return err
	},
	"iam.AuthorizationServerMetadata": func(ctx context.Context, strict bool, u string, _ did.DID) error {
		_, err := iamClient(strict).AuthorizationServerMetadata(ctx, u)
		return err
	},
	"iam.OpenIdCredentialIssuerMetadata": func(ctx context.Context, strict bool, u string, _ did.DID) error {
		_, err := iamClient(strict).OpenIdCredentialIssuerMetadata(ctx, u)
		return err
	},
	"iam.PresentationDefinition": func(ctx context.Context, strict bool, u string, _ did.DID) error {
		_, err := iamClient(strict).PresentationDefinition(ctx, u)
		return err
	},
	"iam.RequestObjectByGet": func(ctx context.Context, strict bool, u string, _ did.DID) error {
		_, err := iamClient(strict).RequestObjectByGet(ctx, u)
		return err
	},
	"iam.PostError": func(ctx context.Context, strict bool, u string, _ did.DID) error {
		_, err := iamClient(strict).PostError(ctx, oauth.OAuth2Error{Code: oauth.InvalidRequest}, u, "state")
		return err
	},
	"iam.AccessToken": func(ctx context.Context, strict bool, u string, _ did.DID) error {
		_, err := iamClient(strict).AccessToken(ctx, "code", u, "https://client.verif-lab.nl/cb", "subject", "client", "verifier", false)
		return err
	},
	"iam.RequestObjectByPost": func(ctx context.Context, strict bool, u string, _ did.DID) error {
		_, err := iamClient(strict).RequestObjectByPost(ctx, u, oauth.AuthorizationServerMetadata{})
		return err
	},
	"iam.OpenIDConfiguration": func(ctx context.Context, strict bool, u string, _ did.DID) error {
		_, err := iamClient(strict).OpenIDConfiguration(ctx, u)
		return err
	},
	"iam.PostAuthorizationResponse": func(ctx context.Context, strict bool, u string, _ did.DID) error {
		_, err := iamClient(strict).PostAuthorizationResponse(ctx, vc.VerifiablePresentation{}, pe.PresentationSubmission{}, u, "state")
		return err
	},
	"iam.VerifiableCredentials": func(ctx context.Context, strict bool, u string, _ did.DID) error {
		_, err := iamClient(strict).VerifiableCredentials(ctx, u, "token", "proof")
		return err
	},
	"oauth.RelyingParty.RequestRFC003AccessToken": func(ctx context.Context, strict bool, u string, _ did.DID) error {
		pu, err := url.Parse(u)
		if err != nil {
			return err
		}
		rp := legacyoauth.NewRelyingParty(nil, nil, nil, nil, outTimeout, theLab().TLSClientConfig(), strict)
		_, err = rp.RequestRFC003AccessToken(ctx, "grant", *pu)
		return err
	},
	"discovery.client.Get": func(ctx context.Context, _ bool, u string, _ did.DID) error {
		_, _, _, err := discoveryclient.New(outTimeout).Get(ctx, u, 0)
		return err
	},
	"discovery.client.Register": func(ctx context.Context, _ bool, u string, _ did.DID) error {
		return discoveryclient.New(outTimeout).Register(ctx, u, vc.VerifiablePresentation{})
	},
	"didweb.Resolve": func(_ context.Context, _ bool, _ string, id did.DID) error {
		_, _, err := didweb.NewResolver().Resolve(id, nil)
		return err
	},
}

func iamClient(strict bool) *iam.OpenID4VPClient {
	return iam.NewClient(nil, nil, nil, nil, nil, strict, outTimeout)
}

func doWith(ctx context.Context, c *client.StrictHTTPClient, method, u string) error {
	var body io.Reader
	if method == "POST" {
		body = strings.NewReader(`{"a":1}`)
	}
	req, err := nethttp.NewRequestWithContext(ctx, method, u, body)
	if err != nil {
		return err
	}
	resp, err := c.Do(req)
	if err != nil {
		return err
	}
	defer resp.Body.Close()
	if resp.StatusCode != 200 {
		return fmt.Errorf("status %d", resp.StatusCode)
	}
	return nil
}

func outBehaviours() []string {
	out := []string{"ok"}
	for _, code := range []int{301, 302, 303, 307, 308} {
		for _, target := range []string{"same-https", "other-https", "same-http", "other-http"} {
			out = append(out, fmt.Sprintf("r%d-%s", code, target))
		}
	}
	for _, target := range []string{"same-https", "same-http", "other-http"} {
		out = append(out, "rr302-"+target)
	}
	out = append(out, "r302-same-HTTP")
	return out
}

// first-hop hosts: "origin" (public), "ip", "reserved" as before, plus every further host class of hostClasses
var hostNames = func() map[string]string {
	m := map[string]string{"origin": hostOrigin, "ip": hostIP, "reserved": hostReserved}
	for cl, h := range hostClasses {
		if cl != "public" && cl != "ipv4" {
			m[cl] = h
		}
	}
	return m
}()

func hostOrder() []string {
	out := []string{"origin", "ip", "reserved"}
	for _, cl := range hostClassOrder {
		if cl != "public" && cl != "ipv4" {
			out = append(out, cl)
		}
	}
	return out
}

func buildOutCases() []outCase {
	var out []outCase
	var names []string
	for v := range vias {
		names = append(names, v)
	}
	sortStrings(names)
	for _, strict := range []bool{true, false} {
		for _, via := range names {
			for _, host := range hostOrder() {
				schemes := []string{"https", "http"}
				if host == "origin" {
					// the scheme as a remote party may spell it
					schemes = append(schemes, "HTTP", "Http", "hTTP")
				}
				for _, scheme := range schemes {
					if via == "didweb.Resolve" && (scheme != "https" || host == "ip" || host == "ipv6" || host == "link-local" || host == "loopback") {
						continue // a did:web identifier cannot express them (C18 judges the identifier grammar)
					}
					for _, b := range outBehaviours() {
						if (host != "origin" || (scheme != "https" && scheme != "http")) && b != "ok" && b != "r302-same-http" {
							continue
						}
						out = append(out, outCase{Strict: strict, Via: via, Scheme: scheme, Host: host, Behaviour: b})
					}
				}
			}
		}
	}
	return out
}

func runOutCase(c outCase) (res outResult) {
	l := theLab()
	client.StrictMode = c.Strict
	defer func() { client.StrictMode = false }()
	n := nextNonce()
	host := hostNames[c.Host]
	u := fmt.Sprintf("%s://%s/%s/%s/x", c.Scheme, host, n, c.Behaviour)
	id := did.DID{}
	if c.Via == "didweb.Resolve" {
		id = did.MustParseDID(fmt.Sprintf("did:web:%s:%s:%s:x", host, n, c.Behaviour))
	}
	ctx, cancel := context.WithTimeout(context.Background(), 2*outTimeout)
	defer cancel()
	l.Take()
	func() {
		defer func() {
			if p := recover(); p != nil {
				res.Err = fmt.Sprintf("PANIC: %v", p)
			}
		}()
		if err := vias[c.Via](ctx, c.Strict, u, id); err != nil {
			res.Err = err.Error()
		}
	}()
	hits, _ := l.Take()
	for _, h := range hits {
		if h.Scheme == "http" {
			res.PlainHits++
		} else {
			res.TLSHits++
		}
		res.Hosts = append(res.Hosts, h.Scheme+"://"+h.Host)
	}
	return res
}

// acceptedWhenPlain lists the callers for which a 200 answer of the lab is a complete, well-formed answer, so that
// "accepted with strict mode off" can be judged for the plain representative (a direct plain-HTTP endpoint).
var acceptedWhenPlain = map[string]bool{"client.New:GET": true, "client.New:POST": true, "client.NewWithCache:GET": true,
	"client.NewWithTLSConfig:GET": true, "client.NewWithTLSConfig:POST": true, "iam.ClientMetadata": true,
	"iam.AuthorizationServerMetadata": true, "iam.OpenIdCredentialIssuerMetadata": true}

func judgeOut(r *ev.Run, c outCase, res outResult) {
	r.Eval(ev.Key(c))
	firstHopPlain := strings.EqualFold(c.Scheme, "http")
	toHTTP := strings.HasSuffix(strings.ToLower(c.Behaviour), "-http")
	class := "https-only"
	switch {
	case firstHopPlain:
		class = "plain-http"
	case toHTTP:
		class = "redirect-to-http"
	}
	outcome := "ok"
	if res.Err != "" {
		outcome = "error"
	}
	r.Outcome(fmt.Sprintf("strict=%v %s: %s, plain-hits=%v", c.Strict, class, outcome, res.PlainHits > 0))
	if strings.HasPrefix(res.Err, "PANIC") {
		r.Observation("caller panicked in the outbound harness (wiring, not the property): "+c.Via, res.Err)
	}
	if c.Strict && res.PlainHits > 0 {
		r.Violation("C20|outbound|"+class+"|"+c.Via, fmt.Sprintf("strict mode on: %s sent a request over plain HTTP (%s; requests seen: %v)", c.Via, ev.Key(c), res.Hosts), c)
	}
	if !c.Strict && c.Scheme == "http" && c.Behaviour == "ok" && c.Host == "origin" && acceptedWhenPlain[c.Via] && (res.Err != "" || res.PlainHits == 0) {
		r.Violation("C20|outbound|plain-http-nonstrict-refused|"+c.Via, fmt.Sprintf("strict mode off: %s refused a plain-HTTP endpoint: %s", c.Via, res.Err), c)
	}
	// the IAM client applies ParsePublicURL(strict) to the endpoints it is given (they come out of remote metadata, request objects
	// and authorization requests): in strict mode none of them may be called on an IP literal or a reserved host
	if c.Strict && strings.HasPrefix(c.Via, "iam.") && c.Host != "origin" && res.TLSHits+res.PlainHits > 0 && c.Behaviour == "ok" {
		r.Violation("C20|outbound|non-public-host|"+c.Via, fmt.Sprintf("strict mode on: %s called an endpoint on a %s host (%s; requests seen: %v)", c.Via, c.Host, ev.Key(c), res.Hosts), c)
	}
	if c.Strict && c.Scheme == "https" && c.Behaviour == "ok" && c.Host != "origin" && res.TLSHits > 0 && !strings.HasPrefix(c.Via, "iam.") {
		r.Observation(fmt.Sprintf("strict mode on: https endpoints whose host is %s are contacted (the statement names only plain HTTP for outbound requests)", c.Host), nil)
	}
}

// sectionOutbound: plain-HTTP outbound requests and endpoints, incl. redirect targets.
func sectionOutbound(t *testing.T, r *ev.Run) {
	// vacuity guards: the lab answers, a redirect to http is followed with strict mode off, https works with strict mode on
	if res := runOutCase(outCase{Strict: false, Via: "client.New:GET", Scheme: "https", Host: "origin", Behaviour: "r302-same-http"}); res.Err != "" || res.PlainHits != 1 {
		t.Fatalf("lab broken: redirect to http not followed with strict mode off: %+v", res)
	}
	if res := runOutCase(outCase{Strict: true, Via: "client.New:GET", Scheme: "https", Host: "origin", Behaviour: "ok"}); res.Err != "" || res.TLSHits != 1 {
		t.Fatalf("lab broken: https request fails with strict mode on: %+v", res)
	}
	if res := runOutCase(outCase{Strict: true, Via: "didweb.Resolve", Scheme: "https", Host: "origin", Behaviour: "r302-other-https"}); res.TLSHits == 0 {
		t.Fatalf("lab broken: did:web resolution reaches nothing: %+v", res)
	}
	cases := buildOutCases()
	r.Bound("outbound_cases", len(cases))
	r.Bound("outbound_callers", len(vias))
	for idx, c := range cases {
		if !r.Mine(idx) {
			continue
		}
		if r.Expired() {
			break
		}
		res := runOutCase(c)
		judgeOut(r, c, res)
		if c.Behaviour == "r302-same-http" || strings.EqualFold(c.Scheme, "http") {
			r.Sample(map[string]any{"case": c, "error": res.Err, "requests_seen": res.Hosts})
		}
	}
}
