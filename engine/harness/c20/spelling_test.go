package c20

import (
	"fmt"
	"strings"
	"testing"

	"verif/ev"
)

// Spelling variants. Several security-relevant options hold a NAME that the code matches somewhere (contract validators, DID
// methods, IRMA scheme manager, key-storage back-end, the strictmode boolean itself). Wherever the matching of the refusal and
// the matching of the feature differ (exact vs. case-insensitive, trimmed vs. not, first element vs. any), a differently spelled
// insecure value slips through. Every insecure name is therefore offered as {lower, Capitalised, UPPER, mixed, with surrounding
// spaces, duplicated, before / after a secure value}, by environment and by config file; the oracle is unchanged: strict and insecure
// => refused at start, or at the action (the dummy flow is driven on every node that starts).

func spellings(name string) []string {
	mixed := []byte(strings.ToLower(name))
	for i := 0; i < len(mixed); i += 2 {
		if mixed[i] >= 'a' && mixed[i] <= 'z' {
			mixed[i] -= 32
		}
	}
	return []string{strings.ToLower(name), strings.ToUpper(name[:1]) + strings.ToLower(name[1:]), strings.ToUpper(name), string(mixed)}
}

// listVariants: ways of writing the insecure name into a list option next to a secure value.
func listVariants(insecure, secure string) [][]string {
	var out [][]string
	for _, v := range spellings(insecure) {
		out = append(out, []string{v}, []string{v, v}, []string{secure, v}, []string{v, secure}, []string{" " + v + " "}, []string{secure, " " + v}, []string{v, strings.ToLower(insecure)})
	}
	return out
}

func yamlList(vals []string) string {
	q := make([]string, len(vals))
	for i, v := range vals {
		q[i] = fmt.Sprintf("%q", v)
	}
	return "[" + strings.Join(q, ", ") + "]"
}

func buildSpellingCases(t *testing.T) []nodeCase {
	var out []nodeCase
	add := func(c nodeCfg, key, desc string, envVal *string, fileVal string) {
		for _, src := range []string{"env", "file"} {
			nc := nodeCase{Kind: "spelling", Cfg: c, Flag: fmt.Sprintf("%s=%s (%s)", key, desc, src)}
			nc.Spec.Unset = []string{envName(key)}
			if src == "env" {
				if envVal == nil {
					continue
				}
				nc.Spec.Env = map[string]string{envName(key): *envVal}
			} else {
				nc.Spec.File = yamlRaw(key, fileVal)
			}
			out = append(out, nc)
		}
	}
	// (A) test-only authentication means: judged at the action
	for _, l := range listVariants("dummy", "employeeid") {
		c := baseline(true)
		c.Validators = "employeeid+dummy"
		env := strings.Join(l, ",")
		add(c, "auth.contractvalidators", yamlList(l), &env, yamlList(l))
	}
	// (B) non-production identity scheme: judged at start
	for _, v := range append(spellings("irma-demo"), " irma-demo", "irma-demo ", "irma-demo,pbdf", "pbdf,irma-demo") {
		c := baseline(true)
		c.Irma = "irma-demo"
		v := v
		add(c, "auth.irma.schememanager", fmt.Sprintf("%q", v), &v, fmt.Sprintf("%q", v))
	}
	// (C) network TLS off with did:nuts spelled differently: the model only calls it insecure when the list contains exactly "nuts";
	// for the other spellings the check still asserts that no gRPC listener is up without TLS
	for _, l := range listVariants("nuts", "web") {
		c := baseline(true)
		c.TLS = "disabled"
		c.Methods = strings.Join(l, ",")
		env := strings.Join(l, ",")
		add(c, "didmethods", yamlList(l), &env, yamlList(l))
	}
	// (D) the strictmode boolean itself, in every spelling that means "on", next to every insecure single setting
	for _, sv := range []string{"TRUE", "True", "1", "t", "T"} {
		for _, c := range insecureSingles() {
			sv := sv
			add(c, "strictmode", sv, &sv, fmt.Sprintf("%q", sv))
		}
	}
	// ... and not written at all: strict mode is documented to be on by default
	for _, c := range insecureSingles() {
		nc := nodeCase{Kind: "spelling", Cfg: c, Flag: "strictmode=<absent> (default)"}
		nc.Spec.Unset = []string{envName("strictmode")}
		out = append(out, nc)
	}
	// ... and in spellings about which neither the statement nor the documentation says what they mean (YAML 1.1 booleans, null, empty):
	// reported, never judged
	for _, sv := range []string{"yes", "on", "y", "YES", "", "null", "~"} {
		for _, c := range insecureSingles() {
			sv := sv
			env := &sv
			fileVal := sv // unquoted: YAML decides what it is
			if sv == "" || sv == "null" || sv == "~" {
				env = nil
			}
			first := len(out)
			add(c, "strictmode", "unquoted "+sv, env, fileVal)
			for i := first; i < len(out); i++ {
				out[i].ObserveOnly = true
			}
		}
	}
	// (E) every option that strict mode requires to be set explicitly (or forbids to be empty), "set" to a value of the blank class
	// {"", " ", "  ", tab, newline, tab+space, space CR LF, YAML null written three ways}, by environment, config file and command line.
	// As sent, such a value names no back-end / database / URL / certificate: the option is still implicit. Besides "refused", the
	// effective-state oracle (effective_test.go) looks at what a node that starts is really running on.
	type mustSet struct {
		key   string
		unset func(c *nodeCfg)
	}
	for _, m := range []mustSet{
		{"crypto.storage", func(c *nodeCfg) { c.Crypto = "implicit" }},
		{"storage.sql.connection", func(c *nodeCfg) { c.SQL = "implicit" }},
		{"url", func(c *nodeCfg) { c.URL = "" }},
		{"tls.certfile", func(c *nodeCfg) { c.TLS = "disabled" }},
		{"tls.certkeyfile", func(c *nodeCfg) { c.TLS = "disabled" }},
	} {
		c := baseline(true)
		m.unset(&c)
		for _, v := range []string{"", " ", "  ", "\t", "\n", "\t ", " \r\n"} {
			v := v
			add(c, m.key, fmt.Sprintf("%q", v), &v, fmt.Sprintf("%q", v))
			nc := nodeCase{Kind: "spelling", Cfg: c, Flag: fmt.Sprintf("%s=%q (cli)", m.key, v)}
			nc.Spec.Unset = []string{envName(m.key)}
			nc.Spec.Args = []string{"--" + m.key + "=" + v}
			out = append(out, nc)
		}
		for _, y := range []string{"null", "~", ""} {
			add(c, m.key, "yaml-null:"+y, nil, y)
		}
	}
	// the documented defaults spelled out are explicit settings: such a node starts (vacuity guard of the effective-state oracle:
	// the database file <datadir>/sqlite.db IS open then, because the connection string names it)
	{
		c := baseline(true)
		v := "sqlite:file:{DIR}/data/sqlite.db?_pragma=foreign_keys(1)&journal_mode(WAL)"
		add(c, "storage.sql.connection", "default-spelled-out", &v, fmt.Sprintf("%q", v))
	}
	return out
}

func sectionSpelling(t *testing.T, r *ev.Run) {
	needDummyVP(t)
	effectiveGuards(t)
	cases := buildSpellingCases(t)
	r.Bound("spelling_cases", len(cases))
	for idx, c := range cases {
		if !r.Mine(idx + 9) {
			continue
		}
		if r.Expired() {
			return
		}
		runCfgCase(t, r, c)
	}
}
