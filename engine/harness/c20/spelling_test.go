package c20

import (
	"fmt"
	"strings"
	"testing"

	"verif/ev"
)

// Spelling variants. Several security-relevant options hold a NAME that the code matches somewhere (contract validators, DID
// methods, IRMA scheme manager, key-storage back-end, the strictmode boolean itself). Wherever the matching of the refusal and
// the matching of the feature differ (exact vs. case-insensitive, trimmed vs. not, first element vs. any), a differently spelled
// insecure value slips through. Every insecure name is therefore offered as {lower, Capitalised, UPPER, mixed, with surrounding
// spaces, duplicated, before / after a secure value}, by environment and by config file; the oracle is unchanged: strict and insecure
// => refused at start, or at the action (the dummy flow is driven on every node that starts).

func spellings(name string) []string {
	mixed := []byte(strings.ToLower(name))
	for i := 0; i < len(mixed); i += 2 {
		if mixed[i] >= 'a' && mixed[i] <= 'z' {
			mixed[i] -= 32
		}
	}
	return []string{strings.ToLower(name), strings.ToUpper(name[:1]) + strings.ToLower(name[1:]), strings.ToUpper(name), string(mixed)}
}

// listVariants: ways of writing the insecure name into a list option next to a secure value.
func listVariants(insecure, secure string) [][]string {
	var out [][]string
	for _, v := range spellings(insecure) {
		out = append(out, []string{v}, []string{v, v}, []string{secure, v}, []string{v, secure}, []string{" " + v + " "}, []string{secure, " " + v}, []string{v, strings.ToLower(insecure)})
	}
	return out
}

func yamlList(vals []string) string {
	q := make([]string, len(vals))
	for i, v := range vals {
		q[i] = fmt.Sprintf("%q", v)
	}
	return "[" + strings.Join(q, ", ") + "]"
}

func buildSpellingCases(t *testing.T) []nodeCase {
	var out []nodeCase
	add := func(c nodeCfg, key, desc string, envVal *string, fileVal string) {
		for _, src := range []string{"env", "file"} {
			nc := nodeCase{Kind: "spelling", Cfg: c, Flag: fmt.Sprintf("%s=%s (%s)", key, desc, src)}
			nc.Spec.Unset = []string{envName(key)}
			if src == "env" {
				if envVal == nil {
					continue
				}
				nc.Spec.Env = map[string]string{envName(key): *envVal}
			} else {
				nc.Spec.File = yamlRaw(key, fileVal)
			}
			out = append(out, nc)
		}
	}
	// (A) test-only authentication means: judged at the action
	for _, l := range listVariants("dummy", "employeeid") {
		c := baseline(true)
		c.Validators = "employeeid+dummy"
		env := strings.Join(l, ",")
		add(c, "auth.contractvalidators", yamlList(l), &env, yamlList(l))
	}
	// (B) non-production identity scheme: judged at start
	for _, v := range append(spellings("irma-demo"), " irma-demo", "irma-demo ", "irma-demo,pbdf", "pbdf,irma-demo") {
		c := baseline(true)
		c.Irma = "irma-demo"
		v := v
		add(c, "auth.irma.schememanager", fmt.Sprintf("%q", v), &v, fmt.Sprintf("%q", v))
	}
	// (C) network TLS off with did:nuts spelled differently: the model only calls it insecure when the list contains exactly "nuts";
	// for the other spellings the check still asserts that no gRPC listener is up without TLS
	for _, l := range listVariants("nuts", "web") {
		c := baseline(true)
		c.TLS = "disabled"
		c.Methods = strings.Join(l, ",")
		env := strings.Join(l, ",")
		add(c, "didmethods", yamlList(l), &env, yamlList(l))
	}
	// (D) the strictmode boolean itself, in every spelling that means "on", next to every insecure single setting
	for _, sv := range []string{"TRUE", "True", "1", "t", "T"} {
		for _, c := range insecureSingles() {
			sv := sv
			add(c, "strictmode", sv, &sv, fmt.Sprintf("%q", sv))
		}
	}
	// (E) back-ends "set" to nothing but white space are still implicit
	for _, key := range []string{"crypto.storage", "storage.sql.connection"} {
		for _, v := range []string{" ", "  ", "\t"} {
			c := baseline(true)
			if key == "crypto.storage" {
				c.Crypto = "implicit"
			} else {
				c.SQL = "implicit"
			}
			v := v
			add(c, key, fmt.Sprintf("%q", v), &v, fmt.Sprintf("%q", v))
		}
	}
	return out
}

func sectionSpelling(t *testing.T, r *ev.Run) {
	needDummyVP(t)
	cases := buildSpellingCases(t)
	r.Bound("spelling_cases", len(cases))
	for idx, c := range cases {
		if !r.Mine(idx + 9) {
			continue
		}
		if r.Expired() {
			return
		}
		runCfgCase(t, r, c)
	}
}
