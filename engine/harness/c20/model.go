// Reference predicate of C20, transcribed from the property statement and
// docs/pages/deployment/configuration.rst ("Strict mode", "Secrets"). Kept small on purpose; it is part of
// the trusted base of the check.
package c20

import (
	"net"
	"net/netip"
	"net/url"
	"strings"
)

// nodeCfg is one point of the option product. Every field holds the NAME of a value class; the
// concrete setting is produced by (*nodeCfg).settings in node_test.go.
type nodeCfg struct {
	Strict     bool   `json:"strict"`
	URL        string `json:"url"`        // the literal public URL ("" = not set)
	TLS        string `json:"tls"`        // configured | offload | disabled
	Crypto     string `json:"crypto"`     // fs | implicit | vaultkv
	SQL        string `json:"sql"`        // explicit | implicit
	Validators string `json:"validators"` // employeeid | employeeid+dummy
	Irma       string `json:"irma"`       // pbdf | irma-demo
	Methods    string `json:"methods"`    // web,nuts | web | nuts
	Contexts   string `json:"contexts"`   // default | extra (one more remote context on jsonld.contexts.remoteallowlist)
}

// reservedTLDs / reservedL2: RFC 2606 plus draft-chapin-rfc2606bis-00 (the two documents core/url.go cites).
var reservedTLDs = map[string]bool{"test": true, "example": true, "invalid": true, "localhost": true,
	"local": true, "localdomain": true, "lan": true, "home": true, "host": true, "corp": true}
var reservedL2 = map[string]bool{"example.com": true, "example.net": true, "example.org": true}

// urlClass classifies a public URL by the facts the statement names.
//
//	secure     https, domain name, not reserved
//	not-https  any other scheme, or no scheme / no host at all (incl. empty)
//	ip         host is an IP literal (v4, v6, v6 with zone)
//	reserved   host is a reserved name
//	unparsable net/url refuses it (no verdict is derived from the statement)
func urlClass(raw string) string {
	raw = strings.TrimSpace(raw) // a URL is what is left when the white space around it is taken away, whoever does the trimming
	if raw == "" {
		return "not-https"
	}
	u, err := url.Parse(raw)
	if err != nil {
		return "unparsable"
	}
	if u.Scheme != "https" || u.Hostname() == "" {
		return "not-https"
	}
	h := u.Hostname()
	if net.ParseIP(h) != nil {
		return "ip"
	}
	if _, err := netip.ParseAddr(h); err == nil { // also recognises zone literals fe80::1%eth0
		return "ip"
	}
	parts := strings.Split(strings.ToLower(strings.TrimSuffix(h, ".")), ".")
	if reservedTLDs[parts[len(parts)-1]] {
		return "reserved"
	}
	if len(parts) >= 2 && reservedL2[strings.Join(parts[len(parts)-2:], ".")] {
		return "reserved"
	}
	return "secure"
}

// urlSubclass refines the class for violation signatures (different sub-classes are different defects).
func urlSubclass(raw string) string {
	raw = strings.TrimSpace(raw)
	if raw == "" {
		return "empty"
	}
	u, err := url.Parse(raw)
	if err != nil {
		return "unparsable"
	}
	switch urlClass(raw) {
	case "not-https":
		if u.Scheme == "" {
			return "no-scheme"
		}
		if u.Hostname() == "" {
			return "no-host"
		}
		return strings.ToLower(u.Scheme)
	case "ip":
		h := u.Hostname()
		switch {
		case strings.Contains(h, "%"):
			return "v6zone"
		case strings.Contains(h, ":"):
			return "v6"
		}
		return "v4"
	case "reserved":
		parts := strings.Split(strings.ToLower(strings.TrimSuffix(u.Hostname(), ".")), ".")
		if reservedTLDs[parts[len(parts)-1]] {
			return parts[len(parts)-1]
		}
		return strings.Join(parts[len(parts)-2:], ".")
	}
	return ""
}

func (c nodeCfg) hasMethod(m string) bool {
	for _, x := range strings.Split(c.Methods, ",") {
		if x == m {
			return true
		}
	}
	return false
}

// insecureStart lists the clauses of the statement that are judged at node start and that c violates.
// (dummy means, outbound HTTP and JSON-LD contexts are judged at the action, see DESIGN "### C20".)
func (c nodeCfg) insecureStart() []string {
	var out []string
	if cl := urlClass(c.URL); cl != "secure" && cl != "unparsable" {
		out = append(out, "url-"+cl+":"+urlSubclass(c.URL))
	}
	// "network TLS switched off": there is a network only when did:nuts is enabled.
	if c.TLS == "disabled" && c.hasMethod("nuts") {
		out = append(out, "tls-off")
	}
	if c.Crypto == "implicit" {
		out = append(out, "crypto-implicit")
	}
	if c.SQL == "implicit" {
		out = append(out, "sqlite-implicit")
	}
	if c.Irma != "pbdf" {
		out = append(out, "irma-scheme")
	}
	return out
}

// plainURLs are the representatives for which "accepted with strict mode off" is judged.
var plainURLs = map[string]bool{"https://nuts.verif-node.nl": true, "https://nuts.verif-node.nl:8443": true,
	"http://nuts.verif-node.nl": true, "https://192.0.2.10": true, "https://localhost": true, "http://localhost": true}

// plain tells whether every setting of c is the plain representative of its clause (or the secure value),
// i.e. whether the statement's "the same settings are accepted with strict mode off" speaks about c.
func (c nodeCfg) plain() bool {
	return plainURLs[c.URL] && c.Crypto != "vaultkv"
}

// isSecretFlag is the documented rule: "All options ending with token or password are considered secrets".
func isSecretFlag(name string) bool {
	return strings.HasSuffix(name, "token") || strings.HasSuffix(name, "password")
}

// movedKeys are the configuration keys that moved (network.* -> tls.*).
var movedKeys = []string{"network.certfile", "network.certkeyfile", "network.truststorefile"}
