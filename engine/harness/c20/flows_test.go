package c20

import (
	"context"
	"fmt"
	"strings"
	"testing"

	ssi "github.com/nuts-foundation/go-did"
	"github.com/nuts-foundation/go-did/did"
	"github.com/nuts-foundation/go-did/vc"
	"github.com/nuts-foundation/nuts-node/auth/client/iam"
	"github.com/nuts-foundation/nuts-node/http/client"
	"github.com/nuts-foundation/nuts-node/vcr/holder"
	"github.com/nuts-foundation/nuts-node/vcr/pe"
	"github.com/nuts-foundation/nuts-node/vdr/didsubject"

	"verif/ev"
	"verif/netlab"
)

// Multi-step client flows: the URLs of the later steps come out of remote answers (authorization-server metadata), so a legitimate
// public https server can point the node at any host class. Function level: iam.NewClient(strict) with a stub subject manager and
// wallet, so that every step is reached.

type stubSubjects struct{ didsubject.Manager }

func (stubSubjects) ListDIDs(context.Context, string) ([]did.DID, error) {
	return []did.DID{did.MustParseDID("did:web:wallet.verif-lab.nl")}, nil
}

type stubWallet struct{ holder.Wallet }

func (stubWallet) BuildSubmission(context.Context, []did.DID, map[did.DID][]vc.VerifiableCredential, pe.PresentationDefinition, holder.BuildParams) (*vc.VerifiablePresentation, *pe.PresentationSubmission, error) {
	h := ssi.MustParseURI("did:web:wallet.verif-lab.nl")
	return &vc.VerifiablePresentation{Holder: &h}, &pe.PresentationSubmission{}, nil
}

type flowCase struct {
	Flow      string `json:"flow"` // rfc021
	Strict    bool   `json:"strict"`
	PDClass   string `json:"pd_class"`
	PDScheme  string `json:"pd_scheme"`
	TokClass  string `json:"token_class"`
	TokScheme string `json:"token_scheme"`
}

// stepOf names the step a recorded request belongs to.
func stepOf(h netlab.Hit) string {
	switch {
	case strings.Contains(h.URI, "/asmeta/"):
		return "metadata"
	case strings.Contains(h.URI, "/pd/"):
		return "presentation_definition_endpoint"
	case strings.Contains(h.URI, "/token/"):
		return "token_endpoint"
	}
	return "other"
}

// judgeFlowHits applies the strict oracle to the requests of one flow: no plain-http request and no request to a host class that
// ParsePublicURL(strict) refuses, at any step. via names the caller in the signature.
func judgeFlowHits(r *ev.Run, via string, strict bool, hits []netlab.Hit, replay any) (steps []string) {
	for _, h := range hits {
		step := stepOf(h)
		cl := classOfHost(h.Host)
		steps = append(steps, fmt.Sprintf("%s:%s://%s", step, h.Scheme, cl))
		if !strict {
			continue
		}
		if h.Scheme == "http" {
			r.Violation("C20|outbound|plain-http|"+via+":"+step, fmt.Sprintf("strict mode on: %s sent a plain-HTTP request to the %s taken from remote metadata (http://%s%s)", via, step, h.Host, h.URI), replay)
		}
		if cl != "public" {
			r.Violation("C20|outbound|non-public-host|"+via+":"+step, fmt.Sprintf("strict mode on: %s called the %s taken from remote metadata on a %s host (%s://%s%s)", via, step, cl, h.Scheme, h.Host, h.URI), replay)
		}
	}
	return
}

func runFlowCase(r *ev.Run, c flowCase) {
	l := theLab()
	client.StrictMode = c.Strict
	defer func() { client.StrictMode = false }()
	cl := iam.NewClient(stubWallet{}, nil, stubSubjects{}, nil, nil, c.Strict, outTimeout)
	issuer := fmt.Sprintf("https://%s/%s/asmeta/%s/%s/%s/%s", hostOrigin, nextNonce(), c.PDClass, c.PDScheme, c.TokClass, c.TokScheme)
	ctx, cancel := context.WithTimeout(context.Background(), 2*outTimeout)
	defer cancel()
	l.Take()
	var err error
	func() {
		defer func() {
			if p := recover(); p != nil {
				err = fmt.Errorf("PANIC: %v", p)
			}
		}()
		_, err = cl.RequestRFC021AccessToken(ctx, "https://client.verif-lab.nl", "subject", issuer, "scope", false, nil)
	}()
	hits, _ := l.Take()
	r.Eval(ev.Key(c))
	steps := judgeFlowHits(r, "iam.RequestRFC021AccessToken", c.Strict, hits, c)
	allPublicHTTPS := c.PDClass == "public" && c.TokClass == "public" && c.PDScheme == "https" && c.TokScheme == "https"
	r.Outcome(fmt.Sprintf("rfc021 strict=%v all-public-https=%v: completed=%v requests=%d", c.Strict, allPublicHTTPS, err == nil, len(hits)))
	r.Sample(map[string]any{"case": c, "requests": steps, "error": fmt.Sprint(err)})
	if err != nil && strings.HasPrefix(err.Error(), "PANIC") {
		r.Observation("RFC021 flow panics in the harness wiring", err.Error())
	}
	// plain representatives with strict mode off: everything on the public host over http is accepted
	if !c.Strict && c.PDClass == "public" && c.TokClass == "public" && (err != nil || len(hits) < 3) {
		r.Violation("C20|outbound|plain-http-nonstrict-refused|iam.RequestRFC021AccessToken", fmt.Sprintf("strict mode off: the RFC021 flow with %s / %s endpoints on a public host does not complete: %v (%v)", c.PDScheme, c.TokScheme, err, steps), c)
	}
	// vacuity: the secure flow completes in strict mode
	if c.Strict && allPublicHTTPS && (err != nil || len(hits) < 3) {
		r.Observation("RFC021 flow with public https endpoints does not complete in strict mode", fmt.Sprint(err, steps))
	}
}

func buildFlowCases() []flowCase {
	var out []flowCase
	for _, strict := range []bool{true, false} {
		for _, pc := range hostClassOrder {
			for _, ps := range []string{"https", "http"} {
				for _, tc := range hostClassOrder {
					for _, ts := range []string{"https", "http"} {
						out = append(out, flowCase{Flow: "rfc021", Strict: strict, PDClass: pc, PDScheme: ps, TokClass: tc, TokScheme: ts})
					}
				}
			}
		}
	}
	return out
}

func sectionFlows(t *testing.T, r *ev.Run) {
	// vacuity guard: the flow reaches all three steps
	l := theLab()
	l.Take()
	probe := flowCase{Flow: "rfc021", Strict: false, PDClass: "public", PDScheme: "https", TokClass: "public", TokScheme: "https"}
	client.StrictMode = false
	cl := iam.NewClient(stubWallet{}, nil, stubSubjects{}, nil, nil, false, outTimeout)
	issuer := fmt.Sprintf("https://%s/%s/asmeta/public/https/public/https", hostOrigin, nextNonce())
	if _, err := cl.RequestRFC021AccessToken(context.Background(), "c", "s", issuer, "scope", false, nil); err != nil {
		t.Fatalf("RFC021 flow against the lab does not complete (harness broken): %v", err)
	}
	if hits, _ := l.Take(); len(hits) < 3 {
		t.Fatalf("RFC021 flow made %d requests, at least 3 expected (harness broken)", len(hits))
	}
	_ = probe
	cases := buildFlowCases()
	r.Bound("flow_cases", len(cases))
	r.Bound("flow_host_classes", len(hostClassOrder))
	for idx, c := range cases {
		if !r.Mine(idx + 5) {
			continue
		}
		if r.Expired() {
			break
		}
		runFlowCase(r, c)
	}
}
