// C20 — Strict mode refuses every insecure configuration it documents.
//
// One test binary, four sections sharing one evidence collector (sharded by case index):
//
//	node      assembled node start matrix + the clauses judged at the action, on the running node   (node_test.go)
//	flags     secrets on the command line, moved keys, on the assembled node                          (flags_test.go)
//	outbound  strict HTTP client, its callers, redirect targets, against in-process listeners         (outbound_test.go)
//	gating    every insecure single setting under every value of every other configuration key (keys by reflection)   (gating_test.go)
//	engine    single-engine Configure / ServerConfig.Load products                                    (engine_test.go)
//
// model.go holds the reference predicate. VERIF_C20_ONLY=node,flags,… restricts the sections (debugging).
package c20

import (
	"os"
	"strings"
	"testing"

	"verif/ev"
)

func want(section string) bool {
	only := os.Getenv("VERIF_C20_ONLY")
	if only == "" {
		return true
	}
	for _, s := range strings.Split(only, ",") {
		if s == section {
			return true
		}
	}
	return false
}

func TestVerifC20(t *testing.T) {
	r := ev.Start(t, "C20")
	defer r.Finish()
	installLogrus()
	theLab()
	r.Rule("(node) assembled node (`nuts server`, NUTS_* environment, fresh data directory) started for the baseline, every single and every pair of option " +
		"deviations (incl. every public-URL class), then the full product strictmode x url x tls x crypto.storage x storage.sql.connection x " +
		"auth.contractvalidators x auth.irma.schememanager x didmethods (x jsonld allow list, thorough); a case = one distinct configuration; on every node " +
		"that started, the dummy means (internal API), the JSON-LD loader, the IAM client and the did:web resolver are exercised against in-process listeners. " +
		"(gating) every configuration key of the node (koanf-tagged fields of core.ServerConfig and of every registered engine's Config() by reflection, united with the " +
		"flags of the server command) x a small value set by type x every insecure single setting of the matrix and the strict baseline with dummy means; " +
		"oracle unchanged: strict and insecure => refused whatever the other option says. Value classes of a number / duration: {1, ordinary, 0, negative, " +
		"max-int32 / 1ns, max} — the zero / negative / huge classes are started in a child process (a crash is an observation); thorough: pairs of keys at their " +
		"zero / empty / off value. Before every start the process-wide variables that engines assign (http/client.StrictMode, DefaultCachingTransport) are put back " +
		"to the fresh-process value; on every node that starts the whole caller battery of (outbound) is driven against the process state that start left, and the " +
		"effective state is read (loaded option values, <datadir>/sqlite.db, <datadir>/crypto, plaintext HTTP/2 probe of the gRPC listener). " +
		"(spelling) insecure names in other case / position / with spaces; the strictmode boolean spelled otherwise and absent; every must-be-set option " +
		"(crypto.storage, storage.sql.connection, url, tls.certfile, tls.certkeyfile) set to a blank value {\"\", spaces, tab, newline, YAML null} by environment, file and command line. " +
		"(flags) every flag registered on the `server` command (VisitAll) ending in token/password: --f=v, --f v, `nuts config --f=v`, environment, file, both modes; " +
		"every moved key by environment, file, command line. " +
		"(outbound) every constructor of the strict HTTP client and every caller wrapping one x strict x first hop {https,http} x host {domain, IP, reserved} x " +
		"answer {200, 301/302/303/307/308 to same/other host over https/http, two-hop chains}; oracle: strict => no request reaches a plain-HTTP listener. " +
		"(engine) crypto / storage / jsonld Configure and ServerConfig.Load products; ParsePublicURL table as observations")
	r.Assume("refused = logrus.Fatal entry or error from cmd.Execute before /status answers; started = GET /status on the internal listener returns 200")
	r.Assume("network TLS off is judged only when did:nuts is enabled (without it the node has no gRPC network; the check asserts that the port is then closed)")
	r.Assume("the in-process listeners stand for the internet: names are routed by SafeHttpTransport.DialContext / http.DefaultTransport, certificates are not verified")
	r.Assume("an option value consisting of white space only (or YAML null) names no back-end / database / URL / certificate: as sent it is 'not set'; a public URL is classified on its trimmed value")
	r.Assume("the gRPC listener is plaintext only on positive evidence (an HTTP/2 SETTINGS frame answered in the clear); tls.offload set = TLS documented to be terminated by a proxy")
	r.Assume("secret = option name ending in token or password (docs/pages/deployment/configuration.rst); reserved host = RFC 2606 + draft-chapin-rfc2606bis names cited by core/url.go")

	var probe struct {
		Kind string `json:"kind"`
		Via  string `json:"via"`
		Flow string `json:"flow"`
	}
	if r.ReplayCase(&probe) {
		switch {
		case probe.Flow != "":
			var c flowCase
			r.ReplayCase(&c)
			runFlowCase(r, c)
		case probe.Via != "":
			var c outCase
			r.ReplayCase(&c)
			judgeOut(r, c, runOutCase(c))
		case probe.Kind == "cfg" || probe.Kind == "observed-url" || probe.Kind == "gating" || probe.Kind == "spelling":
			var c nodeCase
			r.ReplayCase(&c)
			needDummyVP(t)
			runCfgCase(t, r, c)
		case probe.Kind != "":
			var c nodeCase
			r.ReplayCase(&c)
			runFlagCase(t, r, c)
		default:
			sectionEngine(t, r)
		}
		return
	}
	if want("engine") && r.Mine(0) {
		sectionEngine(t, r)
	}
	if want("outbound") {
		sectionOutbound(t, r)
	}
	if want("flows") {
		sectionFlows(t, r)
	}
	if want("flags") {
		sectionFlags(t, r)
	}
	if want("spelling") {
		sectionSpelling(t, r)
	}
	if want("gating") {
		sectionGating(t, r)
	}
	if want("node") {
		sectionNode(t, r)
	}
}
