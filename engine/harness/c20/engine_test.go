package c20

import (
	"fmt"
	"os"
	"path/filepath"
	"strings"
	"testing"

	"github.com/nuts-foundation/nuts-node/cmd"
	"github.com/nuts-foundation/nuts-node/core"
	"github.com/nuts-foundation/nuts-node/crypto"
	"github.com/nuts-foundation/nuts-node/jsonld"
	"github.com/nuts-foundation/nuts-node/storage"
	"github.com/spf13/pflag"

	"verif/ev"
)

// sectionEngine: full products at the level of a single engine's Configure (and of core.ServerConfig.Load),
// where one case costs micro- to milliseconds. It localises what the node section observes from outside.
// Runs as a whole on one worker (well under ten seconds).
func sectionEngine(t *testing.T, r *ev.Run) {
	engineCrypto(t, r)
	engineStorage(t, r)
	engineJSONLD(t, r)
	engineLoad(t, r)
	enginePublicURL(t, r)
}

func engineCrypto(t *testing.T, r *ev.Run) {
	for _, strict := range []bool{true, false} {
		for _, backend := range []string{"fs", "", "vaultkv", "external", "azure-keyvault", "bogus", "FS", " ", "\t", "\n", " \r\n", " fs", "fs "} {
			dir := t.TempDir()
			se := storage.New()
			c := crypto.NewCryptoInstance(se)
			cfg := c.Config().(*crypto.Config)
			cfg.Storage = backend
			cfg.Vault.Address, cfg.Vault.Timeout = "http://127.0.0.1:1", 50_000_000
			cfg.External.Address = "http://127.0.0.1:1"
			err := c.Configure(core.ServerConfig{Strictmode: strict, Datadir: dir})
			r.Eval(ev.Key([]any{"crypto", strict, backend}))
			r.Outcome(fmt.Sprintf("crypto.Configure strict=%v storage=%q: %s", strict, backend, okErr(err)))
			if blank(backend) && backend != "" && strict && err == nil {
				r.Violation("C20|engine|crypto-implicit|strict-accepted|blank", fmt.Sprintf("crypto.Configure accepts a blank key storage back-end (%q) in strict mode", backend), nil)
			}
			if backend == "" {
				if strict && err == nil {
					r.Violation("C20|engine|crypto-implicit|strict-accepted", "crypto.Configure accepts an implicit key storage back-end in strict mode", nil)
				}
				if !strict && err != nil {
					r.Violation("C20|engine|crypto-implicit|nonstrict-refused", "crypto.Configure refuses the implicit key storage back-end with strict mode off: "+err.Error(), nil)
				}
			}
		}
	}
}

func engineStorage(t *testing.T, r *ev.Run) {
	for _, strict := range []bool{true, false} {
		for _, conn := range []string{"", "sqlite:file:{DIR}/x.db?_pragma=foreign_keys(1)&journal_mode(WAL)", "sqlite:file::memory:?cache=shared", "bogus:whatever",
			" ", "  ", "\t", "\n", "\t ", " \r\n"} {
			dir := t.TempDir()
			se := storage.New()
			se.(core.Injectable).Config().(*storage.Config).SQL.ConnectionString = strings.ReplaceAll(conn, "{DIR}", dir)
			err := se.(core.Configurable).Configure(core.ServerConfig{Strictmode: strict, Datadir: dir})
			_, statErr := os.Stat(filepath.Join(dir, "sqlite.db"))
			implicitFile := statErr == nil
			if sd, ok := se.(core.Runnable); ok && err == nil {
				_ = sd.Shutdown()
			}
			r.Eval(ev.Key([]any{"storage", strict, conn}))
			r.Outcome(fmt.Sprintf("storage.Configure strict=%v connection=%q: %s implicit-file=%v", strict, conn, okErr(err), implicitFile))
			if blank(conn) && conn != "" && strict && (err == nil || implicitFile) {
				// as sent, a connection string of white space names no database
				r.Violation("C20|engine|sqlite-implicit|strict-accepted|blank", fmt.Sprintf("storage.Configure takes a blank connection string (%q) for the implicit SQLite database in strict mode (error: %v, <datadir>/sqlite.db created: %v)", conn, err, implicitFile), nil)
			}
			if conn == "" {
				if strict && (err == nil || implicitFile) {
					r.Violation("C20|engine|sqlite-implicit|strict-accepted", "storage.Configure falls back to the implicit SQLite database in strict mode", nil)
				}
				if !strict && err != nil {
					r.Violation("C20|engine|sqlite-implicit|nonstrict-refused", "storage.Configure refuses the implicit SQLite database with strict mode off: "+err.Error(), nil)
				}
			}
		}
	}
}

func engineJSONLD(t *testing.T, r *ev.Run) {
	l := theLab()
	dir := t.TempDir()
	localCtx := filepath.Join(dir, "local.ldjson")
	if err := os.WriteFile(localCtx, []byte(`{"@context":{"localTerm":"https://verif-lab.nl/terms#localTerm"}}`), 0o600); err != nil {
		t.Fatal(err)
	}
	mappedURL := "https://" + hostOrigin + "/mapped/ctx/v1"
	for _, strict := range []bool{true, false} {
		for _, variant := range []string{"default", "extra-allowlisted", "extra-localmapping", "empty-allowlist"} {
			cc := jsonld.DefaultContextConfig()
			switch variant {
			case "extra-allowlisted":
				cc.RemoteAllowList = append(cc.RemoteAllowList, listedContext)
			case "extra-localmapping":
				cc.LocalFileMapping[mappedURL] = localCtx
			case "empty-allowlist":
				cc.RemoteAllowList = nil
			}
			allowed := map[string]bool{}
			for _, u := range cc.RemoteAllowList {
				allowed[u] = true
			}
			for u := range cc.LocalFileMapping {
				allowed[u] = true
			}
			inst := jsonld.NewJSONLDInstance()
			*(inst.(core.Injectable).Config().(*jsonld.Config)) = jsonld.Config{Contexts: cc}
			if err := inst.(core.Configurable).Configure(core.ServerConfig{Strictmode: strict}); err != nil {
				t.Fatalf("jsonld.Configure(%s): %v", variant, err)
			}
			loader := inst.DocumentLoader()
			var urls []string
			for u := range jsonld.DefaultContextConfig().LocalFileMapping {
				urls = append(urls, u)
			}
			sortStrings(urls)
			urls = append(urls, listedContext, mappedURL,
				"https://"+hostOrigin+"/"+nextNonce()+"/ctx/unlisted",
				"http://"+hostOrigin+"/"+nextNonce()+"/ctx/unlisted-plain",
				"https://"+hostOther+"/"+nextNonce()+"/ctx/unlisted-other",
				listedContext+"/", listedContext+"?x=1", strings.ToUpper(listedContext[:5])+listedContext[5:],
				"https://www.w3.org/2018/credentials/v2", "https://nuts.nl/credentials/v1/", "file://"+localCtx, localCtx)
			for _, u := range urls {
				l.Take()
				_, err := loader.LoadDocument(u)
				hits, dials := l.Take()
				r.Eval(ev.Key([]any{"jsonld", strict, variant, u}))
				class := "unlisted"
				if allowed[u] {
					class = "listed"
				}
				r.Outcome(fmt.Sprintf("jsonld strict=%v %s: %s net=%v", strict, class, okErr(err), len(hits)+len(dials) > 0))
				if strict && !allowed[u] && (err == nil || len(hits)+len(dials) > 0) {
					r.Violation("C20|engine|jsonld-unlisted|strict-loaded", fmt.Sprintf("strict mode on (%s): context %q is not on the allow list but was %s (outbound attempts: %d)", variant, u, loadedOrNot(err), len(hits)+len(dials)), nil)
				}
				if strict && len(plainHits(hits)) > 0 {
					r.Violation("C20|engine|jsonld|plain-http", fmt.Sprintf("strict mode on: JSON-LD loader fetched %q over plain HTTP", u), nil)
				}
				if !strict && strings.HasSuffix(u, "/ctx/unlisted") && err != nil {
					r.Violation("C20|engine|jsonld-unlisted|nonstrict-refused", "strict mode off: an unlisted remote context is refused: "+err.Error(), nil)
				}
			}
		}
	}
}

func loadedOrNot(err error) string {
	if err == nil {
		return "loaded"
	}
	return "attempted"
}

func okErr(err error) string {
	if err == nil {
		return "ok"
	}
	return "error"
}

// freshServerFlagSet returns a new, unparsed copy of the `server` command's flag set.
func freshServerFlagSet(t *testing.T) *pflag.FlagSet {
	sys := cmd.CreateSystem(func() {})
	root := cmd.CreateCommand(sys)
	for _, c := range root.Commands() {
		if c.Name() == "server" {
			return c.Flags()
		}
	}
	t.Fatal("no server command")
	return nil
}

func valueFor(f *pflag.Flag) string {
	switch f.Value.Type() {
	case "bool":
		return "true"
	case "int", "uint", "int64", "uint16", "uint32", "float64":
		return "1"
	case "duration":
		return "1s"
	case "stringSlice":
		return "a,b"
	case "stringToString":
		return "a=b"
	case "intSlice":
		return "1,2"
	}
	if f.Name == "verbosity" {
		return "info"
	}
	if f.Name == "loggerformat" {
		return "text"
	}
	if f.Name == "configfile" {
		return "/nonexistent/verif.yaml"
	}
	return secretCanary
}

func engineLoad(t *testing.T, r *ev.Run) {
	clearNutsEnv()
	defer clearNutsEnv()
	os.Setenv("NUTS_CONFIGFILE", filepath.Join(t.TempDir(), "absent.yaml"))
	empty := filepath.Join(t.TempDir(), "empty.yaml")
	_ = os.WriteFile(empty, nil, 0o600)
	os.Setenv("NUTS_CONFIGFILE", empty)
	flags := serverFlags(t, "server")
	var secrets []*pflag.Flag
	for _, f := range flags {
		if isSecretFlag(f.Name) {
			secrets = append(secrets, f)
		}
	}
	load := func(args []string) error {
		fs := freshServerFlagSet(t)
		if err := fs.Parse(args); err != nil {
			return fmt.Errorf("parse: %w", err)
		}
		return core.NewServerConfig().Load(fs)
	}
	// every flag alone, and every flag together with each secret flag (in both orders)
	for _, f := range flags {
		if f.Name == "configfile" {
			continue
		}
		alone := load([]string{"--" + f.Name + "=" + valueFor(f)})
		r.Eval(ev.Key([]any{"load", f.Name}))
		secret := isSecretFlag(f.Name)
		r.Outcome(fmt.Sprintf("Load with one flag, secret=%v: %s", secret, okErr(alone)))
		if secret && alone == nil {
			r.Violation("C20|engine|secret-on-command-line|"+f.Name, "ServerConfig.Load accepts secret flag "+f.Name+" from the command line", nil)
		}
		if !secret && alone != nil {
			r.Observation("ServerConfig.Load refuses a non-secret flag on the command line: "+f.Name, alone.Error())
		}
		for _, s := range secrets {
			if s.Name == f.Name {
				continue
			}
			for _, order := range [][]string{{f.Name, s.Name}, {s.Name, f.Name}} {
				var args []string
				for _, n := range order {
					fl := f
					if n == s.Name {
						fl = s
					}
					args = append(args, "--"+n+"="+valueFor(fl))
				}
				err := load(args)
				r.Eval(ev.Key([]any{"load2", order}))
				r.Outcome("Load with a secret flag and another flag: " + okErr(err))
				if err == nil {
					r.Violation("C20|engine|secret-on-command-line|"+s.Name+"|masked", fmt.Sprintf("ServerConfig.Load accepts secret flag %s on the command line when %s is given too", s.Name, f.Name), nil)
				}
			}
		}
	}
	// secrets from the environment are fine
	for _, s := range secrets {
		os.Setenv(envName(s.Name), secretCanary)
		err := load(nil)
		os.Unsetenv(envName(s.Name))
		r.Eval(ev.Key([]any{"load-env", s.Name}))
		r.Outcome("Load with a secret in the environment: " + okErr(err))
		if err != nil {
			r.Observation("secret refused from the environment: "+s.Name, err.Error())
		}
	}
	// moved keys: every non-empty subset, by environment, strict on and off
	for _, strict := range []string{"true", "false"} {
		for mask := 1; mask < 1<<len(movedKeys); mask++ {
			var set []string
			for i, k := range movedKeys {
				if mask&(1<<i) != 0 {
					os.Setenv(envName(k), "/some/file.pem")
					set = append(set, k)
				}
			}
			os.Setenv("NUTS_STRICTMODE", strict)
			err := load(nil)
			for _, k := range movedKeys {
				os.Unsetenv(envName(k))
			}
			os.Unsetenv("NUTS_STRICTMODE")
			r.Eval(ev.Key([]any{"moved", strict, set}))
			r.Outcome("Load with moved key(s): " + okErr(err))
			if err == nil {
				r.Violation("C20|engine|moved-key|"+strings.Join(set, "+"), fmt.Sprintf("ServerConfig.Load (strictmode=%s) accepts moved key(s) %v", strict, set), nil)
			}
		}
	}
	if err := load(nil); err != nil {
		t.Fatalf("ServerConfig.Load without arguments fails (harness broken): %v", err)
	}
}

// enginePublicURL: the function-level table is kept as observations only (DESIGN §4 row 22: the URL clause is judged at node start).
func enginePublicURL(t *testing.T, r *ev.Run) {
	all := append(append(append([]string{}, urlsProduct...), urlsExtra...), urlsObserved...)
	for _, strict := range []bool{true, false} {
		for _, u := range all {
			_, err := core.ParsePublicURL(u, strict)
			cl := urlClass(u)
			r.Eval(ev.Key([]any{"ParsePublicURL", strict, u}))
			r.Outcome(fmt.Sprintf("ParsePublicURL strict=%v class=%s: %s", strict, cl, okErr(err)))
			if strict && err == nil && cl != "secure" {
				r.Observation(fmt.Sprintf("core.ParsePublicURL(strict) accepts a URL of class %s (the assembled node decides, see part node)", cl), u)
			}
		}
	}
}
