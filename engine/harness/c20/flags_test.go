package c20

import (
	"fmt"
	"sort"
	"strings"
	"testing"

	"github.com/nuts-foundation/nuts-node/cmd"
	"github.com/nuts-foundation/nuts-node/core"
	"github.com/spf13/pflag"

	"verif/ev"
)

const secretCanary = "s3cr3t-verif-canary"

// serverFlags enumerates the flag set of the assembled `server` command (VisitAll — not a hand-written list).
func serverFlags(t *testing.T, sub string) []*pflag.Flag {
	sys := cmd.CreateSystem(func() {})
	root := cmd.CreateCommand(sys)
	for _, c := range root.Commands() {
		if c.Name() == sub {
			var out []*pflag.Flag
			c.Flags().VisitAll(func(f *pflag.Flag) { out = append(out, f) })
			sort.Slice(out, func(i, j int) bool { return out[i].Name < out[j].Name })
			return out
		}
	}
	t.Fatalf("no %s command", sub)
	return nil
}

func envName(key string) string {
	return "NUTS_" + strings.ToUpper(strings.ReplaceAll(key, ".", "_"))
}

// yamlFor renders one dotted key as nested YAML.
func yamlFor(key, value string) string {
	parts := strings.Split(key, ".")
	var sb strings.Builder
	for i, p := range parts {
		sb.WriteString(strings.Repeat("  ", i) + p + ":")
		if i == len(parts)-1 {
			sb.WriteString(" " + fmt.Sprintf("%q", value))
		}
		sb.WriteString("\n")
	}
	return sb.String()
}

func flagSpec(t *testing.T, strict bool, key, value, source string) startSpec {
	spec := startSpec{Env: baseline(strict).settings(t)}
	switch source {
	case "cli-eq":
		spec.Args = []string{"--" + key + "=" + value}
	case "cli-sp":
		spec.Args = []string{"--" + key, value}
	case "env":
		spec.Env[envName(key)] = value
	case "file":
		spec.File = yamlFor(key, value)
	case "config-cmd":
		spec.Cmd = "config"
		spec.Args = []string{"--" + key + "=" + value}
	default:
		t.Fatalf("source %q", source)
	}
	return spec
}

func buildFlagCases(t *testing.T) (cases []nodeCase, nflags, nsecret int) {
	flags := serverFlags(t, "server")
	nflags = len(flags)
	redacted := map[string]bool{}
	for _, k := range core.VerifRedactedConfigKeys() {
		redacted[k] = true
	}
	for _, strict := range []bool{true, false} {
		for _, f := range flags {
			if isSecretFlag(f.Name) {
				if strict {
					nsecret++
				}
				val := secretCanary
				if f.Value.Type() != "string" {
					val = "1"
				}
				for _, src := range []string{"cli-eq", "cli-sp", "config-cmd"} {
					cases = append(cases, nodeCase{Kind: "secret", Cfg: baseline(strict), Flag: f.Name, Source: src, MustFail: true, Spec: flagSpec(t, strict, f.Name, val, src)})
				}
				for _, src := range []string{"env", "file"} {
					cases = append(cases, nodeCase{Kind: "secret", Cfg: baseline(strict), Flag: f.Name, Source: src, Spec: flagSpec(t, strict, f.Name, val, src)})
				}
			} else if redacted[f.Name] {
				cases = append(cases, nodeCase{Kind: "redacted", Cfg: baseline(strict), Flag: f.Name, Source: "cli-eq",
					Spec: flagSpec(t, strict, f.Name, "sqlite:file:{DIR}/cli.db?_pragma=foreign_keys(1)&journal_mode(WAL)", "cli-eq")})
			}
		}
		cert, _ := pkiFiles(t)
		for _, k := range movedKeys {
			for _, src := range []string{"env", "file", "cli-eq"} {
				cases = append(cases, nodeCase{Kind: "moved", Cfg: baseline(strict), Flag: k, Source: src, MustFail: true, Spec: flagSpec(t, strict, k, cert, src)})
			}
			// the legacy name present but blank, next to the new name holding the real value (conflicting values under the two names):
			// the statement does not say whether a blank legacy key counts as "set" — reported, never judged
			for _, v := range []string{"", " "} {
				for _, src := range []string{"env", "file"} {
					cases = append(cases, nodeCase{Kind: "moved-blank", Cfg: baseline(strict), Flag: k, Source: fmt.Sprintf("%s %q", src, v), Spec: flagSpec(t, strict, k, v, src)})
				}
			}
			// the legacy name with another value than the new name (the new one configured, the legacy one pointing elsewhere)
			cases = append(cases, nodeCase{Kind: "moved", Cfg: baseline(strict), Flag: k, Source: "env-conflicting-value", MustFail: true, Spec: flagSpec(t, strict, k, "{DIR}/other-certificate.pem", "env")})
			// the moved key next to an otherwise insecure-but-tolerated configuration (TLS not configured at all)
			c := baseline(strict)
			c.TLS = "disabled"
			spec := startSpec{Env: c.settings(t)}
			spec.Env[envName(k)] = cert
			cases = append(cases, nodeCase{Kind: "moved", Cfg: c, Flag: k, Source: "env+tls-disabled", MustFail: true, Spec: spec})
		}
	}
	return
}

func runFlagCase(t *testing.T, r *ev.Run, nc nodeCase) {
	res := runNode(t, nc.Spec, nil)
	r.Eval(ev.Key([]any{nc.Kind, nc.Flag, nc.Source, nc.Cfg.Strict}))
	verdict := "refused"
	if res.Started {
		verdict = "started"
	}
	if nc.Spec.Cmd == "config" {
		verdict = "config printed"
		if res.Refusal != "" {
			verdict = "refused"
		}
	}
	r.Outcome(fmt.Sprintf("%s via %s: %s", nc.Kind, nc.Source, verdict))
	r.Sample(map[string]any{"kind": nc.Kind, "flag": nc.Flag, "source": nc.Source, "strict": nc.Cfg.Strict, "verdict": verdict, "refusal": res.Refusal})
	switch nc.Kind {
	case "secret":
		if nc.MustFail && verdict != "refused" {
			r.Violation("C20|secret-on-command-line|"+nc.Flag+"|"+nc.Source, fmt.Sprintf("secret option %s given on the command line (%s, strict=%v) was accepted: %s", nc.Flag, nc.Source, nc.Cfg.Strict, verdict), nc)
		}
		if !nc.MustFail && verdict == "refused" {
			// the statement only says that the command line is refused; this is the vacuity guard's raw material
			r.Observation("secret option refused from "+nc.Source+": "+nc.Flag, res.Refusal)
		}
	case "moved":
		if verdict != "refused" {
			r.Violation("C20|moved-key|"+nc.Flag+"|"+nc.Source, fmt.Sprintf("moved configuration key %s (%s, strict=%v) did not stop start-up", nc.Flag, nc.Source, nc.Cfg.Strict), nc)
		} else if nc.Source != "cli-eq" && !strings.Contains(res.Refusal, "moved") {
			r.Observation("moved key refused with another message", map[string]any{"key": nc.Flag, "source": nc.Source, "refusal": res.Refusal})
		}
	case "moved-blank":
		r.Observation(fmt.Sprintf("moved configuration key %s present with a blank value (%s, strict=%v): %s", nc.Flag, nc.Source, nc.Cfg.Strict, verdict), res.Refusal)
	case "redacted":
		r.Observation(fmt.Sprintf("option %s is masked when the configuration is printed but does not end in token/password; on the command line (strict=%v): %s", nc.Flag, nc.Cfg.Strict, verdict), res.Refusal)
	}
}

// sectionFlags: secrets on the command line and moved keys, on the assembled node, both modes.
func sectionFlags(t *testing.T, r *ev.Run) {
	cases, nflags, nsecret := buildFlagCases(t)
	r.Bound("registered_flags", nflags)
	r.Bound("secret_flags", nsecret)
	r.Bound("moved_keys", len(movedKeys))
	if nsecret == 0 {
		t.Fatal("no registered flag ends in token/password: the secret clause would be vacuous")
	}
	for idx, c := range cases {
		if !r.Mine(idx + 3) {
			continue
		}
		if r.Expired() {
			break
		}
		runFlagCase(t, r, c)
	}
}
