// C20 — Strict mode refuses every insecure configuration it documents.
//
// Part "node": the assembled node (cmd.CreateSystem + cmd.Execute, `nuts server`, NUTS_* environment, fresh data
// directory) is started for every point of the option product; while it runs, the clauses that the design judges
// "at the action" are exercised on the running system (dummy means over the internal API, JSON-LD document
// loader, IAM client and did:web resolver against the in-process lab).
package c20

import (
	"bytes"
	"context"
	"encoding/json"
	"fmt"
	"io"
	nethttp "net/http"
	"os"
	"sort"
	"strings"
	"testing"
	"time"

	"github.com/nuts-foundation/go-did/did"
	"github.com/nuts-foundation/nuts-node/auth"
	"github.com/nuts-foundation/nuts-node/core"
	"github.com/nuts-foundation/nuts-node/jsonld"
	"github.com/nuts-foundation/nuts-node/vdr"

	"verif/ev"
)

// ---------------------------------------------------------------- option values

var (
	// representatives used in the full product
	urlsProduct = []string{
		"https://nuts.verif-node.nl", // secure
		"https://nuts.verif-node.nl:8443",
		"http://nuts.verif-node.nl", // plain http
		"https://192.0.2.10",        // IPv4
		"https://[::1]",             // IPv6
		"https://localhost",         // reserved
		"https://node.local",
		"https://node.test",
		"https://www.example.com",
		"",                   // not set
		"nuts.verif-node.nl", // no scheme
	}
	// every further class; combined with strict x (baseline + every single deviation of the other options)
	urlsExtra = []string{
		"https://NUTS.Verif-Node.NL", "https://nuts.verif-node.nl/", "https://nuts.verif-node.nl/base",
		"HTTP://nuts.verif-node.nl", "http://nuts.verif-node.nl:80", "http://localhost", "http://192.0.2.10", "ftp://nuts.verif-node.nl",
		"ws://nuts.verif-node.nl", "//nuts.verif-node.nl", "https:nuts.verif-node.nl", "https://", "https:///path",
		"https://192.0.2.10:8443", "https://127.0.0.1", "https://0.0.0.0", "https://[2001:db8::1]", "https://[2001:db8::1]:8443",
		"https://[::ffff:192.0.2.10]", "https://[fe80::1%25eth0]",
		"https://LOCALHOST", "https://localhost:8443", "https://node.localhost", "https://node.example", "https://node.invalid",
		"https://node.TEST", "https://example.com", "https://example.net", "https://www.example.org", "https://EXAMPLE.org",
		"https://node.lan", "https://node.home", "https://node.host", "https://node.corp", "https://node.localdomain",
		"https://example.com.", "https://node.test.",
		// the same classes written with surrounding white space and with the scheme in capitals (classified on the trimmed value)
		" http://nuts.verif-node.nl", "http://nuts.verif-node.nl ", "\thttps://192.0.2.10", " https://localhost", "https://node.test\n",
		"HTTPS://192.0.2.10", "hTTp://nuts.verif-node.nl", "Https://LOCALHOST", " https://nuts.verif-node.nl",
	}
	// accepted-looking oddities that the statement does not speak about: outcome recorded as observation only
	urlsObserved = []string{"https://127.1", "https://2130706433", "https://0x7f.0.0.1", "https://0177.0.0.1", "https://nuts",
		"https://node.domain", "https://nuts.verif-node.nl.", "https://user:pw@nuts.verif-node.nl", "https://nuts.verif-node.nl:0"}

	tlsValues        = []string{"configured", "offload", "disabled"}
	cryptoValues     = []string{"fs", "implicit", "vaultkv"}
	sqlValues        = []string{"explicit", "implicit"}
	validatorsValues = []string{"employeeid", "employeeid+dummy"}
	irmaValues       = []string{"pbdf", "irma-demo"}
	methodsValues    = []string{"web,nuts", "web", "nuts"}
	contextsValues   = []string{"default", "extra"}
)

const listedContext = "https://" + hostOrigin + "/listed/ctx/v1"

type nodeCase struct {
	Kind     string    `json:"kind"` // cfg | observed-url | secret | moved | redacted
	Cfg      nodeCfg   `json:"cfg"`
	Spec     startSpec `json:"spec,omitempty"`
	Flag     string    `json:"flag,omitempty"`
	Source   string    `json:"source,omitempty"` // cli-eq | cli-sp | env | file | config-cmd
	MustFail bool      `json:"must_fail,omitempty"`
	// Gates: the gating options of a gating case (for the check that the value reached the node)
	Gates []gateRef `json:"gates,omitempty"`
	// Iso: run the start in a child process (values that may take the whole process down: zero / negative / huge numbers)
	Iso bool `json:"iso,omitempty"`
	// ObserveOnly: the statement does not say what this spelling means (e.g. strictmode "yes"): outcome reported, never a violation
	ObserveOnly bool `json:"observe_only,omitempty"`
}

func buildCfgCases(thorough bool) []nodeCase {
	seen := map[string]bool{}
	var out []nodeCase
	add := func(kind string, c nodeCfg) {
		k := kind + ev.Key(c)
		if !seen[k] {
			seen[k] = true
			out = append(out, nodeCase{Kind: kind, Cfg: c})
		}
	}
	// (1) all single deviations and all pairs first (simplest first, so the first counter-example is small) ...
	type dim struct {
		set  func(c *nodeCfg, v string)
		vals []string
	}
	allURLs := append(append([]string{}, urlsProduct...), urlsExtra...)
	dims := []dim{
		{func(c *nodeCfg, v string) { c.URL = v }, allURLs},
		{func(c *nodeCfg, v string) { c.TLS = v }, tlsValues},
		{func(c *nodeCfg, v string) { c.Crypto = v }, cryptoValues},
		{func(c *nodeCfg, v string) { c.SQL = v }, sqlValues},
		{func(c *nodeCfg, v string) { c.Validators = v }, validatorsValues},
		{func(c *nodeCfg, v string) { c.Irma = v }, irmaValues},
		{func(c *nodeCfg, v string) { c.Methods = v }, methodsValues},
		{func(c *nodeCfg, v string) { c.Contexts = v }, contextsValues},
	}
	for _, strict := range []bool{true, false} {
		add("cfg", baseline(strict))
		for i := range dims {
			for _, v := range dims[i].vals {
				c := baseline(strict)
				dims[i].set(&c, v)
				add("cfg", c)
			}
		}
	}
	for _, strict := range []bool{true, false} {
		for i := range dims {
			for j := i + 1; j < len(dims); j++ {
				for _, v := range dims[i].vals {
					for _, w := range dims[j].vals {
						c := baseline(strict)
						dims[i].set(&c, v)
						dims[j].set(&c, w)
						add("cfg", c)
					}
				}
			}
		}
	}
	// (2) ... then the full product. Quick tier: the unreachable Vault (50 ms time-out each, refused in both modes for a
	// reason outside the statement) and the allow-list variant (does not influence start-up) stay in the singles and pairs only.
	urls, cryptos, ctxs := urlsProduct, []string{"fs", "implicit"}, []string{"default"}
	if thorough {
		urls, cryptos, ctxs = allURLs, cryptoValues, contextsValues
	}
	for _, strict := range []bool{true, false} {
		for _, u := range urls {
			for _, tl := range tlsValues {
				for _, cr := range cryptos {
					for _, sq := range sqlValues {
						for _, va := range validatorsValues {
							for _, ir := range irmaValues {
								for _, me := range methodsValues {
									for _, cx := range ctxs {
										add("cfg", nodeCfg{Strict: strict, URL: u, TLS: tl, Crypto: cr, SQL: sq, Validators: va, Irma: ir, Methods: me, Contexts: cx})
									}
								}
							}
						}
					}
				}
			}
		}
	}
	for _, strict := range []bool{true, false} {
		for _, u := range urlsObserved {
			c := baseline(strict)
			c.URL = u
			add("observed-url", c)
		}
	}
	return out
}

// ---------------------------------------------------------------- actions on the running node

type actionObs struct {
	DummyCreate   int                 `json:"dummy_create,omitempty"` // HTTP status of POST signature/session with means=dummy
	DummyVerify   string              `json:"dummy_verify,omitempty"` // "valid" | "invalid" | "refused:<status>"
	DummyFlow     string              `json:"dummy_flow,omitempty"`   // non-strict: "ok" or what failed
	LDUnlisted    string              `json:"ld_unlisted,omitempty"`  // "loaded" | "refused"
	LDUnlistedNet int                 `json:"ld_unlisted_net"`        // dials + hits caused by it
	LDListed      string              `json:"ld_listed,omitempty"`    // Contexts=extra only
	IAMPlain      string              `json:"iam_plain,omitempty"`    // "ok" | "refused"
	IAMPlainHits  int                 `json:"iam_plain_hits"`         // requests that reached the plain listener
	IAMRedirHits  int                 `json:"iam_redirect_hits"`      // same, for https -> 302 -> http
	IAMRedir      string              `json:"iam_redirect,omitempty"` // "ok" | "refused"
	VDRRedirHits  int                 `json:"vdr_redirect_hits"`      // did:web resolution, https -> 302 -> http
	VDRRedir      string              `json:"vdr_redirect,omitempty"` // "resolved" | "refused" | "n/a"
	Owned         map[string]ownedObs `json:"owned_clients,omitempty"`
	Global        map[string]ownedObs `json:"global_clients,omitempty"` // every caller of outbound_test.go, against the process state this node's start left
	Flows         []string            `json:"rfc021,omitempty"`
}

var apiClient = &nethttp.Client{Timeout: 10 * time.Second, Transport: &nethttp.Transport{DisableKeepAlives: true}}

func apiCall(method, url string, body any) (int, []byte) {
	var rd io.Reader
	if body != nil {
		b, _ := json.Marshal(body)
		rd = bytes.NewReader(b)
	}
	req, _ := nethttp.NewRequest(method, url, rd)
	req.Header.Set("Content-Type", "application/json")
	req.Header.Set("Accept", "application/json")
	resp, err := apiClient.Do(req)
	if err != nil {
		return -1, []byte(err.Error())
	}
	defer resp.Body.Close()
	b, _ := io.ReadAll(resp.Body)
	return resp.StatusCode, b
}

const contractText = "NL:BehandelaarLogin:v3 Hierbij verklaar ik te handelen in naam van Zorg & Zo te A & B. Deze verklaring is geldig van woensdag, 1 januari 2020 02:01:01 tot woensdag, 1 januari 2020 03:01:01."

// a dummy presentation as the dummy means of a non-strict node produces it (obtained once per worker from a real node)
var dummyVP json.RawMessage

// dummyFlow drives the whole dummy signing flow; returns the create status, the presentation (if any) and whether
// the node judged it valid.
func dummyFlow(base string) (create int, vp json.RawMessage, verify string, flow string) {
	st, body := apiCall("POST", base+"/internal/auth/v1/signature/session", map[string]any{"means": "dummy", "payload": contractText, "params": map[string]any{}})
	create = st
	if st == 201 {
		var sess struct {
			SessionID string `json:"sessionID"`
		}
		_ = json.Unmarshal(body, &sess)
		for i := 0; i < 4 && vp == nil; i++ {
			st2, b2 := apiCall("GET", base+"/internal/auth/v1/signature/session/"+sess.SessionID, nil)
			if st2 != 200 {
				flow = fmt.Sprintf("status poll %d: %d %s", i, st2, b2)
				return
			}
			var stat struct {
				Status string          `json:"status"`
				VP     json.RawMessage `json:"verifiablePresentation"`
			}
			_ = json.Unmarshal(b2, &stat)
			if len(stat.VP) > 0 && string(stat.VP) != "null" {
				vp = stat.VP
			}
		}
		if vp == nil {
			flow = "no presentation after 4 polls"
			return
		}
	}
	use := vp
	if use == nil {
		use = dummyVP
	}
	if use != nil {
		verify = verifyVP(base, use)
	}
	if create == 201 && verify == "valid" {
		flow = "ok"
	} else if flow == "" {
		flow = fmt.Sprintf("create=%d verify=%s", create, verify)
	}
	return
}

func verifyVP(base string, vp json.RawMessage) string {
	st, body := apiCall("PUT", base+"/internal/auth/v1/signature/verify", map[string]any{"VerifiablePresentation": vp})
	if st != 200 {
		return fmt.Sprintf("refused:%d", st)
	}
	var res struct {
		Validity bool `json:"validity"`
	}
	_ = json.Unmarshal(body, &res)
	if res.Validity {
		return "valid"
	}
	return "invalid"
}

func actions(c nodeCfg, sys *core.System, base string) actionObs {
	var o actionObs
	l := theLab()
	time.Sleep(20 * time.Millisecond) // let the background refresh that engines start with the node issue its first requests
	startHits, _ := l.Take()
	ctx, cancel := context.WithTimeout(context.Background(), 20*time.Second)
	defer cancel()
	// dummy means
	if strings.Contains(c.Validators, "dummy") {
		o.DummyCreate, _, o.DummyVerify, o.DummyFlow = dummyFlow(base)
	}
	// JSON-LD contexts
	if e, ok := sys.FindEngineByName("jsonld").(jsonld.JSONLD); ok {
		loader := e.DocumentLoader()
		l.Take()
		_, err := loader.LoadDocument("https://" + hostOrigin + "/" + nextNonce() + "/ctx/unlisted")
		hits, dials := l.Take()
		o.LDUnlisted, o.LDUnlistedNet = "loaded", len(hits)+len(dials)
		if err != nil {
			o.LDUnlisted = "refused"
		}
		if c.Contexts == "extra" {
			_, err := loader.LoadDocument(listedContext)
			l.Take()
			o.LDListed = "loaded"
			if err != nil {
				o.LDListed = "refused: " + err.Error()
			}
		}
	}
	// IAM client of the auth engine
	if a, ok := sys.FindEngineByName("auth").(auth.AuthenticationServices); ok {
		iamClient := a.IAMClient()
		l.Take()
		_, err := iamClient.ClientMetadata(ctx, "http://"+hostOrigin+"/"+nextNonce()+"/ok/client")
		hits, _ := l.Take()
		o.IAMPlain, o.IAMPlainHits = "ok", len(plainHits(hits))
		if err != nil {
			o.IAMPlain = "refused"
		}
		_, err = iamClient.ClientMetadata(ctx, "https://"+hostOrigin+"/"+nextNonce()+"/r302-same-http/client")
		hits, _ = l.Take()
		o.IAMRedir, o.IAMRedirHits = "ok", len(plainHits(hits))
		if err != nil {
			o.IAMRedir = "refused"
		}
	}
	// did:web through the VDR's resolver
	o.VDRRedir = "n/a"
	if v, ok := sys.FindEngineByName("vdr").(vdr.VDR); ok && c.hasMethod("web") {
		id := did.MustParseDID("did:web:" + hostOrigin + ":" + nextNonce() + ":r302-same-http")
		l.Take()
		doc, _, err := v.Resolver().Resolve(id, nil)
		hits, _ := l.Take()
		o.VDRRedirHits = len(plainHits(hits))
		o.VDRRedir = "refused"
		if err == nil && doc != nil {
			o.VDRRedir = "resolved"
		}
	}
	// every strict node; with strict mode off only the configurations with at most one insecure setting (the rest adds nothing but time)
	if c.Strict || len(c.insecureStart()) <= 1 {
		o.Owned, o.Flows = ownedClientProbes(c, sys, startHits)
		o.Global = globalClientProbes(c)
	}
	return o
}

// ---------------------------------------------------------------- the check

func sectionNode(t *testing.T, r *ev.Run) {
	// vacuity guards: both baselines start, and the dummy flow works on a non-strict node (also yields the presentation
	// that strict nodes are asked to verify)
	for _, strict := range []bool{true, false} {
		res := runNode(t, startSpec{Env: baseline(strict).settings(t)}, nil)
		if !res.Started {
			t.Fatalf("baseline strict=%v does not start: %s", strict, res.Refusal)
		}
	}
	needDummyVP(t)
	effectiveGuards(t)

	cases := buildCfgCases(r.Thorough())
	r.Bound("configurations", len(cases))
	r.Bound("url_classes", len(urlsProduct)+len(urlsExtra))
	r.Bound("full_product", map[bool]string{false: "2 strict x 11 urls x 3 tls x 2 crypto x 2 sql x 2 validators x 2 irma x 3 didmethods", true: fmt.Sprintf("2 strict x %d urls x 3 tls x 3 crypto x 2 sql x 2 validators x 2 irma x 3 didmethods x 2 allow lists", len(urlsProduct)+len(urlsExtra))}[r.Thorough()])
	for idx, c := range cases {
		if !r.Mine(idx) {
			continue
		}
		if r.Expired() {
			break
		}
		runCfgCase(t, r, c)
	}
}

func needDummyVP(t *testing.T) {
	if dummyVP != nil {
		return
	}
	c := baseline(false)
	c.Validators = "employeeid+dummy"
	var flow string
	res := runNode(t, startSpec{Env: c.settings(t)}, func(sys *core.System, base string) {
		_, dummyVP, _, flow = dummyFlow(base)
	})
	if !res.Started || flow != "ok" || dummyVP == nil {
		t.Fatalf("dummy means do not work on a non-strict node (harness broken): started=%v refusal=%q flow=%q", res.Started, res.Refusal, flow)
	}
}

// execCfgCase starts the node of one case and runs the action battery on it (no judging: also used by the child process of
// isolated cases).
func execCfgCase(t testing.TB, nc nodeCase) (startResult, actionObs) {
	c := nc.Cfg
	var obs actionObs
	res := runNode(t, cfgSpec(t, nc), func(sys *core.System, base string) { obs = actions(c, sys, base) })
	return res, obs
}

func cfgSpec(t testing.TB, nc nodeCase) startSpec {
	env := nc.Cfg.settings(t)
	for _, name := range nc.Spec.Unset { // the gated option is decided by the config file
		delete(env, name)
	}
	for k, v := range nc.Spec.Env { // spelling cases: the option as written by the operator
		env[k] = v
	}
	return startSpec{Env: env, File: nc.Spec.File, Args: nc.Spec.Args, Unset: nc.Spec.Unset, Files: ownedFiles} // File/Unset: the gating option of a "gating" case
}

func runCfgCase(t *testing.T, r *ev.Run, nc nodeCase) {
	if nc.Iso {
		out := runIsolated(t, []nodeCase{nc})
		judgeCfgCase(r, nc, out[0].Res, out[0].Obs)
		return
	}
	c := nc.Cfg
	res, obs := execCfgCase(t, nc)
	// "accepted with strict mode off" is the one direction in which a transient start-up failure of the sandbox (a port, NATS or
	// SQLite hiccup on a loaded machine) would look like a violation: such a verdict has to reproduce twice more before it is believed.
	failsNonStrict := func(res startResult, obs actionObs) bool {
		if c.Strict {
			return false
		}
		if !res.Started {
			return c.plain()
		}
		return (strings.Contains(c.Validators, "dummy") && obs.DummyFlow != "ok") || obs.LDUnlisted == "refused" || obs.IAMPlain == "refused"
	}
	for retry := 0; retry < 2 && failsNonStrict(res, obs); retry++ {
		res2, obs2 := execCfgCase(t, nc)
		if !failsNonStrict(res2, obs2) || refusalClass(res2.Refusal) != refusalClass(res.Refusal) {
			r.AssumptionCheck("start-up verdicts are reproducible", false, fmt.Sprintf("%s: first run %q / %+v, repeat %q", ev.Key(c), res.Refusal, obs, res2.Refusal))
			res, obs = res2, obs2
		}
	}
	judgeCfgCase(r, nc, res, obs)
}

// judgeCfgCase applies the oracle to the outcome of one case.
func judgeCfgCase(r *ev.Run, nc nodeCase, res startResult, obs actionObs) {
	c := nc.Cfg
	if os.Getenv("VERIF_REPLAY") != "" { // a replay shows what was observed
		b, _ := json.Marshal(map[string]any{"result": res, "actions": obs})
		fmt.Printf("REPLAY-OBSERVED %s\n", b)
	}
	if strings.HasPrefix(res.Crashed, "harness:") {
		r.NotExhaustive("isolated case not run: " + res.Crashed)
		return
	}
	if res.Crashed != "" {
		// the child process that ran this start died or hung: a crash is not a verdict of the property (the node is not running)
		r.Eval(nc.Kind + nc.Flag + ev.Key(c))
		r.Outcome(nc.Kind + ": the node process died or hung")
		r.Observation("the node process dies or hangs at start-up with "+nc.Flag+" (outside this property; not started)", res.Crashed)
		return
	}
	r.Eval(nc.Kind + nc.Flag + ev.Key(c))
	ins := c.insecureStart()
	sort.Strings(ins)
	verdict := "refused"
	if res.Started {
		verdict = "started"
	}
	sig := strings.Join(ins, "+")
	if nc.Kind == "spelling" {
		// the insecure value of a name-valued option, spelled differently (case, spaces, position in a list, duplicates)
		r.Outcome(fmt.Sprintf("spelling: insecure-at-start=%v %s", len(ins) > 0, verdict))
		if nc.ObserveOnly {
			if len(ins) > 0 && res.Started {
				r.Observation("an insecure configuration starts when the option is written as "+nc.Flag+" (the statement does not say what that spelling means)", sig)
			}
			return
		}
		if len(ins) > 0 && res.Started {
			r.Violation("C20|node|strict-started|"+sig+"|spelling", fmt.Sprintf("strict mode on, configuration is insecure (%s) but with the value written as %s the node started", sig, nc.Flag), nc)
		}
		if res.Started {
			judgeEffective(r, nc, c, res, "")
			judgeActions(r, nc, c, res, obs, "|spelling")
		}
		return
	}
	if nc.Kind == "gating" {
		// a gating case: one insecure setting (or the strict baseline with dummy means) under one value of one other option
		r.Outcome(fmt.Sprintf("gating: insecure=%v %s", len(ins) > 0, verdict))
		if len(ins) == 0 {
			r.AddExtra("gating_values_with_which_the_strict_baseline_"+verdict, 1)
		}
		if len(ins) > 0 && res.Started {
			r.Violation("C20|node|strict-started|"+sig+"|gating:"+nc.Flag, fmt.Sprintf("strict mode on, configuration is insecure (%s) but with %s the node started: %s", sig, nc.Flag, ev.Key(c)), nc)
		}
		if !res.Started {
			return
		}
		// action-level signatures carry no gating suffix: a defect that does not depend on the gate would otherwise be reported once per
		// gate value; the replay case names the gate
		judgeReached(r, nc, res)
		judgeEffective(r, nc, c, res, "")
		judgeActions(r, nc, c, res, obs, "")
		return
	}
	r.Outcome(fmt.Sprintf("strict=%v insecure=%v %s", c.Strict, len(ins) > 0, verdict))
	r.Sample(map[string]any{"cfg": c, "insecure_clauses": ins, "verdict": verdict, "refusal": res.Refusal, "actions": obs})

	if nc.Kind == "observed-url" {
		r.Observation(fmt.Sprintf("public url %q (class %s by the model) strict=%v: %s", c.URL, urlClass(c.URL), c.Strict, verdict), res.Refusal)
		return
	}
	switch {
	case c.Strict && len(ins) > 0 && res.Started:
		r.Violation("C20|node|strict-started|"+sig, fmt.Sprintf("strict mode on, configuration is insecure (%s) but the node started: %s", sig, ev.Key(c)), nc)
	case c.Strict && len(ins) == 0 && !res.Started && c.Crypto != "vaultkv":
		r.Observation("secure configuration refused in strict mode: "+refusalClass(res.Refusal), "url class "+urlClass(c.URL))
	case !c.Strict && !res.Started && c.plain():
		r.Violation("C20|node|nonstrict-refused|"+sig, fmt.Sprintf("strict mode off, plain settings (%s) but the node refused to start (%s): %s", sig, res.Refusal, ev.Key(c)), nc)
	case !c.Strict && !res.Started:
		r.Observation("non-plain configuration refused with strict mode off: "+refusalClass(res.Refusal), nil)
	}
	if !res.Started {
		return
	}
	judgeEffective(r, nc, c, res, "")
	judgeActions(r, nc, c, res, obs, "")
}

// judgeActions: the clauses judged at the action, on a node that started. sfx is appended to violation signatures (gating cases).
func judgeActions(r *ev.Run, nc nodeCase, c nodeCfg, res startResult, obs actionObs, sfx string) {
	judgeOwned(r, nc, c, obs.Owned, obs.Flows, sfx)
	judgeGlobal(r, nc, c, obs.Global, sfx)
	if c.Strict && c.TLS == "disabled" && res.GRPCOpen {
		r.Violation("C20|node|tls-off|grpc-listening"+sfx, "strict mode on, no TLS certificate configured, yet the gRPC network address accepts connections: "+ev.Key(c), nc)
	}
	if c.TLS == "disabled" && !c.hasMethod("nuts") && c.Strict && sfx == "" {
		r.Observation("strict mode, no TLS files, did:nuts disabled: node starts without a gRPC network (port closed)", nil)
	}
	// ---- clauses judged at the action
	if strings.Contains(c.Validators, "dummy") {
		if c.Strict {
			if obs.DummyCreate == 201 {
				r.Violation("C20|action|dummy-sign|strict"+sfx, "strict mode on: a signing session with the dummy means was created: "+ev.Key(c), nc)
			}
			if obs.DummyVerify == "valid" {
				r.Violation("C20|action|dummy-verify|strict"+sfx, "strict mode on: a presentation of the dummy means was verified as valid: "+ev.Key(c), nc)
			}
			r.Outcome("dummy strict: create=" + fmt.Sprint(obs.DummyCreate) + " verify=" + obs.DummyVerify)
		} else {
			if obs.DummyFlow != "ok" {
				r.Violation("C20|action|dummy|nonstrict-refused", "strict mode off, dummy means configured, but the dummy flow fails: "+obs.DummyFlow, nc)
			}
			r.Outcome("dummy non-strict: " + obs.DummyFlow)
		}
	}
	if obs.LDUnlisted != "" {
		if c.Strict && (obs.LDUnlisted == "loaded" || obs.LDUnlistedNet > 0) {
			r.Violation("C20|action|jsonld-unlisted|strict"+sfx, fmt.Sprintf("strict mode on: a JSON-LD context that is not on the allow list was %s (%d outbound attempts): %s", obs.LDUnlisted, obs.LDUnlistedNet, ev.Key(c)), nc)
		}
		if !c.Strict && obs.LDUnlisted != "loaded" {
			r.Violation("C20|action|jsonld-unlisted|nonstrict-refused", "strict mode off: an unlisted remote JSON-LD context was refused: "+ev.Key(c), nc)
		}
		r.Outcome(fmt.Sprintf("jsonld unlisted strict=%v: %s", c.Strict, obs.LDUnlisted))
		if c.Contexts == "extra" && obs.LDListed != "loaded" {
			r.Observation("allow-listed remote JSON-LD context not loaded", map[string]any{"cfg": c, "result": obs.LDListed})
		}
	}
	if obs.IAMPlain != "" {
		if c.Strict && obs.IAMPlainHits > 0 {
			r.Violation("C20|outbound|plain-http|node:iam.ClientMetadata"+sfx, "strict mode on: the node's IAM client sent a request to a plain-HTTP endpoint: "+ev.Key(c), nc)
		}
		if !c.Strict && obs.IAMPlain != "ok" {
			r.Violation("C20|outbound|plain-http-nonstrict-refused|node:iam.ClientMetadata", "strict mode off: the node's IAM client refused a plain-HTTP endpoint: "+ev.Key(c), nc)
		}
		if c.Strict && obs.IAMRedirHits > 0 {
			r.Violation("C20|outbound|redirect-to-http|node:iam.ClientMetadata"+sfx, "strict mode on: the node's IAM client followed a redirect from https to plain http: "+ev.Key(c), nc)
		}
		r.Outcome(fmt.Sprintf("iam strict=%v: plain=%s redirect=%s", c.Strict, obs.IAMPlain, obs.IAMRedir))
	}
	if obs.VDRRedir != "n/a" {
		if c.Strict && obs.VDRRedirHits > 0 {
			r.Violation("C20|outbound|redirect-to-http|node:vdr.Resolve(did:web)"+sfx, "strict mode on: did:web resolution followed a redirect from https to plain http ("+obs.VDRRedir+"): "+ev.Key(c), nc)
		}
		r.Outcome(fmt.Sprintf("did:web redirect to http strict=%v: %s", c.Strict, obs.VDRRedir))
	}
}

// refusalClass strips variable parts from a refusal message.
func refusalClass(s string) string {
	if i := strings.Index(s, "unable to configure "); i >= 0 {
		s = s[i:]
	}
	if len(s) > 90 {
		s = s[:90]
	}
	return s
}
