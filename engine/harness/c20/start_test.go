package c20

import (
	"context"
	"fmt"
	"hash/fnv"
	"io"
	"net"
	nethttp "net/http"
	"os"
	"path/filepath"
	"runtime"
	"sort"
	"strings"
	"sync"
	"testing"
	"time"

	"github.com/nuts-foundation/nuts-node/audit"
	"github.com/nuts-foundation/nuts-node/cmd"
	"github.com/nuts-foundation/nuts-node/core"
	"github.com/nuts-foundation/nuts-node/jsonld"
	"github.com/nuts-foundation/nuts-node/test/pki"
	"github.com/sirupsen/logrus"
)

// ---------------------------------------------------------------- whole-node starter

// fatalHook records the entry of logrus.Fatal (the server command reports every start-up error that way).
type fatalHook struct {
	mu  sync.Mutex
	msg []string
}

func (h *fatalHook) Levels() []logrus.Level { return []logrus.Level{logrus.FatalLevel} }
func (h *fatalHook) Fire(e *logrus.Entry) error {
	h.mu.Lock()
	defer h.mu.Unlock()
	m := e.Message
	if err, ok := e.Data[logrus.ErrorKey]; ok {
		m += ": " + fmt.Sprint(err)
	}
	h.msg = append(h.msg, m)
	return nil
}
func (h *fatalHook) take() string {
	h.mu.Lock()
	defer h.mu.Unlock()
	s := strings.Join(h.msg, " | ")
	h.msg = nil
	return s
}

var (
	hook     = &fatalHook{}
	hookOnce sync.Once
)

func installLogrus() {
	hookOnce.Do(func() {
		logrus.SetOutput(io.Discard)
		audit.VerifSilence()
		logrus.StandardLogger().AddHook(hook)
		// logrus.Fatal calls ExitFunc after the entry was written. Ending only the calling goroutine
		// (deferred functions run) is what "the process exits" means for the goroutine that runs the command.
		logrus.StandardLogger().ExitFunc = func(int) { runtime.Goexit() }
	})
}

type startSpec struct {
	Args []string          `json:"args,omitempty"` // after `nuts server`
	Env  map[string]string `json:"env,omitempty"`  // NUTS_* (without the ports / data dir, which the starter owns)
	File string            `json:"file,omitempty"` // content of the YAML config file
	Cmd  string            `json:"cmd,omitempty"`  // sub-command, default "server"
	// Unset lists environment names that the starter must NOT set itself (the config file decides them instead).
	// Placeholders in File/Env/Args: {DIR} data directory parent, {FREEADDR} a free loopback address, {INTERNAL} the internal HTTP address.
	Unset []string `json:"unset,omitempty"`
	// Files are written below the run's directory before the start (relative path -> content).
	Files map[string]string `json:"files,omitempty"`
}

type startResult struct {
	Started  bool
	Refusal  string // fatal log entry, or the error returned by Execute
	GRPCOpen bool   // the gRPC address accepted a TCP connection while the node was up
	Out      string // stdout of the command (config sub-command)
	// Eff: the effective state of the node that started (nil when it did not), see effective_test.go
	Eff *effState `json:"Eff,omitempty"`
	// Crashed: the start was run in a child process (isolated case) which died / hung while running it
	Crashed string `json:"Crashed,omitempty"`
}

// Ports: every worker process owns a block of ports below the kernel's ephemeral range, so that a port chosen
// here cannot be taken by another worker (or by any ":0" listener) between choosing and binding. Ownership of a
// block is the bound first port of the block (kept for the life of the process), so concurrent runs cannot share one.
var (
	portMu    sync.Mutex
	portBase  int
	portNext  int
	portGuard net.Listener
)

const (
	portBlock  = 180
	portBlocks = 120 // 10000 .. 31600; parents and the child processes of isolated cases of two concurrent runs fit
)

func freeAddr() string {
	portMu.Lock()
	defer portMu.Unlock()
	if portBase == 0 {
		h := fnv.New32a()
		h.Write([]byte(os.Getenv("VERIF_RUNDIR")))
		var shard, n int
		fmt.Sscanf(os.Getenv("VERIF_SHARD"), "%d/%d", &shard, &n)
		first := int(h.Sum32()%6)*20 + shard%20
		for i := 0; i < portBlocks && portBase == 0; i++ {
			base := 10000 + ((first+i)%portBlocks)*portBlock
			if l, err := net.Listen("tcp", fmt.Sprintf("127.0.0.1:%d", base)); err == nil {
				portGuard, portBase = l, base
			}
		}
		if portBase == 0 {
			panic("no free port block")
		}
	}
	for i := 0; i < portBlock; i++ {
		p := portBase + 1 + portNext%(portBlock-1)
		portNext++
		l, err := net.Listen("tcp", fmt.Sprintf("127.0.0.1:%d", p))
		if err == nil {
			l.Close()
			return fmt.Sprintf("127.0.0.1:%d", p)
		}
	}
	panic("no free port in this worker's block")
}

func clearNutsEnv() {
	for _, kv := range os.Environ() {
		if strings.HasPrefix(kv, "NUTS_") {
			os.Unsetenv(strings.SplitN(kv, "=", 2)[0])
		}
	}
}

var pkiOnce sync.Once
var certFile, trustFile string

func pkiFiles(t testing.TB) (string, string) {
	pkiOnce.Do(func() {
		dir, err := os.MkdirTemp("", "c20pki")
		if err != nil {
			t.Fatal(err)
		}
		certFile = filepath.Join(dir, "certificate-and-key.pem")
		trustFile = filepath.Join(dir, "truststore.pem")
		if err := os.WriteFile(certFile, pki.CertificateData, 0o600); err != nil {
			t.Fatal(err)
		}
		if err := os.WriteFile(trustFile, pki.TruststoreData, 0o600); err != nil {
			t.Fatal(err)
		}
	})
	return certFile, trustFile
}

// runNode runs `nuts <cmd> args…` in process with the given environment and config file in a fresh data
// directory. For the server command: Started = /status answered 200 on the internal listener; `up` (if any)
// is called while the node runs; then the context is cancelled and the command returns.
func runNode(t testing.TB, spec startSpec, up func(sys *core.System, internalURL string)) startResult {
	installLogrus()
	for attempt := 0; ; attempt++ {
		res, retry := runNodeOnce(t, spec, up)
		if retry && attempt < 4 {
			continue
		}
		return res
	}
}

var execMu sync.Mutex
var hangs int

func runNodeOnce(t testing.TB, spec startSpec, up func(sys *core.System, internalURL string)) (res startResult, retry bool) {
	execMu.Lock()
	defer execMu.Unlock()
	dir, err := os.MkdirTemp("", "c20node")
	if err != nil {
		t.Fatal(err)
	}
	defer os.RemoveAll(dir)
	clearNutsEnv()
	internal, public, grpcAddr, nats := freeAddr(), freeAddr(), freeAddr(), freeAddr()
	cfgFile := filepath.Join(dir, "nuts.yaml")
	fill := func(v string) string {
		v = strings.ReplaceAll(v, "{DIR}", dir)
		v = strings.ReplaceAll(v, "{INTERNAL}", internal)
		for strings.Contains(v, "{FREEADDR}") {
			v = strings.Replace(v, "{FREEADDR}", freeAddr(), 1)
		}
		return v
	}
	if err := os.WriteFile(cfgFile, []byte(fill(spec.File)), 0o600); err != nil {
		t.Fatal(err)
	}
	files := spec.Files
	if files == nil {
		files = ownedFiles // every node gets the two discovery definitions that settings() points at
	}
	for name, content := range files {
		full := filepath.Join(dir, name)
		if err := os.MkdirAll(filepath.Dir(full), 0o700); err != nil {
			t.Fatal(err)
		}
		if err := os.WriteFile(full, []byte(fill(content)), 0o600); err != nil {
			t.Fatal(err)
		}
	}
	env := map[string]string{
		"NUTS_DATADIR":               filepath.Join(dir, "data"),
		"NUTS_CONFIGFILE":            cfgFile,
		"NUTS_HTTP_INTERNAL_ADDRESS": internal,
		"NUTS_HTTP_PUBLIC_ADDRESS":   public,
		"NUTS_NETWORK_GRPCADDR":      grpcAddr,
		"NUTS_EVENTS_NATS_PORT":      nats[strings.LastIndex(nats, ":")+1:],
		"NUTS_EVENTS_NATS_HOSTNAME":  "127.0.0.1",
		"NUTS_VERBOSITY":             "warn",
	}
	for _, k := range spec.Unset {
		delete(env, k)
	}
	for k, v := range spec.Env {
		env[k] = fill(v)
	}
	for k, v := range env {
		os.Setenv(k, v)
	}
	defer clearNutsEnv()
	sub := spec.Cmd
	if sub == "" {
		sub = "server"
	}
	args := make([]string, len(spec.Args))
	for i, a := range spec.Args {
		args[i] = strings.ReplaceAll(a, "{DIR}", dir)
	}
	os.Args = append([]string{"nuts", sub}, args...)

	ctx, cancel := context.WithCancel(context.Background())
	defer cancel()
	theLab().Take() // whatever the previous node's background routines still sent before it shut down is not this node's
	resetProcessGlobals()
	system := cmd.CreateSystem(cancel)
	hook.take()
	type execEnd struct {
		err      error
		returned bool // false: the goroutine was ended by logrus.Fatal
		pan      any
	}
	done := make(chan execEnd, 1)
	go func() {
		end := execEnd{}
		defer func() {
			if p := recover(); p != nil {
				end.pan = p
			}
			done <- end
		}()
		end.err = cmd.Execute(ctx, system)
		end.returned = true
	}()

	finish := func(e execEnd) {
		if e.pan != nil {
			res.Refusal = fmt.Sprintf("panic: %v", e.pan)
		} else if f := hook.take(); f != "" {
			res.Refusal = f
		} else if e.err != nil {
			res.Refusal = "command error: " + e.err.Error()
		} else if !res.Started {
			res.Refusal = "command returned without serving"
		}
	}
	if sub != "server" {
		select {
		case e := <-done:
			finish(e)
		case <-time.After(30 * time.Second):
			t.Fatalf("command %v did not return", os.Args)
		}
		return res, false
	}

	client := &nethttp.Client{Timeout: 2 * time.Second, Transport: &nethttp.Transport{DisableKeepAlives: true}}
	deadline := time.Now().Add(startDeadline)
	for !res.Started {
		select {
		case e := <-done:
			finish(e)
			// another worker may have taken one of the ports between freeAddr() and the bind
			if strings.Contains(res.Refusal, "address already in use") || strings.Contains(res.Refusal, "event stream: context deadline exceeded") {
				return res, true
			}
			return res, false
		default:
		}
		resp, err := client.Get("http://" + internal + "/status")
		if err == nil {
			io.Copy(io.Discard, resp.Body)
			resp.Body.Close()
			if resp.StatusCode == 200 {
				res.Started = true
				break
			}
		}
		if time.Now().After(deadline) {
			cancel()
			select {
			case <-done:
			case <-time.After(20 * time.Second):
			}
			hangs++
			if hangs > maxHangs {
				t.Fatalf("node neither started nor refused within %v (hang %d): args=%v env=%v", startDeadline, hangs, spec.Args, spec.Env)
			}
			return res, true
		}
		time.Sleep(2 * time.Millisecond)
	}
	// the answer must have come from THIS system: its engines are configured before its HTTP engine serves
	if e, ok := system.FindEngineByName("jsonld").(jsonld.JSONLD); !ok || e.DocumentLoader() == nil {
		cancel()
		select {
		case <-done:
		case <-time.After(20 * time.Second):
		}
		hangs++
		if hangs > maxHangs {
			t.Fatalf("/status on %s is answered by something that is not the node under test", internal)
		}
		res.Started = false
		return res, true
	}
	if c, err := net.DialTimeout("tcp", grpcAddr, time.Second); err == nil {
		res.GRPCOpen = true
		c.Close()
	}
	res.Eff = effectiveState(system, filepath.Join(dir, "data"), grpcAddr, res.GRPCOpen)
	if up != nil {
		up(system, "http://"+internal)
	}
	cancel()
	select {
	case e := <-done:
		if e.pan != nil {
			t.Fatalf("panic while shutting the node down: %v", e.pan)
		}
		hook.take()
	case <-time.After(2 * startDeadline):
		t.Fatalf("node did not shut down: args=%v env=%v", spec.Args, spec.Env)
	}
	return res, false
}

// ---------------------------------------------------------------- option values -> settings

// settings renders c as environment (all options have NUTS_* names).
func (c nodeCfg) settings(t testing.TB) map[string]string {
	cert, trust := pkiFiles(t)
	env := map[string]string{
		"NUTS_STRICTMODE":                     fmt.Sprint(c.Strict),
		"NUTS_NETWORK_ENABLEDISCOVERY":        "false",
		"NUTS_NETWORK_V2_DIAGNOSTICSINTERVAL": "0", // the periodic broadcast is not part of the property
		"NUTS_AUTH_IRMA_AUTOUPDATESCHEMAS":    "false",
		"NUTS_DIDMETHODS":                     c.Methods,
		// two discovery services whose server lives elsewhere (the node forwards registrations and polls them): owned-client probes
		"NUTS_DISCOVERY_DEFINITIONS_DIRECTORY": "{DIR}/discovery",
		"NUTS_AUTH_IRMA_SCHEMEMANAGER":         c.Irma,
		"NUTS_TLS_TRUSTSTOREFILE":              trust,
	}
	if c.URL != "" {
		env["NUTS_URL"] = c.URL
	}
	switch c.TLS {
	case "configured":
		env["NUTS_TLS_CERTFILE"], env["NUTS_TLS_CERTKEYFILE"] = cert, cert
	case "offload":
		env["NUTS_TLS_CERTFILE"], env["NUTS_TLS_CERTKEYFILE"] = cert, cert
		env["NUTS_TLS_OFFLOAD"], env["NUTS_TLS_CERTHEADER"] = "incoming", "X-Client-Cert"
	case "disabled":
	default:
		t.Fatalf("tls value %q", c.TLS)
	}
	switch c.Crypto {
	case "fs":
		env["NUTS_CRYPTO_STORAGE"] = "fs"
	case "implicit":
	case "vaultkv":
		env["NUTS_CRYPTO_STORAGE"] = "vaultkv"
		env["NUTS_CRYPTO_VAULT_ADDRESS"] = "http://127.0.0.1:1"
		env["NUTS_CRYPTO_VAULT_TIMEOUT"] = "50ms"
	default:
		t.Fatalf("crypto value %q", c.Crypto)
	}
	switch c.SQL {
	case "explicit":
		env["NUTS_STORAGE_SQL_CONNECTION"] = "sqlite:file:{DIR}/explicit.db?_pragma=foreign_keys(1)&journal_mode(WAL)"
	case "implicit":
	default:
		t.Fatalf("sql value %q", c.SQL)
	}
	switch c.Contexts {
	case "", "default":
	case "extra":
		env["NUTS_JSONLD_CONTEXTS_REMOTEALLOWLIST"] = strings.Join(append(jsonld.DefaultAllowList(), listedContext), ",")
	default:
		t.Fatalf("contexts value %q", c.Contexts)
	}
	switch c.Validators {
	case "employeeid":
		env["NUTS_AUTH_CONTRACTVALIDATORS"] = "employeeid"
	case "employeeid+dummy":
		env["NUTS_AUTH_CONTRACTVALIDATORS"] = "employeeid,dummy"
	default:
		t.Fatalf("validators value %q", c.Validators)
	}
	return env
}

func baseline(strict bool) nodeCfg {
	return nodeCfg{Strict: strict, URL: "https://nuts.verif-node.nl", TLS: "configured", Crypto: "fs", SQL: "explicit",
		Validators: "employeeid", Irma: "pbdf", Methods: "web,nuts", Contexts: "default"}
}

func sortedKeys(m map[string]string) []string {
	ks := make([]string, 0, len(m))
	for k := range m {
		ks = append(ks, k)
	}
	sort.Strings(ks)
	return ks
}

func sortStrings(s []string) { sort.Strings(s) }
