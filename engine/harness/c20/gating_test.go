package c20

import (
	"fmt"
	"reflect"
	"sort"
	"strings"
	"testing"
	"time"

	"github.com/nuts-foundation/nuts-node/cmd"
	"github.com/nuts-foundation/nuts-node/core"
	"github.com/spf13/pflag"

	"verif/ev"
)

// Gating options. A strict-mode refusal may be (wrongly) made conditional on ANY other option, so every configuration key of the
// node is a candidate "gate". The key set is derived from the code, not from a hand list: every koanf-tagged field of
// core.ServerConfig and of the Config() struct of every engine registered by cmd.CreateSystem (reflection — this also finds keys
// that have no command-line flag), united with every flag registered on the `server` command (VisitAll). Each key gets a small
// value set chosen by its type (and, for strings, by what its name says it holds); every insecure single setting of the matrix —
// and the strict baseline with the dummy means, for the clauses judged at the action — is started under every value of every key.
// Oracle unchanged: strict ∧ insecure ⇒ refused, whatever the gating option says.

type gate struct {
	Key   string // dotted configuration key
	Kind  string // bool | string | int | duration | strings | ints
	Value string // YAML scalar / flow sequence as written into the config file
	Class string // short name of the value for signatures
	Iso   bool   // zero / negative / very large number: the start runs in a child process (it may take the process down)
	// Path: how the key is written in the YAML file, one element per nesting level (nil = one level per dot). "a.b.c" can be written
	// a:{b:{c:}} but also a:{b.c:} / a.b:{c:} / a.b.c: — which of them reach the option is up to the loader and the struct tags.
	Path []string
}

// tagPaths: for every key found by reflection the path of koanf struct tags that leads to it (a tag may itself contain dots).
var tagPaths = map[string][]string{}

// compositions returns every way of writing the dotted key as nested YAML levels (2^(n-1) for n segments), nested form first.
func compositions(key string) [][]string {
	segs := strings.Split(key, ".")
	var out [][]string
	for mask := 0; mask < 1<<(len(segs)-1); mask++ {
		levels := []string{segs[0]}
		for i := 1; i < len(segs); i++ {
			if mask&(1<<(i-1)) != 0 { // glue segment i to the previous level
				levels[len(levels)-1] += "." + segs[i]
			} else {
				levels = append(levels, segs[i])
			}
		}
		out = append(out, levels)
	}
	return out
}

// keys that are not gates, with the reason (reported in the evidence)
var notGates = map[string]string{
	"strictmode": "a dimension of the matrix", "url": "a dimension of the matrix", "didmethods": "a dimension of the matrix",
	"tls.certfile": "a dimension of the matrix", "tls.certkeyfile": "a dimension of the matrix", "crypto.storage": "a dimension of the matrix",
	"storage.sql.connection": "a dimension of the matrix", "auth.contractvalidators": "a dimension of the matrix",
	"auth.irma.schememanager": "a dimension of the matrix", "jsonld.contexts.remoteallowlist": "a dimension of the matrix",
	"datadir": "owned by the starter (fresh directory per start)", "configfile": "owned by the starter",
	"http.internal.address": "owned by the starter (it polls /status there); http.public.address is set equal to it as a gate",
	"events.nats.port":      "owned by the starter (free port)", "events.nats.hostname": "owned by the starter",
	"network.v2.diagnosticsinterval": "pinned to 0: with network.grpcaddr empty the v2 protocol is never registered and the first diagnostics broadcast dereferences a nil connection list (crash, outside this property)",
	"auth.irma.autoupdateschemas":    "pinned to false (would download IRMA schemes)",
	"network.certfile":               "moved key", "network.certkeyfile": "moved key", "network.truststorefile": "moved key",
}

func kindOf(t reflect.Type) string {
	if t == reflect.TypeOf(time.Duration(0)) {
		return "duration"
	}
	switch t.Kind() {
	case reflect.Bool:
		return "bool"
	case reflect.String:
		return "string"
	case reflect.Int, reflect.Int8, reflect.Int16, reflect.Int32, reflect.Int64, reflect.Uint, reflect.Uint8, reflect.Uint16, reflect.Uint32, reflect.Uint64:
		return "int"
	case reflect.Slice:
		switch kindOf(t.Elem()) {
		case "string":
			return "strings"
		case "int":
			return "ints"
		}
	}
	return ""
}

func walkConfig(prefix string, t reflect.Type, out map[string]string, skipped map[string]string, path ...string) {
	for t.Kind() == reflect.Ptr {
		t = t.Elem()
	}
	if t.Kind() != reflect.Struct {
		return
	}
	for i := 0; i < t.NumField(); i++ {
		f := t.Field(i)
		tag := f.Tag.Get("koanf")
		if tag == "" || !f.IsExported() {
			continue
		}
		key := tag
		if prefix != "" {
			key = prefix + "." + tag
		}
		ft := f.Type
		for ft.Kind() == reflect.Ptr {
			ft = ft.Elem()
		}
		here := append(append([]string{}, path...), tag)
		if k := kindOf(ft); k != "" {
			out[key] = k
			tagPaths[key] = here
		} else if ft.Kind() == reflect.Struct {
			walkConfig(key, ft, out, skipped, here...)
		} else {
			skipped[key] = ft.String()
		}
	}
}

// configKeys returns every configuration key of the assembled node with its kind.
func configKeys(t *testing.T) (keys map[string]string, skipped map[string]string, fromFlagsOnly int) {
	keys, skipped = map[string]string{}, map[string]string{}
	walkConfig("", reflect.TypeOf(core.ServerConfig{}), keys, skipped)
	sys := cmd.CreateSystem(func() {})
	sys.VisitEngines(func(e core.Engine) {
		if inj, ok := e.(core.Injectable); ok {
			walkConfig(strings.ToLower(inj.Name()), reflect.TypeOf(inj.Config()), keys, skipped, strings.ToLower(inj.Name()))
		}
	})
	for _, f := range serverFlags(t, "server") {
		if _, ok := keys[f.Name]; ok {
			continue
		}
		if k := flagKind(f); k != "" {
			keys[f.Name] = k
			fromFlagsOnly++
		} else {
			skipped[f.Name] = f.Value.Type()
		}
	}
	return
}

func flagKind(f *pflag.Flag) string {
	switch f.Value.Type() {
	case "bool":
		return "bool"
	case "string":
		return "string"
	case "int", "uint", "int64", "uint16", "uint32":
		return "int"
	case "duration":
		return "duration"
	case "stringSlice":
		return "strings"
	case "intSlice":
		return "ints"
	}
	return ""
}

// gateValues: the small value set of one key.
func gateValues(key, kind string) []gate {
	q := func(s string) string { return fmt.Sprintf("%q", s) }
	mk := func(class, yaml string) gate { return gate{Key: key, Kind: kind, Value: yaml, Class: class} }
	iso := func(class, yaml string) gate { return gate{Key: key, Kind: kind, Value: yaml, Class: class, Iso: true} }
	name := key[strings.LastIndex(key, ".")+1:]
	// what a string holds, judged by its name
	alt, altClass := "x", "other"
	switch {
	case key == "verbosity":
		alt, altClass = "debug", "debug"
	case key == "loggerformat":
		alt, altClass = "json", "json"
	case key == "tls.offload":
		alt, altClass = "incoming", "incoming"
	case strings.Contains(name, "addr") || strings.Contains(name, "nodes") || name == "hostname":
		alt, altClass = "{FREEADDR}", "other-address"
	case strings.Contains(name, "did"):
		alt, altClass = "did:nuts:8qcqqy4QP1bdCkJRw26rfMxphMNDBxaSaCvrncoT5dNk", "a-did"
	case strings.Contains(name, "url") || strings.Contains(name, "endpoint") || strings.Contains(name, "origin"):
		alt, altClass = "https://gate.verif-lab.nl", "a-url"
	case strings.Contains(name, "file") || strings.Contains(name, "dir") || strings.Contains(name, "path") || name == "cpuprofile":
		alt, altClass = "{DIR}/gate-does-not-exist", "a-path"
	case strings.Contains(name, "header"):
		alt, altClass = "X-Verif-Gate", "a-header"
	}
	switch kind {
	case "bool":
		return []gate{mk("true", "true"), mk("false", "false")}
	case "string":
		vals := []gate{mk("empty", `""`), mk(altClass, q(alt)), mk("blank", `" "`)}
		if key == "http.public.address" {
			vals = []gate{mk("same-as-internal", q("{INTERNAL}"))}
		}
		return vals
	case "int":
		// value classes of a number: zero (documented for several options as "off": http.cache.maxbytes=0 disables the cache), the
		// smallest positive value, an ordinary one, negative, the largest 32- and 64-bit values. Several numbers are ticker intervals and
		// time.NewTicker panics on a non-positive interval in a bare goroutine (goldenhammer.interval=0 kills the node that way): the
		// zero / negative / huge classes therefore run in a child process; a crash there is an observation, not a verdict
		return []gate{mk("1", "1"), mk("1000", "1000"), iso("0", "0"), iso("-1", "-1"), iso("max-int32", "2147483647"), iso("max-int64", "9223372036854775807")}
	case "duration":
		return []gate{mk("1s", "1s"), mk("1h", "1h"), iso("0", "0s"), iso("-1s", "-1s"), iso("1ns", "1ns"), iso("max", "2562047h")}
	case "strings":
		return []gate{mk("empty-list", "[]"), mk("one:"+altClass, "["+q(alt)+"]"), mk("list-of-empty", `[""]`)}
	case "ints":
		return []gate{mk("empty-list", "[]"), mk("one", "[1]"), mk("two", "[2]")}
	}
	return nil
}

func buildGates(t *testing.T, thorough bool) (gates []gate, nkeys int, skipped map[string]string, fromFlagsOnly int) {
	keys, skipped, fromFlagsOnly := configKeys(t)
	var names []string
	for k := range keys {
		names = append(names, k)
	}
	sort.Strings(names)
	for _, k := range names {
		if _, no := notGates[k]; no {
			continue
		}
		nkeys++
		vals := gateValues(k, keys[k])
		gates = append(gates, vals...)
		// the other ways of writing the key in the file: always the one the struct tags spell (a tag with a dot in it: `koanf:"cache.maxbytes"`
		// is matched against ONE map level), in the thorough tier every composition
		nested := strings.Join(strings.Split(k, "."), "|")
		forms := map[string][]string{}
		if tp := tagPaths[k]; len(tp) > 0 && strings.Join(tp, "|") != nested {
			forms[strings.Join(tp, "|")] = tp
		}
		if thorough {
			for _, c := range compositions(k) {
				if f := strings.Join(c, "|"); f != nested {
					forms[f] = c
				}
			}
		}
		var names []string
		for f := range forms {
			names = append(names, f)
		}
		sort.Strings(names)
		for _, f := range names {
			for _, g := range vals {
				g.Path = forms[f]
				g.Class += " written " + f
				// a key written in a form the loader does not map onto the option can also hide the option's DEFAULT (a top-level
				// `goldenhammer.interval: 1s` leaves the interval at 0 and the node panics in time.NewTicker): child process
				g.Iso = true
				gates = append(gates, g)
			}
		}
	}
	return
}

// insecureSingles: every insecure single setting of the matrix (strict mode on), plus the strict baseline with the dummy means
// configured (for the clauses judged at the action: dummy means, JSON-LD contexts, outbound requests).
func insecureSingles() []nodeCfg {
	var out []nodeCfg
	for _, u := range []string{"http://nuts.verif-node.nl", "https://192.0.2.10", "https://localhost", "https://www.example.com", ""} {
		c := baseline(true)
		c.URL = u
		out = append(out, c)
	}
	for _, f := range []func(c *nodeCfg){
		func(c *nodeCfg) { c.TLS = "disabled" },
		func(c *nodeCfg) { c.TLS = "disabled"; c.Methods = "nuts" },
		func(c *nodeCfg) { c.Crypto = "implicit" },
		func(c *nodeCfg) { c.SQL = "implicit" },
		func(c *nodeCfg) { c.Irma = "irma-demo" },
		func(c *nodeCfg) { c.Validators = "employeeid+dummy" }, // secure at start; judged at the action
		func(c *nodeCfg) { c.Validators = "employeeid+dummy"; c.Methods = "web"; c.TLS = "disabled" },
	} {
		c := baseline(true)
		f(&c)
		out = append(out, c)
	}
	return out
}

func gateCase(c nodeCfg, g gate) nodeCase {
	return gateCaseN(c, g)
}

// gateCaseN: one configuration under one value each of one or more (distinct) gating keys.
func gateCaseN(c nodeCfg, gs ...gate) nodeCase {
	nc := nodeCase{Kind: "gating", Cfg: c}
	var flags []string
	tree := map[string]any{}
	for _, g := range gs {
		flags = append(flags, g.Key+"="+g.Class)
		nc.Iso = nc.Iso || g.Iso
		path := g.Path
		if path == nil {
			path = strings.Split(g.Key, ".")
		}
		yamlPut(tree, path, g.Value)
		nc.Gates = append(nc.Gates, gateRef{Key: g.Key, Kind: g.Kind, Value: g.Value})
		// the gated option is decided by the config file: neither the starter nor the matrix may set it through the environment
		// (which would win over the file)
		nc.Spec.Unset = append(nc.Spec.Unset, envName(g.Key))
	}
	nc.Flag = strings.Join(flags, " & ")
	nc.Spec.File = yamlTree(tree, 0)
	return nc
}

// yamlPut / yamlTree: several dotted keys with already formatted YAML values merged into one document. A key that is both a value
// and a prefix of another key of the same case cannot be expressed (does not occur among the node's keys: asserted by the caller).
func yamlPut(tree map[string]any, path []string, value string) {
	if len(path) == 1 {
		tree[path[0]] = value
		return
	}
	sub, ok := tree[path[0]].(map[string]any)
	if !ok {
		sub = map[string]any{}
		tree[path[0]] = sub
	}
	yamlPut(sub, path[1:], value)
}

func yamlTree(tree map[string]any, depth int) string {
	var keys []string
	for k := range tree {
		keys = append(keys, k)
	}
	sort.Strings(keys)
	var sb strings.Builder
	for _, k := range keys {
		sb.WriteString(strings.Repeat("  ", depth) + k + ":")
		switch v := tree[k].(type) {
		case string:
			sb.WriteString(" " + v + "\n")
		case map[string]any:
			sb.WriteString("\n" + yamlTree(v, depth+1))
		}
	}
	return sb.String()
}

// yamlRaw renders one dotted key with an already formatted YAML value.
func yamlRaw(key, value string) string {
	parts := strings.Split(key, ".")
	var sb strings.Builder
	for i, p := range parts {
		sb.WriteString(strings.Repeat("  ", i) + p + ":")
		if i == len(parts)-1 {
			sb.WriteString(" " + value)
		}
		sb.WriteString("\n")
	}
	return sb.String()
}

func sectionGating(t *testing.T, r *ev.Run) {
	gates, nkeys, skipped, fromFlagsOnly := buildGates(t, r.Thorough())
	singles := insecureSingles()
	r.Bound("gating_keys", nkeys)
	r.Bound("gating_values", len(gates))
	r.Bound("gating_insecure_settings", len(singles))
	r.Bound("gating_cases", len(gates)*len(singles))
	r.Extra("gating_keys_found_only_as_flags", fromFlagsOnly)
	r.Extra("gating_keys_not_enumerated", notGates)
	r.Extra("gating_keys_of_unsupported_type", skipped)
	if nkeys < 60 {
		t.Fatalf("only %d configuration keys found by reflection + VisitAll (harness broken)", nkeys)
	}
	// vacuity guard: the file mechanism really reaches the node — an invalid log level by file stops the strict baseline
	bad := gateCase(baseline(true), gate{Key: "verbosity", Value: `"verif-no-such-level"`, Class: "bad"})
	if res := runNode(t, startSpec{Env: baseline(true).settings(t), File: bad.Spec.File, Unset: bad.Spec.Unset}, nil); res.Started {
		t.Fatal("a gating value written to the config file does not reach the node (harness broken)")
	}
	needDummyVP(t)
	idx := 0
	var isolated []nodeCase
	for _, c := range singles {
		for _, g := range gates {
			idx++
			if !r.Mine(idx) {
				continue
			}
			if r.Expired() {
				return
			}
			nc := gateCase(c, g)
			if nc.Iso {
				isolated = append(isolated, nc)
				continue
			}
			runCfgCase(t, r, nc)
		}
	}
	runIsolatedBatch(t, r, isolated)
	if !r.Thorough() {
		return
	}
	// thorough: PAIRS of gating keys, each at a value of its zero / empty / off class (both values of a boolean), next to every
	// insecure single setting and the strict baseline with dummy means
	var off []gate
	for _, g := range gates {
		switch {
		case g.Path != nil:
		case g.Kind == "bool", g.Class == "empty", g.Class == "0", g.Class == "empty-list":
			off = append(off, g)
		}
	}
	npairs := 0
	isolated = nil
	// one representative per clause (plain-http URL, TLS off, implicit key storage, implicit SQLite, irma-demo, dummy means)
	var pairSingles []nodeCfg
	for _, i := range []int{0, 5, 7, 8, 9, 10} {
		pairSingles = append(pairSingles, singles[i])
	}
	for i := range off {
		for j := i + 1; j < len(off); j++ {
			if off[i].Key == off[j].Key || strings.HasPrefix(off[j].Key, off[i].Key+".") || strings.HasPrefix(off[i].Key, off[j].Key+".") {
				continue
			}
			npairs++
			for _, c := range pairSingles {
				idx++
				if !r.Mine(idx) {
					continue
				}
				nc := gateCaseN(c, off[i], off[j])
				if nc.Iso {
					isolated = append(isolated, nc)
					continue
				}
				if r.Expired() {
					return
				}
				runCfgCase(t, r, nc)
			}
		}
	}
	r.Bound("gating_pairs_of_off_values", npairs)
	r.Bound("gating_pair_cases", npairs*len(pairSingles))
	runIsolatedBatch(t, r, isolated)
}

// runIsolatedBatch runs isolated cases in child processes, in batches (a batch = one child process unless it dies), and judges them.
func runIsolatedBatch(t *testing.T, r *ev.Run, cases []nodeCase) {
	const batch = 48
	for len(cases) > 0 {
		if r.Expired() {
			return
		}
		n := len(cases)
		if n > batch {
			n = batch
		}
		out := runIsolated(t, cases[:n])
		for i, o := range out {
			judgeCfgCase(r, cases[i], o.Res, o.Obs)
		}
		cases = cases[n:]
	}
}
