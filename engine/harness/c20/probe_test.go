package c20

import (
	"fmt"
	"testing"
	"time"

	"github.com/nuts-foundation/nuts-node/core"
)

func TestVerifC20Probe(t *testing.T) {
	for _, strict := range []bool{true, false} {
		for i := 0; i < 3; i++ {
			c := baseline(strict)
			t0 := time.Now()
			res := runNode(t, startSpec{Env: c.settings(t)}, func(sys *core.System, u string) {})
			fmt.Printf("PROBE strict=%v started=%v grpc=%v refusal=%q %v\n", strict, res.Started, res.GRPCOpen, res.Refusal, time.Since(t0))
		}
		c := baseline(strict)
		c.Crypto = "implicit"
		t0 := time.Now()
		res := runNode(t, startSpec{Env: c.settings(t)}, nil)
		fmt.Printf("PROBE implicit crypto strict=%v started=%v refusal=%q %v\n", strict, res.Started, res.Refusal, time.Since(t0))
		c = baseline(strict)
		c.Crypto = "vaultkv"
		t0 = time.Now()
		res = runNode(t, startSpec{Env: c.settings(t)}, nil)
		fmt.Printf("PROBE vault strict=%v started=%v refusal=%q %v\n", strict, res.Started, res.Refusal, time.Since(t0))
	}
}
