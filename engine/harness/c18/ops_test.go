// C18, part "ops": operation histories on managed (own-database) DIDs, followed by resolution through every entry point.
//
// An explicit search over the subject operations the product offers — on the assembled node, through the real
// didsubject.Manager the vdr engine exposes — to a stated depth. Every history is replayed on a fresh subject (subjects do not
// share rows), and in the state it ends in every DID of the subject is resolved through every resolver entry point with a grid
// of resolution metadata. The reference model is a list of versions per DID and a deactivation mark that Deactivate sets and
// nothing ever clears.
package c18

import (
	"crypto"
	"encoding/json"
	"errors"
	"fmt"
	"io"
	nethttp "net/http"
	"net/http/httptest"
	"net/url"
	"os"
	"sort"
	"strings"
	"testing"
	"time"

	"github.com/labstack/echo/v4"
	ssi "github.com/nuts-foundation/go-did"
	"github.com/nuts-foundation/go-did/did"
	"github.com/nuts-foundation/nuts-node/audit"
	"github.com/nuts-foundation/nuts-node/core"
	"github.com/nuts-foundation/nuts-node/crypto/hash"
	"github.com/nuts-foundation/nuts-node/storage"
	"github.com/nuts-foundation/nuts-node/storage/orm"
	"github.com/nuts-foundation/nuts-node/test/node"
	"github.com/nuts-foundation/nuts-node/vdr"
	vdrapi "github.com/nuts-foundation/nuts-node/vdr/api/v2"
	"github.com/nuts-foundation/nuts-node/vdr/didsubject"
	"github.com/nuts-foundation/nuts-node/vdr/resolver"
	"github.com/sirupsen/logrus"
	"gorm.io/gorm"

	"verif/ev"
	"verif/netlab"
)

type opsCase struct {
	Section string   `json:"section"` // "ops"
	Methods string   `json:"methods"` // DID methods of the node: "web" | "web,nuts"
	Ops     []string `json:"ops"`     // operations after Create, in order
}

// opsNode is one assembled node and the entry points into it.
type opsNode struct {
	methods string
	v       vdr.VDR
	mgr     didsubject.Manager
	db      *gorm.DB
	e       *echo.Echo
}

func startOpsNode(t *testing.T, methods string) *opsNode {
	l := theLab()
	_, _, system := node.StartServer(t, func(internalURL, _ string) {
		t.Setenv("NUTS_DIDMETHODS", methods)
		l.Passthrough(strings.TrimPrefix(internalURL, "http://"))
	})
	l.Take()
	vdrEngine := system.FindEngineByName("vdr")
	v, ok1 := vdrEngine.(vdr.VDR)
	mgr, ok2 := vdrEngine.(didsubject.Manager)
	se, ok3 := system.FindEngineByName("storage").(storage.Engine)
	if !ok1 || !ok2 || !ok3 {
		t.Fatalf("engine lookup failed: %v %v %v", ok1, ok2, ok3)
	}
	e := echo.New()
	e.HTTPErrorHandler = core.CreateHTTPErrorHandler()
	e.Logger.SetOutput(io.Discard)
	(&vdrapi.Wrapper{VDR: v, SubjectManager: mgr}).Routes(e)
	return &opsNode{methods: methods, v: v, mgr: mgr, db: se.GetSQLDatabase(), e: e}
}

var (
	opsSvcA  = did.Service{Type: "verif-a", ServiceEndpoint: "https://example.nl/a"}
	opsSvcA2 = did.Service{Type: "verif-a", ServiceEndpoint: "https://example.nl/a2"}
	opsSvcB  = did.Service{Type: "verif-b", ServiceEndpoint: "https://example.nl/b"}
)

func fragURI(frag string) ssi.URI {
	u := ssi.URI{}
	u.Fragment = frag
	return u
}

// opsAlphabet: the subject operations of didsubject.Manager (= the vdr v2 API). The last two only in the thorough tier.
var opsAlphabet = []string{"deactivate", "create-service", "update-service", "delete-service", "add-key", "create-service-b", "add-encryption-key"}

func (n *opsNode) apply(op, subject string) (kids []did.VerificationMethod, err error) {
	ctx := audit.TestContext()
	switch op {
	case "deactivate":
		err = n.mgr.Deactivate(ctx, subject)
	case "create-service":
		_, err = n.mgr.CreateService(ctx, subject, opsSvcA)
	case "create-service-b":
		_, err = n.mgr.CreateService(ctx, subject, opsSvcB)
	case "update-service":
		_, err = n.mgr.UpdateService(ctx, subject, fragURI(didsubject.NewIDForService(opsSvcA)), opsSvcA2)
	case "delete-service":
		err = n.mgr.DeleteService(ctx, subject, fragURI(didsubject.NewIDForService(opsSvcA)))
	case "add-key":
		kids, err = n.mgr.AddVerificationMethod(ctx, subject, orm.AssertionKeyUsage())
	case "add-encryption-key":
		kids, err = n.mgr.AddVerificationMethod(ctx, subject, orm.EncryptionKeyUsage())
	default:
		panic("unknown op " + op)
	}
	return
}

// didModel is the reference state of one DID: which operation wrote each stored version, and the version Deactivate wrote.
type didModel struct {
	id        did.DID
	wroteBy   []string // per version (in version order): the operation that wrote it
	deactAt   int      // index of the first version written by a successful Deactivate; -1 = never deactivated
	ambiguous bool     // the rows do not follow the model (an operation failed half-way, …): deactivation is not judged
	times     []int64  // updated_at per version after spacing
	hashes    []hash.SHA256Hash
	kids      []string
}

type versionRow struct {
	ID      string
	Version int
	Raw     string
}

func (n *opsNode) rows(id did.DID) []versionRow {
	var out []versionRow
	n.db.Raw("SELECT id, version, raw FROM did_document_version WHERE did = ? ORDER BY version", id.String()).Scan(&out)
	return out
}

type opsStats struct{ histories, ops, opErrors, resolutions int64 }

// runOpsCase replays one history on a fresh subject and judges every resolution in the state it ends in.
func runOpsCase(t *testing.T, r *ev.Run, n *opsNode, c opsCase, st *opsStats) {
	ctx := audit.TestContext()
	docs, subject, err := n.mgr.Create(ctx, didsubject.DefaultCreationOptions())
	if err != nil {
		r.NotExhaustive(fmt.Sprintf("ops: creating a subject failed: %v", err))
		return
	}
	var models []*didModel
	for _, d := range docs {
		m := &didModel{id: d.ID, wroteBy: []string{"create"}, deactAt: -1}
		for _, vm := range d.VerificationMethod {
			m.kids = append(m.kids, vm.ID.String())
		}
		models = append(models, m)
	}
	sort.Slice(models, func(i, j int) bool { return models[i].id.Method > models[j].id.Method }) // web first
	subjectDeactivated := false
	for _, op := range c.Ops {
		vms, opErr := n.apply(op, subject)
		st.ops++
		if opErr != nil {
			st.opErrors++
		}
		state := "active"
		if subjectDeactivated {
			state = "deactivated"
		}
		r.Outcome(fmt.Sprintf("ops[%s]: %s on %s subject -> error=%v", n.methods, op, state, opErr != nil))
		for _, m := range models {
			have := len(n.rows(m.id))
			switch {
			case have == len(m.wroteBy)+1:
				m.wroteBy = append(m.wroteBy, op)
				if op == "deactivate" && opErr == nil && m.deactAt < 0 {
					m.deactAt = len(m.wroteBy) - 1
				}
				if op == "deactivate" && opErr != nil {
					m.ambiguous = true
				}
			case have == len(m.wroteBy):
				if op == "deactivate" && opErr == nil {
					m.ambiguous = true // says deactivated, wrote nothing
				}
			default:
				m.ambiguous = true
			}
			for _, vm := range vms {
				if vm.ID.DID.Equals(m.id) {
					m.kids = append(m.kids, vm.ID.String())
				}
			}
		}
		if op == "deactivate" && opErr == nil {
			subjectDeactivated = true
		}
	}
	st.histories++

	// space the versions 100 s apart in the past (rows carry second resolution)
	base := time.Now().Unix() - 3000
	for _, m := range models {
		rows := n.rows(m.id)
		if len(rows) != len(m.wroteBy) {
			m.ambiguous = true
		}
		m.times, m.hashes = nil, nil
		for i, row := range rows {
			ts := base + int64(i)*100
			if res := n.db.Exec("UPDATE did_document_version SET created_at = ?, updated_at = ? WHERE id = ?", base, ts, row.ID); res.Error != nil || res.RowsAffected != 1 {
				r.NotExhaustive(fmt.Sprintf("ops: spacing versions failed: %v", res.Error))
				return
			}
			m.times = append(m.times, ts)
			m.hashes = append(m.hashes, hash.SHA256Sum([]byte(row.Raw)))
		}
		if m.ambiguous {
			r.Observation("ops: the stored versions of a DID do not follow the operations' results (deactivation not judged for this history): "+m.id.Method, c)
		}
	}

	owned := didsubject.Resolver{DB: n.db}
	router := n.v.Resolver()
	keyRes := resolver.DIDKeyResolver{Resolver: router}
	farFuture := time.Now().Unix() + 10*365*86400

	type mdCell struct {
		name  string
		at    int64 // effective not-after; 0 = latest
		allow bool
		hash  int // index of the version whose hash is asked for; -1 = none
		md    *resolver.ResolveMetadata
	}
	for _, m := range models {
		// ---- metadata grid
		var cells []mdCell
		mk := func(name string, at int64, allow bool, hashIdx int) {
			var md *resolver.ResolveMetadata
			if name != "nil" {
				md = &resolver.ResolveMetadata{AllowDeactivated: allow}
				if at != 0 {
					x := time.Unix(at, 0)
					md.ResolveTime = &x
				}
				if hashIdx >= 0 {
					h := m.hashes[hashIdx]
					md.Hash = &h
				}
			}
			cells = append(cells, mdCell{name: name, at: at, allow: allow, hash: hashIdx, md: md})
		}
		mk("nil", 0, false, -1)
		for _, allow := range []bool{false, true} {
			mk("no-time", 0, allow, -1)
			mk("before-first", base-500, allow, -1)
			mk("far-future", farFuture, allow, -1)
			for i, ts := range m.times {
				rel := "version-before-deactivation"
				if m.deactAt >= 0 && i == m.deactAt {
					rel = "deactivation-version"
				} else if m.deactAt >= 0 && i > m.deactAt {
					rel = "version-after-deactivation"
				}
				mk("just-before-"+rel, ts-50, allow, -1)
				mk("at-"+rel, ts, allow, -1)
				mk("just-after-"+rel, ts+50, allow, -1)
				mk("hash-of-"+rel, 0, allow, i)
			}
		}
		// reference: version current at `at`, deactivated then?
		current := func(cell mdCell) (version int, deactivated, judged bool) {
			version = -1
			for i, ts := range m.times {
				if cell.at == 0 || ts <= cell.at {
					version = i
				}
			}
			if m.ambiguous || m.deactAt < 0 || version < 0 {
				return version, false, !m.ambiguous
			}
			if cell.hash >= 0 {
				// a resolver may honour the hash (that version) or ignore it (current version): judged only when both readings agree
				return version, cell.hash >= m.deactAt && version >= m.deactAt, cell.hash >= m.deactAt
			}
			return version, version >= m.deactAt, true
		}
		wroteBy := func(version int) string {
			if version < 0 || version >= len(m.wroteBy) {
				return "none"
			}
			return m.wroteBy[version]
		}
		reactivatedAt := -1
		judge := func(entry string, cell mdCell, resolved bool, gotID string, err error, hits, dials int, what string) {
			st.resolutions++
			version, deactivated, judged := current(cell)
			outcome := "error"
			switch {
			case resolved:
				outcome = "resolved"
			case errors.Is(err, resolver.ErrDeactivated):
				outcome = "deactivated"
			case errors.Is(err, resolver.ErrNotFound), errors.Is(err, resolver.ErrKeyNotFound):
				outcome = "not-found"
			}
			r.Outcome(fmt.Sprintf("ops %s %s: version-exists=%v deactivated=%v allow=%v -> %s", m.id.Method, entryClass(entry), version >= 0, deactivated, cell.allow, outcome))
			desc := fmt.Sprintf("subject with methods [%s], history create %v; %s of %s with metadata %s (allow deactivated %v): %s", n.methods, c.Ops, what, m.id, cell.name, cell.allow, outcome)
			if hits+dials > 0 {
				if version < 0 {
					// known finding of the managed section (a managed did:web asked for as of a time before its first version)
					r.Violation("C18|managed|outbound-request|"+m.id.Method+"|resolve-time-before-first-version", desc+" — with outbound attempts", c)
				} else {
					r.Violation("C18|ops|outbound-request|"+m.id.Method+"|"+entryClass(entry), desc+" — with outbound attempts", c)
				}
			}
			if resolved && gotID != m.id.String() {
				r.Violation("C18|ops|id-differs|"+m.id.Method+"|"+entryClass(entry), desc+fmt.Sprintf(" — the answer carries id %q", gotID), c)
			}
			if judged && deactivated && !cell.allow && resolved {
				// one signature per cause: the operation that wrote the first version from which the own-database resolver answers again;
				// a deviation of one entry point only is named by the entry point
				sig := "C18|ops|deactivated-resolves|" + m.id.Method + "|" + entryClass(entry) + "|version-written-by-" + wroteBy(version)
				if reactivatedAt >= 0 && version >= reactivatedAt {
					sig = "C18|ops|deactivated-resolves|" + m.id.Method + "|reactivated-by-" + wroteBy(reactivatedAt)
				}
				r.Violation(sig, desc+fmt.Sprintf(" — the DID was deactivated by version %d; the version current for this request is %d, written by %q", m.deactAt, version, wroteBy(version)), c)
			}
			if judged && deactivated && cell.allow && !resolved {
				r.Observation("ops: a deactivated managed DID does not resolve although the caller allows it: "+m.id.Method+" "+entryClass(entry), nil)
			}
			if judged && !deactivated && version >= 0 && !resolved && cell.hash < 0 && !strings.HasPrefix(entry, "key") {
				r.Observation("ops: an existing, active version of a managed DID does not resolve: "+m.id.Method+" "+entryClass(entry)+" "+cell.name, nil)
			}
		}
		// the first version at or after the deactivation as of which the own-database resolver answers without AllowDeactivated
		if m.deactAt >= 0 && !m.ambiguous {
			for i := m.deactAt; i < len(m.times); i++ {
				x := time.Unix(m.times[i], 0)
				if _, _, err := owned.Resolve(m.id, &resolver.ResolveMetadata{ResolveTime: &x}); err == nil {
					reactivatedAt = i
					break
				}
			}
		}
		sqlBacked := m.id.Method == "web" // the router answers did:web from the SQL rows; did:nuts from the network store (own version times)

		// ---- (1) the resolver chain as vdr wires it, and (2) the own-database resolver
		for _, cell := range cells {
			r.Eval(ev.Key([]any{"ops", n.methods, c.Ops, m.id.Method, cell.name, cell.allow}))
			for _, entry := range []string{"router", "own-database"} {
				if entry == "router" && !sqlBacked && !(cell.name == "nil" || cell.name == "no-time" || cell.name == "far-future") {
					continue
				}
				var doc *did.Document
				var err error
				hits, dials := netOf(func() {
					if entry == "router" {
						doc, _, err = router.Resolve(m.id, cell.md)
					} else {
						doc, _, err = owned.Resolve(m.id, cell.md)
					}
				})
				gotID := ""
				if doc != nil {
					gotID = doc.ID.String()
				}
				judge(entry, cell, err == nil && doc != nil, gotID, err, len(hits), len(dials), "resolution through "+entry)
			}
		}
		nilCell := cells[0]
		// ---- (3) ResolveManaged, (4) the public did.json handler, (5) the vdr v2 resolve API: no metadata
		{
			var doc *did.Document
			var err error
			hits, dials := netOf(func() {
				doc, err = n.v.ResolveManaged(m.id)
			})
			gotID := ""
			if doc != nil {
				gotID = doc.ID.String()
			}
			judge("resolve-managed", nilCell, err == nil && doc != nil, gotID, err, len(hits), len(dials), "vdr.ResolveManaged")
		}
		if m.id.Method == "web" {
			tenant := m.id.ID[strings.LastIndex(m.id.ID, ":")+1:]
			var code int
			var body []byte
			hits, dials := netOf(func() {
				code, body = n.get("/iam/" + tenant + "/did.json")
			})
			gotID, ok := bodyID(body, "")
			judge("http-did-json", nilCell, code == 200 && ok, gotID, fmt.Errorf("status %d", code), len(hits), len(dials), "GET /iam/{id}/did.json")
		}
		{
			var code int
			var body []byte
			hits, dials := netOf(func() {
				code, body = n.get("/internal/vdr/v2/did/" + url.PathEscape(m.id.String()))
			})
			gotID, ok := bodyID(body, "document")
			judge("api-resolve", nilCell, code == 200 && ok, gotID, fmt.Errorf("status %d", code), len(hits), len(dials), "GET /internal/vdr/v2/did/{did}")
		}
		// ---- (6) key resolver: every relationship for the latest state, the assertion key over the time grid, every key id ever issued
		rels := []struct {
			name string
			rel  resolver.RelationType
		}{{"assertionMethod", resolver.AssertionMethod}, {"authentication", resolver.Authentication}, {"capabilityInvocation", resolver.CapabilityInvocation},
			{"capabilityDelegation", resolver.CapabilityDelegation}, {"keyAgreement", resolver.KeyAgreement}}
		for _, cell := range cells {
			if cell.allow || cell.hash >= 0 || cell.name == "no-time" {
				continue // ResolveKey carries a time only
			}
			if !sqlBacked && !(cell.name == "nil" || cell.name == "far-future") {
				continue
			}
			for ri, rel := range rels {
				if ri > 0 && cell.name != "nil" {
					continue
				}
				var at *time.Time
				if cell.md != nil {
					at = cell.md.ResolveTime
				}
				var kid string
				var key crypto.PublicKey
				var err error
				hits, dials := netOf(func() {
					kid, key, err = keyRes.ResolveKey(m.id, at, rel.rel)
				})
				gotID := ""
				if err == nil {
					gotID = strings.SplitN(kid, "#", 2)[0]
				}
				judge("key:"+rel.name, cell, err == nil && key != nil, gotID, err, len(hits), len(dials), "key resolution ("+rel.name+")")
			}
		}
		for _, kid := range m.kids {
			for _, cell := range cells {
				if !(cell.name == "nil" || cell.name == "no-time" || cell.name == "far-future") {
					continue
				}
				var key crypto.PublicKey
				var err error
				hits, dials := netOf(func() {
					key, err = keyRes.ResolveKeyByID(kid, cell.md, resolver.AssertionMethod)
				})
				judge("key-by-id", cell, err == nil && key != nil, strings.SplitN(kid, "#", 2)[0], err, len(hits), len(dials), "key resolution by id")
			}
		}
	}
	r.Sample(map[string]any{"case": c, "dids": len(models)})
}

// netOf runs one (read-only, repeatable) resolution and returns the outbound requests and dials the lab saw meanwhile. The node has
// background routines of its own; an attempt that does not repeat when the same resolution is run again is not the resolution's.
func netOf(fn func()) ([]netlab.Hit, []netlab.Dial) {
	l := theLab()
	l.Take()
	fn()
	hits, dials := l.Take()
	if len(hits)+len(dials) > 0 {
		fn()
		h2, d2 := l.Take()
		if len(h2)+len(d2) < len(hits)+len(dials) {
			return h2, d2
		}
	}
	return hits, dials
}

func entryClass(entry string) string {
	if strings.HasPrefix(entry, "key:") {
		return "key-resolver"
	}
	return entry
}

func (n *opsNode) get(path string) (int, []byte) {
	req := httptest.NewRequest(nethttp.MethodGet, path, nil)
	req.Header.Set("Accept", "application/json")
	rec := httptest.NewRecorder()
	n.e.ServeHTTP(rec, req)
	return rec.Code, rec.Body.Bytes()
}

// bodyID extracts the document id of a JSON answer (the document itself, or under the given member).
func bodyID(body []byte, member string) (string, bool) {
	var raw map[string]json.RawMessage
	if json.Unmarshal(body, &raw) != nil {
		return "", false
	}
	if member != "" {
		var inner map[string]json.RawMessage
		if json.Unmarshal(raw[member], &inner) != nil {
			return "", false
		}
		raw = inner
	}
	var id string
	if json.Unmarshal(raw["id"], &id) != nil {
		return "", false
	}
	return id, true
}

// opsHistories: every sequence of 0..depth operations over the alphabet.
func opsHistories(alphabet []string, depth int) [][]string {
	out := [][]string{{}}
	frontier := [][]string{{}}
	for d := 0; d < depth; d++ {
		var next [][]string
		for _, h := range frontier {
			for _, op := range alphabet {
				nh := append(append([]string{}, h...), op)
				next = append(next, nh)
			}
		}
		out = append(out, next...)
		frontier = next
	}
	return out
}

func TestVerifC18Ops(t *testing.T) {
	r := ev.Start(t, "C18")
	defer r.Finish()
	logrus.SetOutput(io.Discard)
	if os.Getenv("VERIF_C18_DEBUG") != "" {
		logrus.SetOutput(os.Stderr)
	}
	audit.VerifSilence()
	theLab()
	r.Rule("(ops) assembled node with DID methods {web} and {web,nuts}; every sequence of 0..depth subject operations over {Deactivate, CreateService, UpdateService, DeleteService, " +
		"AddVerificationMethod (assertion); thorough: + a second service, an encryption key} after Create, each replayed on a fresh subject through the didsubject.Manager of the vdr engine; " +
		"in the end state every DID of the subject is resolved through {resolver router as vdr wires it, own-database resolver, vdr.ResolveManaged, GET /iam/{id}/did.json, GET /internal/vdr/v2/did/{did}, " +
		"key resolver per relationship and per key id} x metadata {nil, no time, before the first version, just before / at / just after every version, hash of every version, far future} x AllowDeactivated; " +
		"reference: versions per DID + a deactivation mark set by Deactivate and never cleared; judged: deactivated at the requested time => no document and no key unless allowed, id == DID, zero outbound attempts")
	r.Assume("subjects do not share rows: a history replayed on a fresh subject of one node stands for the history on a fresh node")
	r.Assume("did:web version timestamps are rewritten by SQL to lie 100 s apart in the past (second resolution otherwise makes one-go histories indistinguishable)")

	depth, alphabet := 3, opsAlphabet[:5]
	if r.Thorough() {
		depth, alphabet = 4, opsAlphabet
	}
	if d := os.Getenv("VERIF_C18_OPS_DEPTH"); d != "" { // debugging only
		fmt.Sscan(d, &depth)
	}
	var c opsCase
	if r.ReplayCase(&c) {
		if c.Section != "ops" {
			return
		}
		t.Run("replay", func(t *testing.T) {
			var st opsStats
			runOpsCase(t, r, startOpsNode(t, c.Methods), c, &st)
		})
		return
	}
	hs := opsHistories(alphabet, depth)
	r.Bound("ops_depth", depth)
	r.Bound("ops_alphabet", len(alphabet))
	r.Bound("ops_histories_per_node_configuration", len(hs))
	var st opsStats
	idx := 0
	for _, methods := range []string{"web", "web,nuts"} {
		var mine []opsCase
		for _, h := range hs {
			if r.Mine(idx) {
				mine = append(mine, opsCase{Section: "ops", Methods: methods, Ops: h})
			}
			idx++
		}
		if len(mine) == 0 {
			continue
		}
		t.Run("node-"+strings.ReplaceAll(methods, ",", "-"), func(t *testing.T) {
			n := startOpsNode(t, methods)
			for _, c := range mine {
				if r.Expired() {
					return
				}
				runOpsCase(t, r, n, c, &st)
			}
		})
	}
	r.States(st.histories)
	r.Transitions(st.ops)
	r.AddExtra("ops_histories", st.histories)
	r.AddExtra("ops_operations", st.ops)
	r.AddExtra("ops_operations_refused", st.opErrors)
	r.AddExtra("ops_resolutions", st.resolutions)
}
