// Reference model of C18 (transcribed from the statement). Part of the trusted base; kept small.
package c18

import (
	"net"
	"net/netip"
	"net/url"
	"regexp"
	"strconv"
	"strings"
)

// webID is a did:web method-specific id split the way the did:web specification reads it.
type webID struct {
	HostRaw string   // first ':'-separated component as written (percent-encoded)
	Host    string   // the same, percent-decoded once: "example.com" or "example.com:8080" — the origin the identifier encodes
	Segs    []string // remaining components as written
}

func splitWebID(id string) webID {
	parts := strings.Split(id, ":")
	w := webID{HostRaw: parts[0], Segs: parts[1:]}
	if h, err := url.PathUnescape(parts[0]); err == nil {
		w.Host = h
	} else {
		w.Host = parts[0]
	}
	return w
}

// stripEmptyPort: "example.com:" and "example.com" are the same origin (net/http removes an empty port itself).
func stripEmptyPort(h string) string { return strings.TrimSuffix(h, ":") }

func isIPLiteral(hostname string) bool {
	if net.ParseIP(hostname) != nil {
		return true
	}
	_, err := netip.ParseAddr(hostname) // also zone literals
	return err == nil
}

func decodeOrRaw(s string) string {
	if d, err := url.PathUnescape(s); err == nil {
		return d
	}
	return s
}

// bindingDefects lists how an outbound URL deviates from what the identifier encodes. Empty = bound correctly.
// suffix is "" for DIDToURL and "/did.json" resp. "/.well-known/did.json" for the request made by Resolve.
func bindingDefects(w webID, u *url.URL, isRequest bool) []string {
	var out []string
	if u.Scheme != "https" {
		out = append(out, "not-https")
	}
	if u.User != nil {
		out = append(out, "user-info")
	}
	if stripEmptyPort(u.Host) != stripEmptyPort(w.Host) {
		out = append(out, "other-host")
	}
	if isIPLiteral(u.Hostname()) {
		out = append(out, "ip-address")
	}
	if u.RawQuery != "" || u.ForceQuery || u.Fragment != "" || u.RawFragment != "" {
		out = append(out, "query-or-fragment")
	}
	// path: same number of segments, each equal after full decoding
	esc := u.EscapedPath()
	want := w.Segs
	if isRequest {
		if len(want) == 0 {
			want = []string{".well-known", "did.json"}
		} else {
			want = append(append([]string{}, want...), "did.json")
		}
	}
	var got []string
	if esc != "" {
		got = strings.Split(strings.TrimPrefix(esc, "/"), "/")
		if !strings.HasPrefix(esc, "/") {
			out = append(out, "relative-path")
		}
	}
	if len(got) != len(want) {
		out = append(out, "other-path")
	} else {
		for i := range got {
			if decodeOrRaw(got[i]) != decodeOrRaw(want[i]) {
				out = append(out, "other-path")
				break
			}
		}
	}
	return out
}

var (
	labelRe  = regexp.MustCompile(`^[A-Za-z0-9]([A-Za-z0-9-]*[A-Za-z0-9])?$`)
	segRe    = regexp.MustCompile(`^(?:[A-Za-z0-9._-]|%[0-9A-F]{2})+$`)
	tripleRe = regexp.MustCompile(`%[0-9A-F]{2}`)
)

// roundTripDomain tells whether the statement's round-trip law speaks about this identifier: a domain name
// (letters-digits-hyphen labels, last label not numeric), an optional numeric port, and path segments of DID idchars and
// canonical (upper-case) percent-encodings of characters that have to be encoded in a DID (sub-delims ":" "@" "/") —
// free of query ("?", %3F), fragment ("#", %23) and doubly-encoded (%25) characters.
func roundTripDomain(w webID) bool {
	host, port := w.Host, ""
	if n := strings.Count(w.HostRaw, "%"); n > 1 || n != strings.Count(w.HostRaw, "%3A") {
		return false // percent-encoding in the host other than the one (canonically written) port colon
	}
	if i := strings.Index(host, ":"); i >= 0 {
		host, port = host[:i], host[i+1:]
		n, err := strconv.Atoi(port)
		if err != nil || n < 1 || n > 65535 || strconv.Itoa(n) != port {
			return false
		}
	}
	labels := strings.Split(host, ".")
	for _, l := range labels {
		if !labelRe.MatchString(l) || len(l) > 63 {
			return false
		}
	}
	last := labels[len(labels)-1]
	if _, err := strconv.ParseUint(last, 0, 64); err == nil { // numeric (decimal, 0x.., 0..) last label: inet_aton territory
		return false
	}
	if isIPLiteral(host) {
		return false
	}
	// URLToDID is documented to strip a trailing /did.json (it accepts the document URL as well as the base URL), so an
	// identifier whose last segment is literally "did.json" cannot round-trip by design: outside the law
	if n := len(w.Segs); n > 0 && w.Segs[n-1] == "did.json" {
		return false
	}
	for _, s := range w.Segs {
		if s == "" || !segRe.MatchString(s) {
			return false
		}
		for _, t := range tripleRe.FindAllString(s, -1) {
			b, _ := strconv.ParseUint(t[1:], 16, 8)
			if !strings.ContainsRune("~!$&'()*+,;=:@/", rune(b)) {
				return false // %3F, %23, %25, and encodings of characters that need no encoding in a DID or that net/url re-encodes
			}
		}
	}
	return true
}
