package c18

import (
	"fmt"
	nethttp "net/http"
	"strings"
	"sync"
	"sync/atomic"
	"testing"

	"github.com/nuts-foundation/go-did/did"
	"github.com/nuts-foundation/nuts-node/http/client"
	"github.com/nuts-foundation/nuts-node/vdr/didweb"

	"verif/ev"
	"verif/netlab"
)

// ---------------------------------------------------------------- (a) answers given to a recording doer

type answer struct {
	Class  string
	Status int
	CType  string
	Body   func(id string) string // "" = matching document
}

func matching(id string) string { return string(docJSON(id)) }

// idVariants: documents whose id is NOT exactly the DID (name -> id member as raw JSON).
func idVariants(id string) map[string]string {
	q := func(s string) string { return fmt.Sprintf("%q", s) }
	w := splitWebID(strings.TrimPrefix(id, "did:web:"))
	host := w.HostRaw
	segs := strings.Join(w.Segs, ":")
	withSegs := func(h, s string) string {
		if s == "" {
			return "did:web:" + h
		}
		return "did:web:" + h + ":" + s
	}
	out := map[string]string{
		"other-host":        q(withSegs("evil.nl", segs)),
		"sub-domain":        q(withSegs("a."+host, segs)),
		"parent-domain":     q(withSegs(strings.TrimPrefix(host, "origin."), segs)),
		"host-upper-case":   q(withSegs(strings.ToUpper(host), segs)),
		"extra-segment":     q(id + ":x"),
		"trailing-colon":    q(id + ":"),
		"fragment":          q(id + "#key-1"),
		"query":             q(id + "?versionId=1"),
		"path":              q(id + "/path"),
		"other-method":      q("did:nuts:" + host),
		"method-upper-case": q("did:WEB:" + strings.TrimPrefix(id, "did:web:")),
		"leading-space":     q(" " + id),
		"trailing-space":    q(id + " "),
		"trailing-newline":  q(id + "\n"),
		"trailing-nul":      q(id + "\x00"),
		"empty":             q(""),
		"null":              "null",
		"number":            "5",
		"array":             "[" + q(id) + "]",
		"array-two":         "[" + q("did:web:evil.nl") + "," + q(id) + "]",
		"object":            `{"id":` + q(id) + `}`,
		"port-added":        q(withSegs(host+"%3A443", segs)),
		"well-known-suffix": q(id + ":.well-known"),
	}
	if segs != "" {
		out["missing-last-segment"] = q(withSegs(host, strings.Join(w.Segs[:len(w.Segs)-1], ":")))
		out["segment-upper-case"] = q(withSegs(host, strings.ToUpper(segs)))
		out["segment-encoded"] = q(withSegs(host, "%61"+segs[1:]))
		out["host-only"] = q("did:web:" + host)
	}
	if strings.Contains(id, "%3A") {
		out["port-lower-hex"] = q(strings.Replace(id, "%3A", "%3a", 1))
		out["port-removed"] = q(strings.Replace(id, "%3A8443", "", 1))
	}
	return out
}

func sectionAnswers(t *testing.T, r *ev.Run) {
	dids := []string{"did:web:origin.verif-lab.nl", "did:web:origin.verif-lab.nl:alice", "did:web:origin.verif-lab.nl%3A8443:iam:alice", "did:web:origin.verif-lab.nl:a%2Bb:c"}
	ctypes := []string{"application/did+json", "application/did+ld+json", "application/json", "application/json; charset=utf-8", "APPLICATION/JSON",
		"application/ld+json", "text/html", "text/plain", "application/octet-stream", "", "application/json;;", "application/did+json, text/html", "*/*", "application/jsonx"}
	statuses := []int{200, 201, 202, 203, 204, 206, 226, 299, 300, 304, 400, 401, 403, 404, 410, 418, 500, 502, 503}
	n := 0
	for _, ds := range dids {
		id := did.MustParseDID(ds)
		// (1) id variants x the three accepted content types, status 200
		for name, raw := range idVariants(ds) {
			for _, ct := range ctypes[:3] {
				n++
				body := fmt.Sprintf(`{"@context":["https://www.w3.org/ns/did/v1"],"id":%s}`, raw)
				rec := &recorder{status: 200, ctype: ct, body: func(*nethttp.Request) []byte { return []byte(body) }}
				doc, _, err := didweb.Resolver{HttpClient: rec}.Resolve(id, nil)
				r.Eval(ev.Key([]any{"id-variant", ds, name, ct}))
				if err == nil && (doc == nil || doc.ID.String() != ds) {
					got := "<nil>"
					if doc != nil {
						got = doc.ID.String()
					}
					r.Violation("C18|web|answer|id-mismatch-accepted|"+name, fmt.Sprintf("resolving %q: a document with id %s was accepted (returned id %q)", ds, raw, got), map[string]any{"section": "answers"})
				}
				if err == nil {
					r.Outcome("web answer: id variant decodes to the same DID, accepted")
					r.Observation("document id written differently but equal after parsing is accepted: "+name, map[string]any{"did": ds, "id_member": raw})
				} else {
					r.Outcome("web answer: id variant rejected")
				}
			}
		}
		// (2) status x content type with a MATCHING document: the statement does not speak about them -> outcomes / observations
		for _, st := range statuses {
			for _, ct := range ctypes {
				n++
				rec := &recorder{status: st, ctype: ct, body: func(*nethttp.Request) []byte { return docJSON(ds) }}
				doc, _, err := didweb.Resolver{HttpClient: rec}.Resolve(id, nil)
				r.Eval(ev.Key([]any{"status-ctype", ds, st, ct}))
				if err == nil && doc.ID.String() != ds {
					r.Violation("C18|web|answer|id-differs", fmt.Sprintf("resolving %q returned id %q", ds, doc.ID.String()), map[string]any{"section": "answers"})
				}
				acc := "rejected"
				if err == nil {
					acc = "accepted"
					if st < 200 || st > 299 {
						r.Observation(fmt.Sprintf("matching document in a %d answer is accepted (not named by the statement)", st), ds)
					}
					if ct != "application/did+json" && ct != "application/did+ld+json" && !strings.HasPrefix(strings.ToLower(ct), "application/json") {
						r.Observation(fmt.Sprintf("matching document with content type %q is accepted (not named by the statement)", ct), ds)
					}
				}
				r.Outcome(fmt.Sprintf("web answer %dxx / content type: %s", st/100, acc))
			}
		}
		// (3) bodies
		for name, body := range map[string]string{"empty": "", "truncated": string(docJSON(ds))[:20], "array": "[" + string(docJSON(ds)) + "]", "string": `"` + ds + `"`,
			"two-documents": string(docJSON("did:web:evil.nl")) + string(docJSON(ds)), "duplicate-id-first-wrong": `{"id":"did:web:evil.nl","id":"` + ds + `"}`,
			"duplicate-id-last-wrong": `{"id":"` + ds + `","id":"did:web:evil.nl"}`, "id-in-nested-only": `{"service":[{"id":"` + ds + `"}]}`, "bom": "\xef\xbb\xbf" + string(docJSON(ds))} {
			n++
			rec := &recorder{status: 200, ctype: "application/did+json", body: func(*nethttp.Request) []byte { return []byte(body) }}
			doc, _, err := didweb.Resolver{HttpClient: rec}.Resolve(id, nil)
			r.Eval(ev.Key([]any{"body", ds, name}))
			if err == nil && doc.ID.String() != ds {
				r.Violation("C18|web|answer|id-mismatch-accepted|body-"+name, fmt.Sprintf("resolving %q: body %q yields a document with id %q", ds, name, doc.ID.String()), map[string]any{"section": "answers"})
			}
			r.Outcome(fmt.Sprintf("web answer body %s: accepted=%v", name, err == nil))
		}
	}
	r.Bound("web_recorded_answers", n)
	// non-web methods never reach the web resolver's client
	for _, s := range []string{"did:nuts:origin.verif-lab.nl", "did:jwk:origin.verif-lab.nl", "did:key:origin.verif-lab.nl", "did:x509:origin.verif-lab.nl", "did:web2:origin.verif-lab.nl", "did:we:origin.verif-lab.nl", "did:webs:origin.verif-lab.nl"} {
		id := did.MustParseDID(s)
		rec := &recorder{status: 200, ctype: "application/did+json", body: func(*nethttp.Request) []byte { return docJSON(s) }}
		u, uerr := didweb.DIDToURL(id)
		_, _, err := didweb.Resolver{HttpClient: rec}.Resolve(id, nil)
		r.Eval(ev.Key([]any{"non-web", s}))
		if uerr == nil || err == nil || len(rec.urls) > 0 {
			r.Violation("C18|web|non-web-method", fmt.Sprintf("did:web code handles %q (DIDToURL=%v, requests=%d)", s, u, len(rec.urls)), map[string]any{"section": "answers"})
		}
		r.Outcome("non-web method refused by did:web code")
	}
	sectionRedirects(t, r)
}

// ---------------------------------------------------------------- (b) the real client against the lab

const (
	hostOrigin = "origin.verif-lab.nl"
	hostOther  = "other.verif-lab.nl"
	hostIP     = "192.0.2.10"
)

var (
	lab     *netlab.Lab
	labOnce sync.Once
	nonce   atomic.Int64
)

func nextNonce() string { return fmt.Sprintf("n%d", nonce.Add(1)) }

func theLab() *netlab.Lab {
	labOnce.Do(func() {
		lab = netlab.New(labHandler)
		lab.AddTLS("origin-tls", hostOrigin+":443", hostOrigin+":8443", strings.ToUpper(hostOrigin)+":443", "Origin.Verif-Lab.NL:443")
		lab.AddTLS("other-tls", hostOther+":443")
		lab.AddTLS("ip-tls", hostIP+":443")
		lab.AddPlain("plain", hostOrigin+":80", hostOther+":80")
		lab.Install()
	})
	return lab
}

var bigPad = strings.Repeat("x", client.DefaultMaxHttpResponseSize)

// Paths are /<nonce>/<behaviour>/did.json, i.e. DID did:web:<host>:<nonce>:<behaviour>. Behaviours:
//
//	ok               matching document (id from ?id= if present, else derived from host + path)
//	big              matching document padded beyond the 1 MiB limit
//	r<code>-<target> redirect; target ∈ same-path (https, same host, other path) | other-https | same-http | other-http | ip-https
//	rr<code>-<target> one same-host https hop first
func labHandler(listener string, w nethttp.ResponseWriter, r *nethttp.Request) {
	if strings.Contains(r.URL.Path, "/loc-") {
		locHandler(w, r)
		return
	}
	segs := strings.Split(strings.TrimPrefix(r.URL.Path, "/"), "/")
	if len(segs) < 3 || segs[len(segs)-1] != "did.json" {
		nethttp.Error(w, "no such thing", 404)
		return
	}
	id := r.URL.Query().Get("id")
	if id == "" {
		id = "did:web:" + strings.ReplaceAll(r.Host, ":", "%3A") + ":" + strings.Join(segs[:len(segs)-1], ":")
	}
	host := r.Host
	if i := strings.Index(host, ":"); i >= 0 {
		host = host[:i]
	}
	beh := segs[1]
	switch {
	case beh == "ok" || beh == "moved":
		w.Header().Set("Content-Type", "application/did+json")
		w.Write(docJSON(id))
	case beh == "big":
		w.Header().Set("Content-Type", "application/did+json")
		fmt.Fprintf(w, `{"@context":["https://www.w3.org/ns/did/v1"],"id":%q,"pad":%q}`, id, bigPad)
	case strings.HasPrefix(beh, "rr"):
		var code int
		var target string
		fmt.Sscanf(beh, "rr%d-%s", &code, &target)
		w.Header().Set("Location", fmt.Sprintf("https://%s/%s/r%d-%s/did.json?id=%s", r.Host, segs[0], code, target, id))
		w.WriteHeader(code)
	case strings.HasPrefix(beh, "r"):
		var code int
		var target string
		fmt.Sscanf(beh, "r%d-%s", &code, &target)
		var loc string
		switch target {
		case "same-path":
			loc = "https://" + r.Host + "/" + segs[0] + "/moved/did.json"
		case "other-https":
			loc = "https://" + hostOther + "/" + segs[0] + "/ok/did.json"
		case "ip-https":
			loc = "https://" + hostIP + "/" + segs[0] + "/ok/did.json"
		case "same-http":
			loc = "http://" + host + "/" + segs[0] + "/ok/did.json"
		case "other-http":
			loc = "http://" + hostOther + "/" + segs[0] + "/ok/did.json"
		default:
			nethttp.Error(w, "bad target", 500)
			return
		}
		w.Header().Set("Location", loc+"?id="+id)
		w.WriteHeader(code)
	default:
		nethttp.Error(w, "no such thing", 404)
	}
}

type redirCase struct {
	Section   string `json:"section"`
	Strict    bool   `json:"strict"`
	Port      bool   `json:"port"`
	Behaviour string `json:"behaviour"`
}

func runRedirCase(r *ev.Run, c redirCase) {
	l := theLab()
	client.StrictMode = c.Strict
	defer func() { client.StrictMode = false }()
	host := hostOrigin
	if c.Port {
		host += "%3A8443"
	}
	ds := fmt.Sprintf("did:web:%s:%s:%s", host, nextNonce(), c.Behaviour)
	id := did.MustParseDID(ds)
	w := splitWebID(id.ID)
	l.Take()
	doc, _, err := didweb.NewResolver().Resolve(id, nil)
	hits, dials := l.Take()
	r.Eval(ev.Key(c))
	var seen []string
	var plain, otherHost, ipHost, otherPath bool
	for i, h := range hits {
		seen = append(seen, h.Scheme+"://"+h.Host+h.URI)
		switch {
		case h.Scheme != "https":
			plain = true
		case stripDefaultPort(h.Host) != stripDefaultPort(w.Host):
			otherHost = true
			if isIPLiteral(stripPort(h.Host)) {
				ipHost = true
			}
		case i > 0:
			otherPath = true
		}
	}
	for _, d := range dials {
		if !d.Routed {
			seen = append(seen, "dial "+d.Addr+" (no route)")
		}
	}
	resolved := err == nil && doc != nil
	r.Outcome(fmt.Sprintf("did:web real client strict=%v: resolved=%v plain=%v other-host=%v", c.Strict, resolved, plain, otherHost))
	r.Sample(map[string]any{"did": ds, "strict": c.Strict, "requests": seen, "resolved": resolved, "error": fmt.Sprint(err)})
	if resolved && doc.ID.String() != ds {
		r.Violation("C18|web|answer|id-differs", fmt.Sprintf("resolving %q returned id %q", ds, doc.ID.String()), c)
	}
	what := fmt.Sprintf("resolving %q (strict mode %v) made the requests %v; document accepted: %v", ds, c.Strict, seen, resolved)
	if c.Strict {
		// the statement's "only over HTTPS" is judged in the default (strict) mode; with strict mode off plain HTTP is what the operator asked for (C20)
		if plain {
			r.Violation("C18|web|redirect|plain-http", what, c)
		}
	} else if plain {
		r.Observation("strict mode off: did:web resolution follows a redirect to plain http", seen)
	}
	if ipHost {
		r.Violation("C18|web|redirect|other-host-ip", what, c)
	} else if otherHost {
		r.Violation("C18|web|redirect|other-host", what, c)
	}
	if otherPath && !otherHost && !plain {
		r.Observation("did:web resolution follows a same-host https redirect to another path (same origin; recorded, not judged)", seen)
	}
	if c.Behaviour == "big" && resolved {
		r.Observation("a did:web document larger than the client's response limit was accepted", ds)
	}
}

func stripPort(h string) string {
	if i := strings.LastIndex(h, ":"); i >= 0 && !strings.HasSuffix(h, "]") {
		return h[:i]
	}
	return h
}

func stripDefaultPort(h string) string { return strings.TrimSuffix(strings.TrimSuffix(h, ":443"), ":") }

func buildRedirCases() []redirCase {
	var out []redirCase
	behs := []string{"ok", "big"}
	for _, code := range []int{301, 302, 303, 307, 308} {
		for _, target := range []string{"same-path", "other-https", "ip-https", "same-http", "other-http"} {
			behs = append(behs, fmt.Sprintf("r%d-%s", code, target))
		}
	}
	for _, target := range []string{"same-path", "other-https", "same-http"} {
		behs = append(behs, "rr302-"+target)
	}
	for _, strict := range []bool{true, false} {
		for _, port := range []bool{false, true} {
			for _, b := range behs {
				out = append(out, redirCase{Section: "redirects", Strict: strict, Port: port, Behaviour: b})
			}
		}
	}
	return out
}

func sectionRedirects(t *testing.T, r *ev.Run) {
	theLab()
	// vacuity guards: the plain case resolves through the real client; an oversized document does not
	client.StrictMode = true
	ds := fmt.Sprintf("did:web:%s:%s:ok", hostOrigin, nextNonce())
	if doc, _, err := didweb.NewResolver().Resolve(did.MustParseDID(ds), nil); err != nil || doc.ID.String() != ds {
		t.Fatalf("lab broken: %q does not resolve through the real client: %v", ds, err)
	}
	client.StrictMode = false
	lab.Take()
	cases := buildRedirCases()
	r.Bound("web_real_client_cases", len(cases))
	for _, c := range cases {
		runRedirCase(r, c)
	}
	// Where do the odd hosts that DIDToURL accepts make the real client connect to? (observations: the statement names IP literals,
	// user-info and other hosts; these are none of them — but note what net.Dial does with an empty host.)
	client.StrictMode = true
	defer func() { client.StrictMode = false }()
	for _, ds := range []string{"did:web:%3A8443", "did:web:%3A%3A1", "did:web:2130706433", "did:web:0x7f.0.0.1", "did:web:127.1", "did:web:127.0.0.1.", "did:web:localhost", "did:web:example.com%3A", "did:web:example.com%3A0", "did:web:example.com%3A99999"} {
		id, err := did.ParseDID(ds)
		if err != nil {
			continue
		}
		lab.Take()
		_, _, rerr := didweb.NewResolver().Resolve(*id, nil)
		_, dials := lab.Take()
		var addrs []string
		for _, d := range dials {
			addrs = append(addrs, d.Addr)
		}
		r.Eval(ev.Key([]any{"odd-host-dial", ds}))
		note := ""
		if len(addrs) == 1 && strings.HasPrefix(addrs[0], ":") {
			note = " — net.Dial connects an empty host to the local system"
		}
		r.Observation(fmt.Sprintf("%s makes the real client dial %q%s", ds, addrs, note), fmt.Sprint(rerr))
	}
}
