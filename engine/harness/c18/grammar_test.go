package c18

import (
	"bytes"
	"fmt"
	"io"
	nethttp "net/http"
	"net/url"
	"strings"
	"sync"
	"testing"

	"github.com/nuts-foundation/go-did/did"
	"github.com/nuts-foundation/nuts-node/vdr/didweb"

	"verif/ev"
)

// recorder is a core.HTTPRequestDoer that records every request and answers with a fixed response.
type recorder struct {
	mu     sync.Mutex
	urls   []*url.URL
	status int
	ctype  string
	body   func(req *nethttp.Request) []byte
}

func (r *recorder) Do(req *nethttp.Request) (*nethttp.Response, error) {
	r.mu.Lock()
	u := *req.URL
	r.urls = append(r.urls, &u)
	r.mu.Unlock()
	h := nethttp.Header{}
	if r.ctype != "" {
		h.Set("Content-Type", r.ctype)
	}
	return &nethttp.Response{StatusCode: r.status, Status: fmt.Sprintf("%d x", r.status), Header: h,
		Body: io.NopCloser(bytes.NewReader(r.body(req))), Request: req}, nil
}

func docJSON(id string) []byte {
	return []byte(fmt.Sprintf(`{"@context":["https://www.w3.org/ns/did/v1"],"id":%q}`, id))
}

type token struct{ Class, Text string }

var hostTokens = []token{
	{"domain", "example.com"}, {"domain-sub", "a.b-c.example.nl"}, {"domain-mixed-case", "ExAmple.COM"}, {"single-label", "localhost"},
	{"trailing-dot", "example.com."}, {"empty-label", "example..com"}, {"leading-dot", ".example.com"}, {"hyphen-label", "-example.com"},
	{"underscore", "ex_ample.com"}, {"ipv4", "127.0.0.1"}, {"ipv4-public", "192.0.2.10"}, {"ipv4-trailing-dot", "127.0.0.1."},
	{"ipv6", "%5B%3A%3A1%5D"}, {"ipv6-long", "%5B2001%3Adb8%3A%3A1%5D"}, {"ipv6-zone", "%5Bfe80%3A%3A1%25eth0%5D"}, {"ipv6-zone-enc", "%5Bfe80%3A%3A1%2525eth0%5D"},
	{"ipv6-unbracketed", "%3A%3A1"}, {"ipv6-v4mapped", "%5B%3A%3Affff%3A127.0.0.1%5D"},
	{"numeric-decimal", "2130706433"}, {"numeric-hex", "0x7f.0.0.1"}, {"numeric-octal", "0177.0.0.1"}, {"numeric-short", "127.1"}, {"numeric-hex-single", "0x7f000001"},
	{"user-info", "user%40example.com"}, {"user-info-password", "user%3Apw%40example.com"}, {"user-info-empty", "%40example.com"}, {"user-info-trick", "example.com%40evil.nl"},
	{"encoded-slash", "example.com%2Fevil.nl"}, {"encoded-query", "example.com%3Fevil.nl"}, {"encoded-fragment", "example.com%23evil.nl"},
	{"encoded-backslash", "example.com%5Cevil.nl"}, {"encoded-backslash-at", "evil.nl%5C%40example.com"}, {"nul", "example.com%00"}, {"space", "example%20.com"}, {"tab", "example.com%09"},
	{"newline", "example.com%0Aevil.nl"}, {"double-encoded-slash", "example.com%252Fevil.nl"}, {"double-encoded-colon", "example.com%253A8080"},
	{"non-ascii", "%E2%9C%93.com"}, {"non-utf8", "%FF.com"}, {"encoded-dot", "example%2Ecom"}, {"encoded-letter", "ex%61mple.com"},
	{"percent-literal", "example.com%25"}, {"empty", ""}, {"only-port", "%3A8080"},
}

var portTokens = []token{{"none", ""}, {"port", "%3A8080"}, {"port-443", "%3A443"}, {"port-lower-hex", "%3a8080"}, {"port-empty", "%3A"}, {"port-too-large", "%3A99999"},
	{"port-zero", "%3A0"}, {"port-alpha", "%3Aabc"}, {"port-twice", "%3A80%3A81"}, {"port-leading-zero", "%3A08080"}, {"port-negative", "%3A-1"},
	// boundary values of the port (index >= firstBoundaryPort: path depth limited, the path alphabet does not interact with the port)
	{"port-1", "%3A1"}, {"port-80", "%3A80"}, {"port-442", "%3A442"}, {"port-444", "%3A444"}, {"port-4430", "%3A4430"}, {"port-8443", "%3A8443"}, {"port-65535", "%3A65535"},
	{"port-65536", "%3A65536"}, {"port-443-leading-zero", "%3A0443"}, {"port-443-leading-zeros", "%3A00443"}, {"port-443-plus", "%3A%2B443"}, {"port-443-trailing-colon", "%3A443%3A"}}

const firstBoundaryPort = 11

var segTokens = []token{
	{"plain", "alice"}, {"plain-mixed", "Al1ce_b-c.d"}, {"plus", "%2B"}, {"plus-lower", "%2b"}, {"plus-inside", "a%2Bb"}, {"encoded-slash", "%2F"}, {"encoded-slash-inside", "a%2Fb"},
	{"encoded-slash-lower", "a%2fb"}, {"double-encoded-slash", "%252F"}, {"dot", "."}, {"dotdot", ".."}, {"encoded-dotdot", "%2E%2E"}, {"empty", ""}, {"at", "%40"}, {"at-inside", "a%40b"},
	{"encoded-query", "a%3Fb"}, {"encoded-fragment", "a%23b"}, {"encoded-colon", "a%3Ab"}, {"space", "a%20b"}, {"nul", "a%00"}, {"newline", "a%0Ab"}, {"backslash", "a%5Cb"},
	{"tilde", "%7Euser"}, {"sub-delims", "%21%24%26%27%28%29%2A%2C%3B%3D"}, {"encoded-letter", "%61lice"}, {"percent-literal", "a%25"}, {"non-ascii", "%C3%A9"}, {"did-json", "did.json"},
	{"well-known", ".well-known"}, {"quote", "a%22b"}, {"semicolon-param", "a%3Bx%3D1"},
}

// raw additions that only make sense literally (they turn the string into a DID URL or an invalid DID)
var literalSuffixes = []token{{"query", "?x=1"}, {"fragment", "#frag"}, {"path", "/path"}, {"literal-at", ":a@b"}, {"literal-bracket", ":[x]"}, {"literal-space", ":a b"}, {"literal-percent", ":%zz"},
	{"literal-percent-short", ":%2"}, {"trailing-colon", ":"}}

type gramCase struct {
	ID      string `json:"id"` // full DID string
	Classes string `json:"classes"`
}

// forEachGrammar enumerates the identifiers (streaming: the thorough tier has 15 million of them) and returns their number.
func forEachGrammar(depth int, fullHosts bool, fn func(idx int, c gramCase)) int {
	n := 0
	emit := func(c gramCase) {
		if fn != nil {
			fn(n, c)
		}
		n++
	}
	var rec func(prefix, classes string, d int)
	rec = func(prefix, classes string, d int) {
		emit(gramCase{ID: prefix, Classes: classes})
		if d == 0 {
			return
		}
		for _, s := range segTokens {
			rec(prefix+":"+s.Text, classes+"/"+s.Class, d-1)
		}
	}
	for hi, h := range hostTokens {
		for pi, p := range portTokens {
			d := depth
			// quick tier: the deepest level only for the representative hosts and ports (the path alphabet does not interact with the rest of the
			// host alphabet: DIDToURL splits at the first ':' before anything is decoded)
			if !fullHosts && (hi > 3 || pi > 1) && d > 2 {
				d = 2
			}
			if !fullHosts && (hi > 12 && pi > 3) && d > 1 {
				d = 1
			}
			if pi >= firstBoundaryPort {
				if fullHosts && d > 2 {
					d = 2
				} else if !fullHosts && d > 1 {
					d = 1
				}
			}
			rec("did:web:"+h.Text+p.Text, "host="+h.Class+" port="+p.Class, d)
		}
	}
	for _, h := range []token{hostTokens[0], hostTokens[9], hostTokens[23]} {
		for _, s := range literalSuffixes {
			emit(gramCase{ID: "did:web:" + h.Text + ":alice" + s.Text, Classes: "host=" + h.Class + " literal=" + s.Class})
			emit(gramCase{ID: "did:web:" + h.Text + s.Text, Classes: "host=" + h.Class + " literal=" + s.Class})
		}
	}
	return n
}

type gramStats struct{ unparsable, refused, accepted, roundTripChecked int64 }

func runGramCase(r *ev.Run, c gramCase, st *gramStats) {
	parsed, err := did.ParseDIDURL(c.ID)
	if err != nil || parsed.Method != "web" {
		r.Eval("")
		st.unparsable++
		return
	}
	id := parsed.DID // a DID URL's path/query/fragment is not part of the DID that is resolved
	w := splitWebID(id.ID)
	u, derr := didweb.DIDToURL(id)
	rec := &recorder{status: 200, ctype: "application/did+json", body: func(*nethttp.Request) []byte { return docJSON(id.String()) }}
	doc, _, rerr := didweb.Resolver{HttpClient: rec}.Resolve(id, nil)
	r.Eval(id.String())

	if derr == nil {
		st.accepted++
		for _, d := range bindingDefects(w, u, false) {
			r.Violation("C18|web|DIDToURL|"+d, fmt.Sprintf("DIDToURL(%q) = %q: the URL is not the origin/path the identifier encodes (%s; encoded host %q)", id.String(), u.String(), d, w.Host), c)
		}
	} else {
		st.refused++
	}
	switch {
	case len(rec.urls) > 1:
		r.Violation("C18|web|resolve|several-requests", fmt.Sprintf("resolving %q made %d requests", id.String(), len(rec.urls)), c)
	case len(rec.urls) == 1:
		for _, d := range bindingDefects(w, rec.urls[0], true) {
			r.Violation("C18|web|resolve|"+d, fmt.Sprintf("resolving %q requested %q (%s; encoded host %q)", id.String(), rec.urls[0].String(), d, w.Host), c)
		}
		if derr != nil {
			r.Violation("C18|web|resolve|request-for-refused-identifier", fmt.Sprintf("DIDToURL refuses %q but Resolve requested %q", id.String(), rec.urls[0].String()), c)
		}
	}
	if rerr == nil {
		if doc == nil || doc.ID.String() != id.String() {
			r.Violation("C18|web|resolve|id-differs", fmt.Sprintf("resolving %q returned a document with another id", id.String()), c)
		}
		r.Outcome("web: resolved")
	} else if len(rec.urls) == 0 {
		r.Outcome("web: refused before any request")
	} else {
		r.Outcome("web: refused after the request")
	}
	// round-trip law, only on the domain the statement names
	inDomain := roundTripDomain(w)
	odd := oddities(c.Classes)
	if inDomain {
		st.roundTripChecked++
		if derr != nil {
			r.Violation("C18|web|round-trip|refused", fmt.Sprintf("DIDToURL refuses %q, an identifier of the round-trip domain: %v", id.String(), derr), c)
		} else if back, berr := didweb.URLToDID(*u); berr != nil {
			r.Violation("C18|web|round-trip|error", fmt.Sprintf("URLToDID(DIDToURL(%q)) fails: %v", id.String(), berr), c)
		} else if back.String() != id.String() {
			r.Violation("C18|web|round-trip|differs", fmt.Sprintf("URLToDID(DIDToURL(%q)) = %q", id.String(), back.String()), c)
		}
	} else if derr == nil && len(odd) == 1 {
		// exactly one odd token: attribute the behaviour to it (recorded once per token class)
		back, berr := didweb.URLToDID(*u)
		if berr != nil || back.String() != id.String() {
			r.Observation("round trip does not hold outside the stated domain: "+odd[0]+" ("+tokenText(odd[0])+")", nil)
		}
	}
	// accepted hosts / ports that look odd but that the statement does not forbid (inet_aton forms, empty port, dot labels, …)
	if derr == nil && len(odd) == 1 && !strings.HasPrefix(odd[0], "seg=") {
		r.Observation("accepted by DIDToURL: "+odd[0]+" ("+tokenText(odd[0])+")", nil)
	}
}

// tokenText returns the text of a token named "host=<class>" / "port=<class>" / "seg=<class>" (for observation texts that are
// identical on every worker).
func tokenText(name string) string {
	kind, class, _ := strings.Cut(name, "=")
	list := map[string][]token{"host": hostTokens, "port": portTokens, "seg": segTokens, "literal": literalSuffixes}[kind]
	for _, t := range list {
		if t.Class == class {
			return t.Text
		}
	}
	return "?"
}

// oddities lists the token classes of a case that are not plain.
func oddities(classes string) []string {
	var out []string
	for _, f := range strings.Fields(strings.ReplaceAll(classes, "/", " seg=")) {
		switch f {
		case "host=domain", "host=domain-sub", "port=none", "port=port", "port=port-443", "seg=plain", "seg=plain-mixed", "host=domain-mixed-case",
			"port=port-1", "port=port-80", "port=port-442", "port=port-444", "port=port-4430", "port=port-8443", "port=port-65535":
		default:
			out = append(out, f)
		}
	}
	return out
}

// sectionURLDirection: the other direction of the conversion. Every URL of {domain hosts} x {no port, boundary ports} x {paths a node
// or a tenant can have, with and without trailing slash / did.json} goes through URLToDID and back through DIDToURL. Judged: the
// identifier encodes exactly the URL's host and port (the origin), and for URLs in canonical form (no trailing slash, no did.json)
// the URL comes back; an identifier of the round-trip domain obtained this way also obeys DID -> URL -> DID.
func sectionURLDirection(r *ev.Run) {
	hosts := []string{"example.com", "a.b-c.example.nl", "ExAmple.COM", "localhost", "xn--bcher-kva.example"}
	ports := []string{"", ":1", ":80", ":442", ":443", ":444", ":4430", ":8080", ":8443", ":65535"}
	paths := []struct {
		path      string
		canonical bool
		segs      []string
	}{{"", true, nil}, {"/", false, nil}, {"/alice", true, []string{"alice"}}, {"/alice/", false, []string{"alice"}}, {"/iam/alice", true, []string{"iam", "alice"}},
		{"/Al1ce_b-c.d/x", true, []string{"Al1ce_b-c.d", "x"}}, {"/alice+and+bob/path", true, []string{"alice+and+bob", "path"}}, {"/443", true, []string{"443"}},
		{"/did.json", false, nil}, {"/.well-known/did.json", false, nil}, {"/alice/did.json", false, []string{"alice"}}, {"/iam/alice/did.json", false, []string{"iam", "alice"}}}
	n := 0
	for _, h := range hosts {
		for _, p := range ports {
			for _, pa := range paths {
				raw := "https://" + h + p + pa.path
				u, err := url.Parse(raw)
				if err != nil {
					continue
				}
				n++
				c := gramCase{ID: raw, Classes: "url-direction"}
				r.Eval("url:" + raw)
				d, derr := didweb.URLToDID(*u)
				if derr != nil {
					r.Outcome("web: URLToDID refuses")
					r.Observation("URLToDID refuses a plain https URL: path "+pa.path, nil)
					continue
				}
				r.Outcome("web: URLToDID converts")
				w := splitWebID(d.ID)
				if stripEmptyPort(w.Host) != u.Host {
					r.Violation("C18|web|url-to-did|other-host", fmt.Sprintf("URLToDID(%q) = %q: the identifier encodes origin %q, the URL has %q", raw, d.String(), w.Host, u.Host), c)
				}
				if len(w.Segs) != len(pa.segs) {
					r.Violation("C18|web|url-to-did|other-path", fmt.Sprintf("URLToDID(%q) = %q: %d path segments for %d", raw, d.String(), len(w.Segs), len(pa.segs)), c)
				} else {
					for i := range w.Segs {
						if decodeOrRaw(w.Segs[i]) != pa.segs[i] {
							r.Violation("C18|web|url-to-did|other-path", fmt.Sprintf("URLToDID(%q) = %q: segment %d differs", raw, d.String(), i), c)
							break
						}
					}
				}
				back, berr := didweb.DIDToURL(*d)
				if berr != nil {
					r.Violation("C18|web|url-round-trip|refused", fmt.Sprintf("DIDToURL(URLToDID(%q) = %q) fails: %v", raw, d.String(), berr), c)
					continue
				}
				if stripEmptyPort(back.Host) != u.Host || back.Scheme != "https" {
					r.Violation("C18|web|url-round-trip|other-host", fmt.Sprintf("DIDToURL(URLToDID(%q)) = %q", raw, back.String()), c)
				}
				if pa.canonical && back.EscapedPath() != u.EscapedPath() {
					r.Violation("C18|web|url-round-trip|other-path", fmt.Sprintf("DIDToURL(URLToDID(%q)) = %q", raw, back.String()), c)
				}
				if roundTripDomain(w) {
					if again, aerr := didweb.URLToDID(*back); aerr != nil || again.String() != d.String() {
						r.Violation("C18|web|round-trip|differs", fmt.Sprintf("URLToDID(DIDToURL(%q)) = %v (%v); the identifier came from URLToDID(%q)", d.String(), again, aerr, raw), c)
					}
				}
			}
		}
	}
	r.Bound("web_urls_other_direction", n)
}

func sectionGrammar(t *testing.T, r *ev.Run) {
	if r.Mine(3) {
		sectionURLDirection(r)
	}
	depth := 3
	total := forEachGrammar(depth, r.Thorough(), nil)
	r.Bound("web_identifier_path_depth", depth)
	r.Bound("web_identifiers", total)
	r.Bound("web_host_tokens", len(hostTokens))
	r.Bound("web_port_tokens", len(portTokens))
	r.Bound("web_segment_tokens", len(segTokens))
	var st gramStats
	expired := false
	forEachGrammar(depth, r.Thorough(), func(idx int, c gramCase) {
		if expired || !r.Mine(idx) {
			return
		}
		if idx%4096 < 16 && r.Expired() {
			expired = true
			return
		}
		runGramCase(r, c, &st)
	})
	r.AddExtra("web_identifiers_not_a_did", st.unparsable)
	r.AddExtra("web_identifiers_refused_by_DIDToURL", st.refused)
	r.AddExtra("web_identifiers_accepted_by_DIDToURL", st.accepted)
	r.AddExtra("web_round_trip_checked", st.roundTripChecked)
	if r.Mine(0) && st.roundTripChecked == 0 {
		t.Fatal("round-trip domain is empty (harness broken)")
	}
}
