package c18

import (
	"crypto/ecdsa"
	"crypto/ed25519"
	"crypto/elliptic"
	"crypto/rsa"
	"crypto/sha256"
	"crypto/x509"
	"encoding/base64"
	"encoding/binary"
	"encoding/json"
	"fmt"
	"math/big"
	"sort"
	"strings"
	"testing"
	"time"

	"github.com/lestrrat-go/jwx/v2/jwk"
	"github.com/mr-tron/base58"
	"github.com/nuts-foundation/go-did/did"
	"github.com/nuts-foundation/nuts-node/vdr/didjwk"
	"github.com/nuts-foundation/nuts-node/vdr/didkey"
	"github.com/nuts-foundation/nuts-node/vdr/didweb"
	"github.com/nuts-foundation/nuts-node/vdr/resolver"

	"verif/enum"
	"verif/ev"
)

type pureCase struct {
	Section string `json:"section"`
	DID     string `json:"did"`
	Desc    string `json:"desc"`
}

// the product's method router (vdr.Configure registers the same resolvers); did:web falls into the lab
func newRouter() *resolver.DIDResolverRouter {
	r := &resolver.DIDResolverRouter{}
	r.Register(didjwk.MethodName, didjwk.NewResolver())
	r.Register(didkey.MethodName, didkey.NewResolver())
	r.Register(didweb.MethodName, didweb.NewResolver())
	return r
}

const b58 = "123456789ABCDEFGHJKLMNPQRSTUVWXYZabcdefghijkmnopqrstuvwxyz"
const b64 = "ABCDEFGHIJKLMNOPQRSTUVWXYZabcdefghijklmnopqrstuvwxyz0123456789"

func nextIn(alphabet string, c byte) string {
	i := strings.IndexByte(alphabet, c)
	if i < 0 {
		return string(alphabet[0])
	}
	return string(alphabet[(i+1)%len(alphabet)])
}

// stringMutants: every single application of the string operators at every position of the method-specific id.
func stringMutants(prefix, id, alphabet string) []pureCase {
	var out []pureCase
	add := func(desc, s string) { out = append(out, pureCase{Section: "pure", DID: prefix + s, Desc: desc}) }
	foreign := []string{".", "-", "_", ":", "%41", "0", "l", "+", "/", "=", " "}
	for i := 0; i < len(id); i++ {
		add(fmt.Sprintf("delete@%d", i), id[:i]+id[i+1:])
		add(fmt.Sprintf("dup@%d", i), id[:i+1]+id[i:])
		add(fmt.Sprintf("next@%d", i), id[:i]+nextIn(alphabet, id[i])+id[i+1:])
		add(fmt.Sprintf("truncate@%d", i), id[:i])
		if i+1 < len(id) && id[i] != id[i+1] {
			add(fmt.Sprintf("swap@%d", i), id[:i]+string(id[i+1])+string(id[i])+id[i+2:])
		}
		// foreign characters: every position for short ids, every 7th position and both ends for long ones
		if len(id) < 120 || i%7 == 0 || i == len(id)-1 {
			for _, f := range foreign {
				add(fmt.Sprintf("foreign(%s)@%d", f, i), id[:i]+f+id[i+1:])
			}
		}
	}
	for _, sfx := range []string{"A", "=", "==", "%3D", ".", ":", ":x", "%00", "#0", "?a=b", "/p", "%20", "\n"} {
		add("append("+sfx+")", id+sfx)
	}
	for _, pfx := range []string{":", "z", "u", "m", "%7A", " "} {
		add("prepend("+pfx+")", pfx+id)
	}
	add("upper", strings.ToUpper(id))
	add("lower", strings.ToLower(id))
	return out
}

// Key material is derived from VERIF_SEED (SHA-256 stream), so that every worker enumerates the same case list.
// (crypto/ecdsa and crypto/rsa key generation deliberately defeat a deterministic reader, hence the direct construction.)
var keySeed int64 = 1

func detBytes(label string, n int) []byte {
	var out []byte
	for ctr := 0; len(out) < n; ctr++ {
		h := sha256.Sum256([]byte(fmt.Sprintf("verif-c18|%d|%s|%d", keySeed, label, ctr)))
		out = append(out, h[:]...)
	}
	return out[:n]
}

func detEC(curve elliptic.Curve, label string) *ecdsa.PublicKey {
	n := (curve.Params().BitSize + 7) / 8
	d := new(big.Int).SetBytes(detBytes(label, n))
	d.Mod(d, new(big.Int).Sub(curve.Params().N, big.NewInt(1)))
	d.Add(d, big.NewInt(1))
	x, y := curve.ScalarBaseMult(d.Bytes())
	return &ecdsa.PublicKey{Curve: curve, X: x, Y: y}
}

// detRSA: a modulus-shaped odd number of the requested size; the resolvers only parse public keys.
func detRSA(bits int, label string) *rsa.PublicKey {
	b := detBytes(label, bits/8)
	b[0] |= 0x80
	b[len(b)-1] |= 1
	return &rsa.PublicKey{N: new(big.Int).SetBytes(b), E: 65537}
}

func jwkDIDs(t *testing.T) map[string]string {
	out := map[string]string{}
	gen := map[string]func(label string) any{
		"EC-P256":     func(l string) any { return detEC(elliptic.P256(), l) },
		"EC-P384":     func(l string) any { return detEC(elliptic.P384(), l) },
		"EC-P521":     func(l string) any { return detEC(elliptic.P521(), l) },
		"OKP-Ed25519": func(l string) any { return ed25519.NewKeyFromSeed(detBytes(l, 32)).Public() },
		"RSA-2048":    func(l string) any { return detRSA(2048, l) },
	}
	for name, g := range gen {
		for try := 0; ; try++ {
			key, err := jwk.FromRaw(g(fmt.Sprintf("jwk-%s-%d", name, try)))
			if err != nil {
				t.Fatal(err)
			}
			b, _ := json.Marshal(key)
			enc := base64.RawStdEncoding.EncodeToString(b)
			if !strings.ContainsAny(enc, "+/") {
				out[name] = enc
				break
			}
			if try > 500 {
				t.Fatalf("no did:jwk identifier without + or / for %s", name)
			}
		}
	}
	return out
}

func multikey(code uint64, raw []byte) string {
	buf := binary.AppendUvarint(nil, code)
	return "z" + base58.EncodeAlphabet(append(buf, raw...), base58.BTCAlphabet)
}

func keyDIDs() map[string]string {
	out := map[string]string{}
	edPub := []byte(ed25519.NewKeyFromSeed(detBytes("key-ed25519", 32)).Public().(ed25519.PublicKey))
	out["ed25519"] = multikey(0xed, edPub)
	out["x25519"] = multikey(0xec, detBytes("key-x25519", 32))
	for name, c := range map[string]struct {
		curve elliptic.Curve
		code  uint64
	}{"p256": {elliptic.P256(), 0x1200}, "p384": {elliptic.P384(), 0x1201}, "p521": {elliptic.P521(), 0x1202}} {
		k := detEC(c.curve, "key-"+name)
		out[name] = multikey(c.code, elliptic.MarshalCompressed(c.curve, k.X, k.Y))
	}
	out["rsa2048"] = multikey(0x1205, x509.MarshalPKCS1PublicKey(detRSA(2048, "key-rsa2048")))
	out["rsa1024"] = multikey(0x1205, x509.MarshalPKCS1PublicKey(detRSA(1024, "key-rsa1024")))
	sec := detBytes("key-secp256k1", 33)
	sec[0] = 2
	out["secp256k1"] = multikey(0xe7, sec)
	out["bls12381g2"] = multikey(0xeb, make([]byte, 96))
	out["unknown-codec"] = multikey(0x55, edPub)
	out["empty-key"] = multikey(0xed, nil)
	return out
}

func buildPureCases(t *testing.T) (cases []pureCase, bases int) {
	jw := jwkDIDs(t)
	for _, name := range sortedKeys(jw) {
		enc := jw[name]
		bases++
		cases = append(cases, pureCase{Section: "pure", DID: "did:jwk:" + enc, Desc: "base " + name})
		for _, m := range stringMutants("did:jwk:", enc, b64) {
			m.Desc = name + " " + m.Desc
			cases = append(cases, m)
		}
		// every single mutation of the JWK document itself
		raw, _ := base64.RawStdEncoding.DecodeString(enc)
		doc, _ := enum.Decode(raw)
		for _, m := range enum.Singles(doc, enum.Options{Hostile: true, NoBigString: true}) {
			cases = append(cases, pureCase{Section: "pure", DID: "did:jwk:" + base64.RawStdEncoding.EncodeToString(m.Bytes()), Desc: name + " jwk:" + m.Desc()})
		}
		for _, b := range enum.Truncations(raw) {
			cases = append(cases, pureCase{Section: "pure", DID: "did:jwk:" + base64.RawStdEncoding.EncodeToString(b), Desc: name + " jwk:truncated"})
		}
		for _, b := range enum.DuplicateMembers(raw, `"x"`) {
			cases = append(cases, pureCase{Section: "pure", DID: "did:jwk:" + base64.RawStdEncoding.EncodeToString(b), Desc: name + " jwk:duplicate-member"})
		}
		cases = append(cases, pureCase{Section: "pure", DID: "did:jwk:" + base64.RawURLEncoding.EncodeToString(raw), Desc: name + " base64url"})
		cases = append(cases, pureCase{Section: "pure", DID: "did:jwk:" + base64.StdEncoding.EncodeToString(raw), Desc: name + " padded"})
	}
	kd := keyDIDs()
	for _, name := range sortedKeys(kd) {
		enc := kd[name]
		bases++
		cases = append(cases, pureCase{Section: "pure", DID: "did:key:" + enc, Desc: "base " + name})
		for _, m := range stringMutants("did:key:", enc, b58) {
			m.Desc = name + " " + m.Desc
			cases = append(cases, m)
		}
	}
	return
}

// identifierClass names the structural class of a did:jwk / did:key identifier for signatures: key type and the JWK
// members that are empty.
func identifierClass(id did.DID) string {
	if id.Method != "jwk" {
		return "other"
	}
	raw, err := base64.RawStdEncoding.DecodeString(id.ID)
	if err != nil {
		return "undecodable"
	}
	var m map[string]any
	if json.Unmarshal(raw, &m) != nil {
		return "not-an-object"
	}
	cls := fmt.Sprint(m["kty"])
	for _, k := range []string{"crv", "d", "e", "n", "x", "y"} {
		if v, ok := m[k]; ok {
			// "" and null both decode to a zero value
			if s, isStr := v.(string); v == nil || (isStr && strings.Trim(s, "A=") == "") {
				cls += ":" + k + "-empty"
			}
		}
	}
	return cls
}

func sortedKeys(m map[string]string) []string {
	ks := make([]string, 0, len(m))
	for k := range m {
		ks = append(ks, k)
	}
	sort.Strings(ks)
	return ks
}

func docString(d *did.Document) string {
	b, err := json.Marshal(d)
	if err != nil {
		return "marshal error: " + err.Error()
	}
	return string(b)
}

func resolveSafely(rt resolver.DIDResolver, id did.DID, md *resolver.ResolveMetadata) (doc *did.Document, err error, pan any) {
	defer func() {
		if p := recover(); p != nil {
			pan = p
		}
	}()
	doc, _, err = rt.Resolve(id, md)
	return
}

func runPureCase(r *ev.Run, rt resolver.DIDResolver, c pureCase, sawBase64URLRefusal *bool) {
	id, perr := did.ParseDID(c.DID)
	if perr != nil {
		r.Eval("")
		r.Outcome("jwk/key: not a DID")
		return
	}
	method := id.Method
	l := theLab()
	l.Take()
	past := time.Unix(1000, 0)
	d1, e1, p1 := resolveSafely(rt, *id, nil)
	d2, e2, p2 := resolveSafely(rt, *id, &resolver.ResolveMetadata{ResolveTime: &past, AllowDeactivated: true})
	hits, dials := l.Take()
	r.Eval(c.DID)
	if p1 != nil || p2 != nil {
		r.Outcome(method + ": panic")
		r.Observation("did:"+method+" resolver panics on a malformed identifier (C19 territory; no document is returned)", map[string]any{"did": c.DID, "desc": c.Desc, "panic": fmt.Sprint(p1, p2)})
		return
	}
	if len(hits)+len(dials) > 0 {
		r.Violation("C18|"+method+"|outbound-request", fmt.Sprintf("resolving %q (%s) caused %d outbound attempts", c.DID, c.Desc, len(hits)+len(dials)), c)
	}
	// a few more rounds: purity is about every repetition, and the one impurity found so far depends on allocator state
	verdicts := map[bool]int{e1 == nil: 1}
	verdicts[e2 == nil]++
	for i := 0; i < 6; i++ {
		_, e, _ := resolveSafely(rt, *id, nil)
		verdicts[e == nil]++
	}
	if len(verdicts) > 1 {
		r.Violation("C18|"+method+"|impure|verdict-differs|"+identifierClass(*id), fmt.Sprintf("resolving %q (%s) eight times: %d times a document, %d times an error (%v %v)", c.DID, c.Desc, verdicts[true], verdicts[false], e1, e2), c)
		return
	}
	if e1 != nil {
		r.Outcome(method + ": refused")
		if strings.HasSuffix(c.Desc, "base64url") && strings.ContainsAny(id.ID, "-_") {
			*sawBase64URLRefusal = true
		}
		if strings.HasPrefix(c.Desc, "base ") {
			r.Outcome(method + ": base identifier refused (" + strings.TrimPrefix(c.Desc, "base ") + ")")
		}
		return
	}
	r.Outcome(method + ": resolved")
	if s1, s2 := docString(d1), docString(d2); s1 != s2 {
		r.Violation("C18|"+method+"|impure|document-differs", fmt.Sprintf("resolving %q twice gives different documents", c.DID), c)
	}
	if d1.ID.String() != c.DID || d1.ID.String() != id.String() {
		r.Violation("C18|"+method+"|id-differs", fmt.Sprintf("resolving %q (%s) returned a document with id %q", c.DID, c.Desc, d1.ID.String()), c)
	}
	for _, vm := range d1.VerificationMethod {
		if vm.ID.DID.String() != c.DID || vm.Controller.String() != c.DID {
			r.Observation("did:"+method+" document has a verification method that does not belong to the DID", map[string]any{"did": c.DID, "vm": vm.ID.String()})
		}
	}
	if strings.Contains(c.Desc, "jwk:") && strings.Contains(docString(d1), `"d":`) {
		r.Observation("did:jwk with private key material resolves", c.Desc)
	}
}

func sectionPure(t *testing.T, r *ev.Run) {
	theLab()
	rt := newRouter()
	keySeed = r.Seed()
	cases, bases := buildPureCases(t)
	r.Bound("jwk_key_base_identifiers", bases)
	r.Bound("jwk_key_identifier_mutants", len(cases))
	// vacuity guard: the well-formed base identifiers of the common key types resolve
	okBases := 0
	var b64urlRefused bool
	for idx, c := range cases {
		if strings.HasPrefix(c.Desc, "base ") {
			id, err := did.ParseDID(c.DID)
			if err == nil {
				if d, e, _ := resolveSafely(rt, *id, nil); e == nil && d != nil {
					okBases++
				}
			}
		}
		if !r.Mine(idx) {
			continue
		}
		if idx%512 == 0 && r.Expired() {
			break
		}
		runPureCase(r, rt, c, &b64urlRefused)
	}
	if okBases < 8 {
		t.Fatalf("only %d of %d base did:jwk/did:key identifiers resolve (harness broken)", okBases, bases)
	}
	if b64urlRefused {
		r.Observation("did:jwk identifiers in base64url containing '-' or '_' are refused (the resolver decodes with the standard alphabet); no wrong document results", nil)
	}
}
