package c18

import (
	"encoding/json"
	"fmt"
	nethttp "net/http"
	"strings"
	"sync"
	"testing"

	"github.com/nuts-foundation/go-did/did"
	"github.com/nuts-foundation/nuts-node/http/client"
	"github.com/nuts-foundation/nuts-node/vdr/didweb"

	"verif/ev"
)

// Resolution HISTORIES through the caching client (client.NewWithCache over the caching transport that http.Engine installs — the
// client the VDR gives its did:web resolver): sequences of resolutions over SIBLING identifiers, i.e. identifiers that differ only in
// encoding / case / default port and whose locations are therefore easily confused by anything that normalises URLs (a cache key).
// The server serves a DIFFERENT document at every exact location (the document carries the location it was served at) and marks its
// answers cacheable or not. Oracle per resolution: a returned document is the one served at exactly the location the identifier
// encodes — fetched now or cached from an earlier fetch of that SAME location — and its id is the DID.

// canonical location of a request as the server sees it: lower-case host without default port + the raw (undecoded) path
func canonicalLocation(host, rawPath string) string {
	h := strings.TrimSuffix(strings.ToLower(host), ":443")
	return "https://" + h + rawPath
}

var (
	locMu     sync.Mutex
	locClaims = map[string]string{} // canonical location -> id that the document there claims (default: the id its location encodes)
)

// /<nonce>/loc-<cacheable|nostore>/<segments…>/did.json
func locHandler(w nethttp.ResponseWriter, r *nethttp.Request) {
	raw := r.URL.EscapedPath()
	if r.URL.RawPath == "" {
		raw = r.RequestURI
		if i := strings.IndexByte(raw, '?'); i >= 0 {
			raw = raw[:i]
		}
	}
	loc := canonicalLocation(r.Host, raw)
	segs := strings.Split(strings.TrimPrefix(strings.TrimSuffix(raw, "/did.json"), "/"), "/")
	id := "did:web:" + strings.ReplaceAll(r.Host, ":", "%3A") + ":" + strings.Join(segs, ":")
	locMu.Lock()
	if c, ok := locClaims[loc]; ok {
		id = c
	}
	locMu.Unlock()
	w.Header().Set("Content-Type", "application/did+json")
	if strings.Contains(raw, "/loc-cacheable/") {
		w.Header().Set("Cache-Control", "max-age=300")
	} else {
		w.Header().Set("Cache-Control", "no-store")
	}
	fmt.Fprintf(w, `{"@context":["https://www.w3.org/ns/did/v1"],"id":%q,"service":[{"id":%q,"type":"verif-served-at","serviceEndpoint":%q}]}`, id, id+"#served-at", loc)
}

type histCase struct {
	Section   string   `json:"section"`
	Cacheable bool     `json:"cacheable"`
	Attack    bool     `json:"attack"`   // the first location publishes a document that claims the id of the second identifier
	Siblings  []string `json:"siblings"` // sibling names, in resolution order
}

// sibling identifiers of the location <host>/<nonce>/loc-x/a/b
var siblingOrder = []string{"a:b", "a%2Fb", "a%2fb", "A:B", "host-upper:a:b", "host-mixed:a:b", "port-443:a:b", "a:b%2F", "a%2Fb%2F", "a:%62"}

func siblingDID(name, prefix string) string {
	host := hostOrigin
	rest := name
	switch {
	case strings.HasPrefix(name, "host-upper:"):
		host, rest = strings.ToUpper(hostOrigin), strings.TrimPrefix(name, "host-upper:")
	case strings.HasPrefix(name, "host-mixed:"):
		host, rest = "Origin.Verif-Lab.NL", strings.TrimPrefix(name, "host-mixed:")
	case strings.HasPrefix(name, "port-443:"):
		host, rest = hostOrigin+"%3A443", strings.TrimPrefix(name, "port-443:")
	}
	return "did:web:" + host + ":" + prefix + ":" + rest
}

var (
	histResolver *didweb.Resolver
	histOnce     sync.Once
)

func runHistCase(r *ev.Run, c histCase) {
	l := theLab()
	histOnce.Do(func() {
		// what http.Engine.Configure does with its default cache size, then the resolver as vdr.Configure creates it
		client.DefaultCachingTransport = client.NewCachingTransport(client.SafeHttpTransport, 10*1024*1024)
		histResolver = didweb.NewResolver()
	})
	client.StrictMode = true
	defer func() { client.StrictMode = false }()
	mode := "loc-nostore"
	if c.Cacheable {
		mode = "loc-cacheable"
	}
	prefix := nextNonce() + ":" + mode
	dids := make([]did.DID, len(c.Siblings))
	expect := make([]string, len(c.Siblings))
	for i, s := range c.Siblings {
		id, err := did.ParseDID(siblingDID(s, prefix))
		if err != nil {
			r.Eval("")
			return
		}
		dids[i] = *id
		u, err := didweb.DIDToURL(*id)
		if err != nil {
			r.Eval("")
			return
		}
		expect[i] = canonicalLocation(u.Host, u.EscapedPath()+"/did.json")
	}
	if c.Attack && len(dids) >= 2 {
		locMu.Lock()
		locClaims[expect[0]] = dids[1].String()
		locMu.Unlock()
		defer func() { locMu.Lock(); delete(locClaims, expect[0]); locMu.Unlock() }()
	}
	r.Eval(ev.Key(c))
	var trace []string
	for i, id := range dids {
		l.Take()
		doc, _, err := histResolver.Resolve(id, nil)
		hits, _ := l.Take()
		var reqs []string
		for _, h := range hits {
			reqs = append(reqs, canonicalLocation(h.Host, strings.SplitN(h.URI, "?", 2)[0]))
		}
		step := fmt.Sprintf("%d: %s -> requests %v", i+1, id.String(), reqs)
		if err != nil {
			trace = append(trace, step+" error")
			r.Outcome(fmt.Sprintf("history step: refused, requests=%d", len(reqs)))
			continue
		}
		servedAt := ""
		for _, s := range doc.Service {
			if s.Type == "verif-served-at" {
				var ep string
				_ = s.UnmarshalServiceEndpoint(&ep)
				servedAt = ep
			}
		}
		if servedAt == "" {
			b, _ := json.Marshal(doc.Service)
			servedAt = "unknown: " + string(b)
		}
		trace = append(trace, step+" document served at "+servedAt)
		r.Outcome(fmt.Sprintf("history step: resolved, from-cache=%v", len(reqs) == 0))
		class := "sequence " + strings.Join(c.Siblings[:i+1], " , ")
		if doc.ID.String() != id.String() {
			r.Violation("C18|web|history|id-differs", fmt.Sprintf("history %v: resolving %s returned id %s", trace, id, doc.ID), c)
		}
		if servedAt != expect[i] {
			r.Violation("C18|web|history|document-from-another-location", fmt.Sprintf("%s (cacheable=%v, attack=%v): resolving %s returned the document served at %s, the identifier encodes %s; history: %v", class, c.Cacheable, c.Attack, id, servedAt, expect[i], trace), c)
		}
		for _, q := range reqs {
			if q != expect[i] {
				r.Violation("C18|web|history|request-to-another-location", fmt.Sprintf("%s: resolving %s requested %s, the identifier encodes %s", class, id, q, expect[i]), c)
			}
		}
	}
	r.Sample(map[string]any{"case": c, "trace": trace})
}

func buildHistCases() []histCase {
	var out []histCase
	for _, cacheable := range []bool{true, false} {
		for _, attack := range []bool{false, true} {
			for _, a := range siblingOrder {
				for _, b := range siblingOrder {
					out = append(out, histCase{Section: "histories", Cacheable: cacheable, Attack: attack, Siblings: []string{a, b}})
					for _, c := range siblingOrder {
						// length 3: the third resolution repeats one of the first two or brings in a third sibling
						out = append(out, histCase{Section: "histories", Cacheable: cacheable, Attack: attack, Siblings: []string{a, b, c}})
					}
				}
			}
		}
	}
	return out
}

func sectionHistories(t *testing.T, r *ev.Run) {
	theLab()
	// vacuity guards: caching is really on (the second resolution of the same cacheable identifier makes no request), and off for no-store
	for _, cacheable := range []bool{true, false} {
		l := theLab()
		c := histCase{Section: "histories", Cacheable: cacheable, Siblings: []string{"a:b", "a:b"}}
		before := r.Violations()
		runHistCase(r, c)
		_ = before
		mode := "loc-nostore"
		if cacheable {
			mode = "loc-cacheable"
		}
		id := did.MustParseDID(siblingDID("a:b", nextNonce()+":"+mode))
		client.StrictMode = true
		l.Take()
		_, _, e1 := histResolver.Resolve(id, nil)
		h1, _ := l.Take()
		_, _, e2 := histResolver.Resolve(id, nil)
		h2, _ := l.Take()
		client.StrictMode = false
		if e1 != nil || e2 != nil || len(h1) != 1 {
			t.Fatalf("history lab broken: %v %v first=%d", e1, e2, len(h1))
		}
		if cacheable && len(h2) != 0 {
			t.Fatalf("the caching client does not cache a max-age answer (second resolution made %d requests): the histories would be vacuous", len(h2))
		}
		if !cacheable && len(h2) != 1 {
			t.Fatalf("a no-store answer was cached")
		}
	}
	cases := buildHistCases()
	r.Bound("web_history_cases", len(cases))
	r.Bound("web_history_siblings", len(siblingOrder))
	for idx, c := range cases {
		if !r.Mine(idx + 3) {
			continue
		}
		if idx%256 == 0 && r.Expired() {
			break
		}
		runHistCase(r, c)
	}
}
