package c18

import (
	"errors"
	"fmt"
	"strings"
	"testing"
	"time"

	ssi "github.com/nuts-foundation/go-did"
	"github.com/nuts-foundation/go-did/did"
	"github.com/nuts-foundation/nuts-node/audit"
	"github.com/nuts-foundation/nuts-node/core"
	"github.com/nuts-foundation/nuts-node/storage"
	"github.com/nuts-foundation/nuts-node/test/node"
	"github.com/nuts-foundation/nuts-node/vdr"
	"github.com/nuts-foundation/nuts-node/vdr/didsubject"
	"github.com/nuts-foundation/nuts-node/vdr/resolver"
	"gorm.io/gorm"

	"verif/ev"
)

// managedCase: one cell of local history x resolution metadata, for one DID method.
type managedCase struct {
	Section string `json:"section"`
	History string `json:"history"` // v1 | v1-v2 | v1-v2-deactivated | v1-deactivated | orphan-row
	Method  string `json:"method"`  // web | nuts
	Time    string `json:"time"`    // nil | before-first | at-first | between | at-last | after | far-future
	Allow   bool   `json:"allow_deactivated"`
	Clock   string `json:"clock,omitempty"` // clock grid: offset of the newest version's row time relative to the node's clock
}

type history struct {
	name    string
	subject string
	dids    map[string]did.DID // method -> DID
	times   []int64            // updated_at of version 0,1,2… of the did:web document (after spacing)
	deact   bool               // last version is the deactivation
}

// spaceVersions rewrites the timestamps of the did:web versions so that they are 100 s apart in the past (versions are
// stamped with second resolution, so histories built in one go would otherwise be indistinguishable in time).
func spaceVersions(t *testing.T, db *gorm.DB, id did.DID, n int, base int64) []int64 {
	var times []int64
	for v := 0; v < n; v++ {
		ts := base + int64(v)*100
		res := db.Exec("UPDATE did_document_version SET created_at = ?, updated_at = ? WHERE did = ? AND version = ?", base, ts, id.String(), v)
		if res.Error != nil || res.RowsAffected != 1 {
			t.Fatalf("spacing version %d of %s: %v (rows %d)", v, id, res.Error, res.RowsAffected)
		}
		times = append(times, ts)
	}
	return times
}

func sectionManaged(t *testing.T, r *ev.Run) {
	l := theLab()
	_, _, system := node.StartServer(t, func(internalURL, _ string) {
		t.Setenv("NUTS_DIDMETHODS", "web,nuts")
		// the helper polls /status on the internal listener through a clone of http.DefaultTransport, which dials into the lab
		l.Passthrough(strings.TrimPrefix(internalURL, "http://"))
	})
	l.Take()
	vdrEngine := system.FindEngineByName("vdr")
	v, ok1 := vdrEngine.(vdr.VDR)
	mgr, ok2 := vdrEngine.(didsubject.Manager)
	se, ok3 := system.FindEngineByName("storage").(storage.Engine)
	if !ok1 || !ok2 || !ok3 {
		t.Fatalf("engine lookup failed: %v %v %v", ok1, ok2, ok3)
	}
	db := se.GetSQLDatabase()
	ctx := audit.TestContext()
	base := time.Now().Unix() - 1000

	build := func(name string, update, deactivate bool) history {
		docs, subject, err := mgr.Create(ctx, didsubject.DefaultCreationOptions())
		if err != nil {
			t.Fatalf("create subject for history %s: %v", name, err)
		}
		h := history{name: name, subject: subject, dids: map[string]did.DID{}, deact: deactivate}
		for _, d := range docs {
			h.dids[d.ID.Method] = d.ID
		}
		n := 1
		if update {
			if _, err := mgr.CreateService(ctx, subject, did.Service{Type: "verif-service", ServiceEndpoint: "https://example.nl/x"}); err != nil {
				t.Fatalf("update for history %s: %v", name, err)
			}
			n++
		}
		if deactivate {
			if err := mgr.Deactivate(ctx, subject); err != nil {
				t.Fatalf("deactivate for history %s: %v", name, err)
			}
			n++
		}
		h.times = spaceVersions(t, db, h.dids["web"], n, base)
		return h
	}
	hs := []history{build("v1", false, false), build("v1-v2", true, false), build("v1-v2-deactivated", true, true), build("v1-deactivated", false, true)}
	// an orphan row: a DID registered as managed, without any document version (what a failed create leaves behind)
	orphan := did.MustParseDID(strings.Replace(hs[0].dids["web"].String(), hs[0].dids["web"].ID[strings.LastIndex(hs[0].dids["web"].ID, ":")+1:], "verif-orphan", 1))
	if err := db.Exec("INSERT INTO did (id, subject) VALUES (?, ?)", orphan.String(), "verif-orphan").Error; err != nil {
		t.Fatalf("orphan row: %v", err)
	}
	hs = append(hs, history{name: "orphan-row", subject: "verif-orphan", dids: map[string]did.DID{"web": orphan}})
	if len(hs[0].dids) != 2 {
		t.Fatalf("expected a did:web and a did:nuts DID per subject, got %v", hs[0].dids)
	}

	rs := v.Resolver()
	// vacuity guard: an active managed DID resolves locally
	l.Take()
	if doc, _, err := rs.Resolve(hs[0].dids["web"], nil); err != nil || !doc.ID.Equals(hs[0].dids["web"]) {
		t.Fatalf("managed did:web does not resolve: %v", err)
	}
	if hits, dials := l.Take(); len(hits)+len(dials) > 0 {
		r.Violation("C18|managed|outbound-request|web|active-latest", fmt.Sprintf("resolving the active managed DID %s caused outbound attempts %v", hs[0].dids["web"], dials), managedCase{Section: "managed", History: "v1", Method: "web", Time: "nil"})
	}

	cells := 0
	for _, h := range hs {
		for method, id := range h.dids {
			for _, tm := range []string{"nil", "before-first", "at-first", "between", "at-last", "after", "far-future"} {
				var rt *time.Time
				var at int64 // effective "not after" used by the reference
				last := int64(0)
				if len(h.times) > 0 {
					last = h.times[len(h.times)-1]
				}
				switch tm {
				case "nil":
					at = time.Now().Unix() + 3600
				case "before-first":
					at = base - 500
				case "at-first":
					at = base
				case "between":
					if len(h.times) < 2 {
						continue
					}
					at = h.times[0] + 50
				case "at-last":
					at = last
				case "after":
					at = last + 50
				case "far-future":
					at = time.Now().Unix() + 10*365*86400
				}
				if tm != "nil" {
					x := time.Unix(at, 0)
					rt = &x
				}
				if method == "nuts" && tm != "nil" && tm != "far-future" && tm != "before-first" {
					continue // did:nuts versions carry their own (transaction) times; only the unambiguous instants are used
				}
				for _, allow := range []bool{false, true} {
					c := managedCase{Section: "managed", History: h.name, Method: method, Time: tm, Allow: allow}
					var md *resolver.ResolveMetadata
					if rt != nil || allow {
						md = &resolver.ResolveMetadata{ResolveTime: rt, AllowDeactivated: allow}
					}
					l.Take()
					doc, meta, err := rs.Resolve(id, md)
					hits, dials := l.Take()
					cells++
					r.Eval(ev.Key(c))
					// reference: which version is current at `at` (did:web; did:nuts: latest unless before-first)
					version := -1
					for i, ts := range h.times {
						if ts <= at {
							version = i
						}
					}
					if method == "nuts" {
						version = len(h.times) - 1
						if tm == "before-first" {
							version = -1
						}
					}
					deactivatedThen := h.deact && version == len(h.times)-1 && version >= 0
					outcome := "error"
					if err == nil {
						outcome = "resolved"
					} else if errors.Is(err, resolver.ErrDeactivated) {
						outcome = "deactivated"
					} else if errors.Is(err, resolver.ErrNotFound) {
						outcome = "not-found"
					}
					r.Outcome(fmt.Sprintf("managed %s: version-exists=%v deactivated=%v allow=%v -> %s, outbound=%v", method, version >= 0, deactivatedThen, allow, outcome, len(hits)+len(dials) > 0))
					r.Sample(map[string]any{"case": c, "did": id.String(), "outcome": outcome, "error": fmt.Sprint(err), "dials": dials})

					// (1) no network access for a managed DID
					if len(hits)+len(dials) > 0 {
						what := fmt.Sprintf("resolving managed DID %s (history %s, resolve time %s, allow deactivated %v) caused outbound attempts: %v", id, h.name, tm, allow, dials)
						switch {
						case h.name == "orphan-row":
							r.Observation("a DID row without any document version (left-over of a failed create) is looked up on the web", what)
						case version < 0:
							r.Violation("C18|managed|outbound-request|"+method+"|resolve-time-before-first-version", what, c)
						default:
							r.Violation("C18|managed|outbound-request|"+method+"|version-exists", what, c)
						}
					}
					// (2) the document is the DID's
					if err == nil && (doc == nil || !doc.ID.Equals(id)) {
						r.Violation("C18|managed|id-differs|"+method, fmt.Sprintf("resolving managed DID %s returned a document with id %v", id, doc.ID), c)
					}
					// (3) deactivated => does not resolve unless allowed
					if deactivatedThen && !allow && err == nil {
						when := "as-of-a-time-after-deactivation"
						if tm == "nil" {
							when = "latest"
						}
						r.Violation("C18|managed|deactivated-resolves|"+method+"|"+when, fmt.Sprintf("deactivated managed DID %s resolves without AllowDeactivated (history %s, resolve time %s): returned document has %d verification methods", id, h.name, tm, len(doc.VerificationMethod)), c)
					}
					if deactivatedThen && allow && err != nil {
						r.Observation("deactivated managed DID does not resolve although the caller allows it: "+method, map[string]any{"case": c, "error": err.Error()})
					}
					if deactivatedThen && allow && err == nil && meta != nil && !meta.Deactivated {
						r.Observation("deactivated managed DID resolves (allowed) but the metadata does not say deactivated: "+method, c)
					}
					if !deactivatedThen && version >= 0 && err != nil && h.name != "orphan-row" {
						r.Observation("an existing, active version of a managed DID does not resolve: "+method, map[string]any{"case": c, "error": err.Error()})
					}
				}
			}
		}
	}
	r.Bound("managed_cells", cells)
	r.Bound("managed_histories", len(hs))
	clockGrid(t, r, db, rs, build)
	_ = ssi.URI{}
	_ = core.ServerConfig{}
}

// clockGrid: the newest version of a managed did:web carries row times (created_at / updated_at, as the SQL rows hold them) that
// lie before, at or AHEAD of the resolving node's clock — a second node on the same database with a skewed clock, a clock stepped
// back after the write, a migrated history. The resolver's query tolerates one hour (`time.Now().Add(time.Hour)` in
// SqlDIDDocumentManager.Latest); within that slack the newest version is the state of the DID "now", so:
// no outbound request, and a DID whose newest version is the deactivation does not resolve unless allowed. Beyond the slack, and
// for "as of now" / "as of one second before the version", invisibility is legitimate: outcomes only.
// The row time is written immediately before each resolution and every judged cell is >= 60 s away from the one-hour bound.
func clockGrid(t *testing.T, r *ev.Run, db *gorm.DB, rs resolver.DIDResolver, build func(name string, update, deactivate bool) history) {
	l := theLab()
	type kind struct {
		name string
		h    history
	}
	kinds := []kind{{"first-version", build("clock-first", false, false)}, {"update", build("clock-update", true, false)}, {"deactivation", build("clock-deactivation", true, true)}}
	offsets := []struct {
		name   string
		sec    int64
		within bool // within the product's slack: the version is part of the DID's state now
	}{{"-1h", -3600, true}, {"-1s", -1, true}, {"0", 0, true}, {"+1s", 1, true}, {"+30s", 30, true}, {"+5min", 300, true}, {"+59min", 3540, true}, {"+61min", 3660, false}}
	cells := 0
	for _, k := range kinds {
		id := k.h.dids["web"]
		newest := len(k.h.times) - 1
		for _, off := range offsets {
			for _, md := range []string{"nil", "allow-deactivated", "resolve-time=now", "resolve-time=version-1s", "resolve-time=version+1s"} {
				now := time.Now().Unix()
				vt := now + off.sec
				if res := db.Exec("UPDATE did_document_version SET created_at = ?, updated_at = ? WHERE did = ? AND version = ?", vt, vt, id.String(), newest); res.Error != nil || res.RowsAffected != 1 {
					t.Fatalf("clock grid: setting the row time of %s: %v", id, res.Error)
				}
				var m *resolver.ResolveMetadata
				judged := off.within
				switch md {
				case "allow-deactivated":
					m = &resolver.ResolveMetadata{AllowDeactivated: true}
				case "resolve-time=now":
					x := time.Unix(now, 0)
					m = &resolver.ResolveMetadata{ResolveTime: &x}
					judged = off.sec <= -1 // "as of now" only speaks about versions that are in the past
				case "resolve-time=version-1s":
					x := time.Unix(vt-1, 0)
					m = &resolver.ResolveMetadata{ResolveTime: &x}
					judged = false // the version does not exist yet at that time
				case "resolve-time=version+1s":
					x := time.Unix(vt+1, 0)
					m = &resolver.ResolveMetadata{ResolveTime: &x}
					judged = true // as of a time after the version, whatever the clock says
				}
				c := managedCase{Section: "managed", History: k.name, Method: "web", Time: md, Allow: md == "allow-deactivated", Clock: off.name}
				l.Take()
				doc, _, err := rs.Resolve(id, m)
				hits, dials := l.Take()
				cells++
				r.Eval(ev.Key(c))
				outcome := "error"
				switch {
				case err == nil:
					outcome = "resolved"
				case errors.Is(err, resolver.ErrDeactivated):
					outcome = "deactivated"
				case errors.Is(err, resolver.ErrNotFound):
					outcome = "not-found"
				}
				outbound := len(hits)+len(dials) > 0
				r.Outcome(fmt.Sprintf("clock grid newest=%s within-slack=%v judged=%v %s -> %s outbound=%v", k.name, off.within, judged, mdClass(md), outcome, outbound))
				when := "newest-version-not-ahead-of-clock"
				if off.sec > 0 {
					when = "newest-version-ahead-of-clock"
				}
				what := fmt.Sprintf("managed %s whose newest version (%s) is stamped %s relative to the node's clock, resolved with %s: %s, outbound attempts %v", id, k.name, off.name, md, outcome, dials)
				if !judged {
					if outbound && !(md == "resolve-time=version-1s" && k.name == "first-version") {
						r.Observation("clock grid, not judged: outbound request for a managed DID ("+k.name+" "+off.name+" "+mdClass(md)+")", nil)
					}
					continue
				}
				if outbound {
					r.Violation("C18|managed|outbound-request|web|"+when, what, c)
				}
				if err == nil && (doc == nil || !doc.ID.Equals(id)) {
					r.Violation("C18|managed|id-differs|web", what, c)
				}
				if k.name == "deactivation" && md != "allow-deactivated" && err == nil {
					r.Violation("C18|managed|deactivated-resolves|web|"+when, what+" — the previous, active version was returned", c)
				}
				if k.name == "deactivation" && md == "allow-deactivated" && err != nil {
					r.Observation("clock grid: deactivated managed DID does not resolve although allowed ("+off.name+")", err.Error())
				}
				if k.name != "deactivation" && err != nil && !outbound {
					r.Observation("clock grid: an active managed DID within the slack does not resolve ("+k.name+" "+off.name+" "+mdClass(md)+")", err.Error())
				}
			}
		}
	}
	r.Bound("managed_clock_cells", cells)
}

func mdClass(md string) string { return strings.ReplaceAll(md, "resolve-time=", "as-of-") }
