// C18 — DID resolution binds the document to the identifier and to the right origin.
//
// One test binary, sections sharing one evidence collector:
//
//	grammar   did:web identifier grammar to depth 3 through DIDToURL / URLToDID / Resolver.Resolve (recording doer)   grammar_test.go
//	answers   server-answer alphabet against the real strict client and in-process TLS/plain listeners                  answers_test.go
//	pure      did:jwk / did:key: purity and every single mutation of the identifier                                       pure_test.go
//	managed   managed DIDs on the assembled node: local histories x resolution metadata, zero outbound requests          managed_test.go
//	ops       (own part, TestVerifC18Ops) operation histories on managed DIDs x every resolver entry point x metadata        ops_test.go
//
// model.go holds the reference predicates. VERIF_C18_ONLY=grammar,… restricts the sections (debugging).
package c18

import (
	"io"
	"os"
	"strings"
	"testing"

	"github.com/sirupsen/logrus"

	"verif/ev"
)

func want(section string) bool {
	only := os.Getenv("VERIF_C18_ONLY")
	if only == "" {
		return true
	}
	for _, s := range strings.Split(only, ",") {
		if s == section {
			return true
		}
	}
	return false
}

func TestVerifC18(t *testing.T) {
	r := ev.Start(t, "C18")
	defer r.Finish()
	logrus.SetOutput(io.Discard)
	theLab()
	r.Rule("(grammar) did:web identifiers = host token x port token x 0..3 path-segment tokens (every combination; the deepest level for the representative hosts in the quick tier) " +
		"through ParseDIDURL, DIDToURL, URLToDID and Resolver.Resolve with a recording HTTP doer; a case = one distinct DID string; judged: scheme, user-info, host equality, " +
		"IP literal, query/fragment, path segments of DIDToURL's URL and of the request actually made, document id, round-trip law on the stated domain; " +
		"the other direction: https URLs of domain hosts x boundary ports x node/tenant paths through URLToDID and back (origin encoded exactly, canonical URLs come back). " +
		"(answers) id-variant x content-type, status x content-type, body shapes with a recording doer; 3xx codes x redirect targets {same host other path, other host, IP, http same/other host, two hops} " +
		"with the real strict client against in-process TLS/plain listeners, strict on and off, with and without port. " +
		"(pure) did:jwk / did:key base identifiers of every supported key type x every single string mutation at every position (delete, duplicate, next character, swap, truncate, foreign characters, " +
		"append/prepend alphabet) and every enum.Singles mutation, truncation and duplicate member of the JWK document; each resolved twice through the method router with different metadata. " +
		"(managed) assembled node, subjects with did:web + did:nuts, histories {v1, v1-v2, v1-v2-deactivated, v1-deactivated, orphan row} x resolve time {nil, before first, at first, between, at last, after, far future} x AllowDeactivated")
	r.Assume("the in-process listeners stand for the internet: names are routed by SafeHttpTransport.DialContext / http.DefaultTransport; a name without a route is recorded as an outbound attempt and refused")
	r.Assume("`only over HTTPS` is judged with strict mode on (the default); with strict mode off plain HTTP is what the operator configured (C20)")
	r.Assume("did:web version timestamps are rewritten by SQL to lie 100 s apart in the past (second resolution otherwise makes one-go histories indistinguishable)")

	var probe struct {
		Section string `json:"section"`
		ID      string `json:"id"`
	}
	if r.ReplayCase(&probe) {
		switch probe.Section {
		case "redirects":
			var c redirCase
			r.ReplayCase(&c)
			runRedirCase(r, c)
		case "pure":
			var c pureCase
			r.ReplayCase(&c)
			var x bool
			runPureCase(r, newRouter(), c, &x)
		case "histories":
			var c histCase
			r.ReplayCase(&c)
			runHistCase(r, c)
		case "managed":
			sectionManaged(t, r)
		case "answers":
			sectionAnswers(t, r)
		case "ops": // part "ops" (ops_test.go)
		default:
			var c gramCase
			r.ReplayCase(&c)
			if c.Classes == "url-direction" {
				sectionURLDirection(r)
				break
			}
			var st gramStats
			runGramCase(r, c, &st)
		}
		return
	}
	if want("answers") && r.Mine(1) {
		sectionAnswers(t, r)
	}
	if want("managed") && r.Mine(2) {
		sectionManaged(t, r)
	}
	if want("histories") {
		sectionHistories(t, r)
	}
	if want("pure") {
		sectionPure(t, r)
	}
	if want("grammar") {
		sectionGrammar(t, r)
	}
}
