//go:build !amd64

package sched

import (
	"bytes"
	"runtime"
	"strconv"
)

func goid() int64 {
	var buf [64]byte
	n := runtime.Stack(buf[:], false)
	b := buf[:n]
	b = b[len("goroutine "):]
	i := bytes.IndexByte(b, ' ')
	id, _ := strconv.ParseInt(string(b[:i]), 10, 64)
	return id
}
