//go:build amd64

package sched

// getg returns the address of the running goroutine's descriptor. It identifies a harness thread for as
// long as that goroutine is alive, and costs a few nanoseconds (runtime.Stack costs microseconds and was
// half of the CPU time of deep-stack harnesses).
func getg() uintptr

func goid() int64 { return int64(getg()) }
