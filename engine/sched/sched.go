// Package sched is a cooperative ("baton") scheduler with a stateless depth-first explorer over
// scheduling choices, with iterative preemption bounding (CHESS). Harness threads are real
// goroutines that only run while they hold the baton; they hand it back at every scheduling point
// (sched.Point / sched.Acquire, called by the vsync / vatomic shims and by store / transaction
// wrappers). Blocking is virtual: a thread waiting for a lock is simply not enabled.
package sched

import (
	"fmt"
	"runtime"
	"strconv"
	"sync/atomic"
	"time"
)

type thread struct {
	id      int
	name    string
	fn      func()
	resume  chan struct{}
	done    bool
	started bool
	waiting func() bool // nil = ready
	label   string      // label of the point the thread is parked at
	goid    int64
	panicv  any
}

// PointInfo describes one choice point of an execution.
type PointInfo struct {
	Enabled        []int // thread ids in canonical order (running thread first if still enabled, then ascending)
	Labels         []string
	Chosen         int // index into Enabled
	RunningEnabled bool
}

// Exec is one execution under the scheduler.
type Exec struct {
	threads  []*thread
	cur      *thread
	yield    chan struct{}
	prefix   []int
	Points   []PointInfo
	Trace    []string // "t<id>:<label>" for every scheduled step
	Deadlock bool
	Horizon  bool
	Diverged string
	maxSteps int
	pollMs   int
	steps    int
	running  atomic.Bool
}

var active atomic.Pointer[Exec]

// Managed reports whether the caller is a harness thread currently running under the scheduler.
func Managed() bool {
	e := active.Load()
	if e == nil || e.cur == nil {
		return false
	}
	return e.cur.goid == goid()
}

// Point is a scheduling point. No-op outside an exploration or on unmanaged goroutines.
func Point(label string) {
	e := active.Load()
	if e == nil {
		return
	}
	t := e.cur
	if t == nil || t.goid != goid() {
		return
	}
	t.label = label
	e.yield <- struct{}{}
	<-t.resume
}

// Acquire is a scheduling point followed by a blocking acquisition: try must atomically take the
// resource and report success; can peeks whether try would succeed. On unmanaged goroutines it spins.
func Acquire(label string, try func() bool, can func() bool) {
	e := active.Load()
	var t *thread
	if e != nil {
		t = e.cur
	}
	if e == nil || t == nil || t.goid != goid() {
		for i := 0; !try(); i++ {
			if i < 100 {
				runtime.Gosched()
			} else {
				time.Sleep(20 * time.Microsecond)
			}
		}
		return
	}
	t.label = label
	e.yield <- struct{}{}
	<-t.resume
	for !try() {
		t.waiting = can
		t.label = label + "(blocked)"
		e.yield <- struct{}{}
		<-t.resume
	}
}

// WaitUntil parks the calling managed thread until cond holds (virtual blocking, e.g. a channel receive
// or WaitGroup.Wait). On unmanaged goroutines it spins.
func WaitUntil(label string, cond func() bool) {
	Acquire(label, cond, cond)
}

// Go registers a harness thread. Must be called from the setup function of Explore.
func (e *Exec) Go(name string, fn func()) {
	e.threads = append(e.threads, &thread{id: len(e.threads), name: name, fn: fn, resume: make(chan struct{})})
}

// Panics returns the recovered panic values of threads (nil entries for threads that returned normally).
func (e *Exec) Panics() []any {
	out := make([]any, len(e.threads))
	for i, t := range e.threads {
		out[i] = t.panicv
	}
	return out
}

// Choices returns the choice made at every point of the execution (the replayable schedule).
func (e *Exec) Choices() []int {
	out := make([]int, len(e.Points))
	for i, p := range e.Points {
		out[i] = p.Chosen
	}
	return out
}

func (e *Exec) enabled() (ids []int, labels []string, runningEnabled bool) {
	isEnabled := func(t *thread) bool {
		if t.done {
			return false
		}
		if t.waiting != nil {
			return t.waiting()
		}
		return true
	}
	if e.cur != nil && isEnabled(e.cur) {
		ids = append(ids, e.cur.id)
		labels = append(labels, e.cur.label)
		runningEnabled = true
	}
	for _, t := range e.threads {
		if t == e.cur {
			continue
		}
		if isEnabled(t) {
			ids = append(ids, t.id)
			labels = append(labels, t.label)
		}
	}
	return
}

func (e *Exec) allDone() bool {
	for _, t := range e.threads {
		if !t.done {
			return false
		}
	}
	return true
}

func (e *Exec) run() {
	for _, t := range e.threads {
		t := t
		t.label = "start"
		go func() {
			atomic.StoreInt64(&t.goid, goid())
			<-t.resume
			defer func() {
				if r := recover(); r != nil {
					buf := make([]byte, 4096)
					n := runtime.Stack(buf, false)
					t.panicv = fmt.Sprintf("%v\n%s", r, buf[:n])
				}
				t.done = true
				e.yield <- struct{}{}
			}()
			t.fn()
		}()
	}
	// wait until every goroutine has recorded its goid: they all block on resume; goid is set first
	for _, t := range e.threads {
		for atomic.LoadInt64(&t.goid) == 0 {
			runtime.Gosched()
		}
	}
	active.Store(e)
	defer active.Store(nil)
	for {
		ids, labels, runEn := e.enabled()
		if len(ids) == 0 {
			if !e.allDone() {
				// threads may wait for something an unmanaged goroutine does: re-poll briefly
				ok := false
				n := e.pollMs
				if n <= 0 {
					n = 20
				}
				for i := 0; i < n && !ok; i++ {
					time.Sleep(time.Millisecond)
					ids, labels, runEn = e.enabled()
					ok = len(ids) > 0
				}
				if !ok {
					e.Deadlock = true
					return
				}
			} else {
				return
			}
		}
		choice := 0
		if len(ids) > 1 {
			i := len(e.Points)
			if i < len(e.prefix) {
				choice = e.prefix[i]
				if choice < 0 || choice >= len(ids) {
					e.Diverged = fmt.Sprintf("choice %d out of range at point %d (enabled %v)", choice, i, ids)
					return
				}
			}
			e.Points = append(e.Points, PointInfo{Enabled: ids, Labels: labels, Chosen: choice, RunningEnabled: runEn})
		}
		t := e.threads[ids[choice]]
		e.steps++
		if e.steps > e.maxSteps {
			e.Horizon = true
			return
		}
		e.Trace = append(e.Trace, "t"+strconv.Itoa(t.id)+":"+t.label)
		t.waiting = nil
		e.cur = t
		t.resume <- struct{}{}
		<-e.yield
	}
}

// Options of an exploration.
type Options struct {
	Bound          int       // preemption bound; <0 = unbounded (complete interleaving space)
	MaxExec        int64     // cap on executions (0 = none); hitting it makes the result non-exhaustive
	Deadline       time.Time // zero = none
	MaxSteps       int       // horizon per execution (default 20000)
	Shard, NSh     int       // level-1 subtrees are dealt round-robin over NSh workers
	Replay         []int     // run exactly this schedule (and nothing else)
	SelfCheck      bool      // replay every K-th execution twice and require identical traces
	DeadlockPollMs int       // how long to re-poll before declaring a deadlock (default 20 ms; raise when unmanaged goroutines can unblock a thread)
}

// Result of an exploration.
type Result struct {
	Executions int64
	MaxPoints  int
	Exhaustive bool
	BoundDone  int
	Deadlocks  int64
	Errors     []string // machinery errors: divergence, horizon (never property verdicts)
	Capped     string
}

// Explore runs setup for every execution: it must build a fresh instance, register the threads with
// x.Go and return the function that checks the oracle once all threads have finished.
func Explore(o Options, setup func(x *Exec) (check func(x *Exec))) Result {
	if o.MaxSteps == 0 {
		o.MaxSteps = 20000
	}
	if o.NSh < 1 {
		o.NSh = 1
	}
	res := Result{Exhaustive: true, BoundDone: o.Bound}
	noCheck := false
	runOne := func(prefix []int) *Exec {
		x := &Exec{yield: make(chan struct{}), prefix: prefix, maxSteps: o.MaxSteps, pollMs: o.DeadlockPollMs}
		check := setup(x)
		x.run()
		res.Executions++
		if len(x.Points) > res.MaxPoints {
			res.MaxPoints = len(x.Points)
		}
		if x.Diverged != "" {
			res.Errors = append(res.Errors, "divergence: "+x.Diverged)
			return x
		}
		if x.Horizon {
			res.Errors = append(res.Errors, "horizon reached")
			return x
		}
		if x.Deadlock {
			res.Deadlocks++
		}
		if check != nil && !noCheck {
			check(x)
		}
		return x
	}
	if o.Replay != nil {
		runOne(o.Replay)
		return res
	}
	stop := func() bool {
		if o.MaxExec > 0 && res.Executions >= o.MaxExec {
			res.Exhaustive, res.Capped = false, "execution cap"
			return true
		}
		if !o.Deadline.IsZero() && time.Now().After(o.Deadline) {
			res.Exhaustive, res.Capped = false, "deadline"
			return true
		}
		return len(res.Errors) > 0
	}
	var explore func(prefix []int, parent *Exec, depth int, subtree int)
	nextSubtree := 0
	explore = func(prefix []int, parent *Exec, depth int, subtree int) {
		if stop() {
			return
		}
		x := runOne(prefix)
		if len(res.Errors) > 0 {
			return
		}
		if parent != nil {
			// the replayed prefix must see the same choice points as its parent did
			for i := 0; i < len(prefix)-1 && i < len(x.Points) && i < len(parent.Points); i++ {
				a, b := x.Points[i], parent.Points[i]
				if fmt.Sprint(a.Enabled, a.Labels) != fmt.Sprint(b.Enabled, b.Labels) {
					res.Errors = append(res.Errors, fmt.Sprintf("divergence while replaying prefix at point %d: %v%v vs %v%v", i, a.Enabled, a.Labels, b.Enabled, b.Labels))
					return
				}
			}
		}
		if o.SelfCheck && res.Executions%64 == 1 {
			noCheck = true
			y := runOne(append([]int{}, x.Choices()...))
			noCheck = false
			res.Executions--
			if fmt.Sprint(y.Trace) != fmt.Sprint(x.Trace) {
				res.Errors = append(res.Errors, "nondeterminism: same schedule, different trace")
				return
			}
		}
		for i := len(prefix); i < len(x.Points); i++ {
			p := x.Points[i]
			cost := 0
			for j := 0; j < i; j++ {
				if x.Points[j].RunningEnabled && x.Points[j].Chosen != 0 {
					cost++
				}
			}
			if p.RunningEnabled {
				cost++
			}
			if o.Bound >= 0 && cost > o.Bound {
				continue
			}
			for alt := 1; alt < len(p.Enabled); alt++ {
				st := subtree
				if depth == 0 {
					st = nextSubtree
					nextSubtree++
					if st%o.NSh != o.Shard {
						continue
					}
				}
				np := append(append([]int{}, x.Choices()[:i]...), alt)
				explore(np, x, depth+1, st)
				if stop() {
					return
				}
			}
		}
	}
	// the root execution belongs to shard 0 (other shards still run it to discover the subtrees)
	explore(nil, nil, 0, -1)
	if o.Shard != 0 {
		res.Executions-- // the root is counted by shard 0
	}
	return res
}
