//go:build amd64

#include "textflag.h"

// func getg() uintptr — the address of the current goroutine's g (unique while the goroutine is alive).
TEXT ·getg(SB),NOSPLIT,$0-8
	MOVQ (TLS), R14
	MOVQ R14, ret+0(FP)
	RET
