package vsync

import (
	"sync"

	"verif/sched"
)

// Pool is a scheduler-visible replacement of sync.Pool. Get and Put are scheduling points. Reuse is DETERMINISTIC
// and MAXIMAL: the pool never drops an object and Get always returns the most recently Put one (LIFO), on every
// goroutine. sync.Pool promises nothing about which object Get returns (any object Put before, or a new one), so
// "always the last one" is one of the behaviours the real type may show, and it is the one under which an object
// that is still referenced elsewhere after its Put is handed out again soonest. Harnesses that want the other
// extreme (nothing is ever reused) compare with a run where the code under test does not pool at all.
type Pool struct {
	New func() any

	mu    sync.Mutex
	reg   bool
	items []any
	gets  int
	puts  int
	hits  int
}

// Get returns the most recently Put object, or New() when the pool is empty (nil without New).
func (p *Pool) Get() any {
	sched.Point("Pool.Get")
	p.mu.Lock()
	p.register()
	p.gets++
	if n := len(p.items); n > 0 {
		x := p.items[n-1]
		p.items[n-1] = nil
		p.items = p.items[:n-1]
		p.hits++
		p.mu.Unlock()
		return x
	}
	p.mu.Unlock()
	if p.New != nil {
		return p.New()
	}
	return nil
}

// Put hands x back to the pool (nil is ignored, as sync.Pool does).
func (p *Pool) Put(x any) {
	sched.Point("Pool.Put")
	if x == nil {
		return
	}
	p.mu.Lock()
	p.register()
	p.puts++
	p.items = append(p.items, x)
	p.mu.Unlock()
}

// VerifStats reports how often Get, Put were called and how often Get returned a pooled object (for harness
// vacuity notes; not part of the sync.Pool API).
func (p *Pool) VerifStats() (gets, puts, reused int) {
	p.mu.Lock()
	defer p.mu.Unlock()
	return p.gets, p.puts, p.hits
}

var (
	poolsMu sync.Mutex
	pools   []*Pool
)

// register (called with p.mu held) records the pool in the package-level list on first use.
func (p *Pool) register() {
	if p.reg {
		return
	}
	p.reg = true
	poolsMu.Lock()
	pools = append(pools, p)
	poolsMu.Unlock()
}

// VerifResetPools empties every pool that was used so far (package-level pools of the code under test survive from
// one explored execution to the next; a harness calls this when it builds a fresh instance). It returns the number of
// pools seen and the total number of Get calls that were served with a pooled object since the previous reset.
func VerifResetPools() (n int, reused int) {
	poolsMu.Lock()
	all := append([]*Pool{}, pools...)
	poolsMu.Unlock()
	for _, p := range all {
		p.mu.Lock()
		reused += p.hits
		p.hits = 0
		p.items = nil
		p.mu.Unlock()
	}
	return len(all), reused
}

// VerifReset empties the pool (a harness starting a fresh execution on package-level pools).
func (p *Pool) VerifReset() {
	p.mu.Lock()
	p.items = nil
	p.mu.Unlock()
}
