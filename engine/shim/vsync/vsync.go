// Package vsync is a drop-in replacement for the parts of package sync that the explored
// nuts-node packages use. Under the scheduler every operation is a scheduling point and blocking
// is virtual; outside an exploration (set-up code, free-running passes) it behaves like sync.
package vsync

import (
	"fmt"
	"sort"
	"sync"

	"verif/sched"
)

type (
	Once   = sync.Once
	Locker = sync.Locker
)

// Mutex is a scheduler-visible mutual exclusion lock.
type Mutex struct {
	mu   sync.Mutex
	held bool
}

func (m *Mutex) try() bool {
	m.mu.Lock()
	defer m.mu.Unlock()
	if m.held {
		return false
	}
	m.held = true
	return true
}
func (m *Mutex) can() bool { m.mu.Lock(); defer m.mu.Unlock(); return !m.held }

func (m *Mutex) Lock()         { sched.Acquire("Mutex.Lock", m.try, m.can) }
func (m *Mutex) TryLock() bool { sched.Point("Mutex.TryLock"); return m.try() }
func (m *Mutex) Unlock() {
	m.mu.Lock()
	if !m.held {
		m.mu.Unlock()
		panic("vsync: unlock of unlocked mutex")
	}
	m.held = false
	m.mu.Unlock()
	sched.Point("Mutex.Unlock")
}

// RWMutex is a scheduler-visible reader/writer lock (no writer preference: every order the real
// lock can produce for non-overlapping critical sections is explored by the scheduler).
type RWMutex struct {
	mu sync.Mutex
	w  bool
	r  int
}

func (m *RWMutex) tryW() bool {
	m.mu.Lock()
	defer m.mu.Unlock()
	if m.w || m.r > 0 {
		return false
	}
	m.w = true
	return true
}
func (m *RWMutex) canW() bool { m.mu.Lock(); defer m.mu.Unlock(); return !m.w && m.r == 0 }
func (m *RWMutex) tryR() bool {
	m.mu.Lock()
	defer m.mu.Unlock()
	if m.w {
		return false
	}
	m.r++
	return true
}
func (m *RWMutex) canR() bool { m.mu.Lock(); defer m.mu.Unlock(); return !m.w }

func (m *RWMutex) Lock()  { sched.Acquire("RWMutex.Lock", m.tryW, m.canW) }
func (m *RWMutex) RLock() { sched.Acquire("RWMutex.RLock", m.tryR, m.canR) }
func (m *RWMutex) Unlock() {
	m.mu.Lock()
	if !m.w {
		m.mu.Unlock()
		panic("vsync: Unlock of unlocked RWMutex")
	}
	m.w = false
	m.mu.Unlock()
	sched.Point("RWMutex.Unlock")
}
func (m *RWMutex) RUnlock() {
	m.mu.Lock()
	if m.r <= 0 {
		m.mu.Unlock()
		panic("vsync: RUnlock of unlocked RWMutex")
	}
	m.r--
	m.mu.Unlock()
	sched.Point("RWMutex.RUnlock")
}
func (m *RWMutex) TryLock() bool        { sched.Point("RWMutex.TryLock"); return m.tryW() }
func (m *RWMutex) TryRLock() bool       { sched.Point("RWMutex.TryRLock"); return m.tryR() }
func (m *RWMutex) RLocker() sync.Locker { return (*rlocker)(m) }

type rlocker RWMutex

func (r *rlocker) Lock()   { (*RWMutex)(r).RLock() }
func (r *rlocker) Unlock() { (*RWMutex)(r).RUnlock() }

// WaitGroup with a virtual Wait.
type WaitGroup struct {
	mu sync.Mutex
	n  int
}

func (w *WaitGroup) Add(d int) {
	w.mu.Lock()
	w.n += d
	if w.n < 0 {
		w.mu.Unlock()
		panic("vsync: negative WaitGroup counter")
	}
	w.mu.Unlock()
}
func (w *WaitGroup) Done() { w.Add(-1); sched.Point("WaitGroup.Done") }
func (w *WaitGroup) Wait() {
	z := func() bool { w.mu.Lock(); defer w.mu.Unlock(); return w.n == 0 }
	sched.WaitUntil("WaitGroup.Wait", z)
}

// Map is sync.Map with a scheduling point in front of every operation.
type Map struct{ m sync.Map }

func (m *Map) Load(k any) (any, bool) { sched.Point("Map.Load"); return m.m.Load(k) }
func (m *Map) Store(k, v any)         { sched.Point("Map.Store"); m.m.Store(k, v) }
func (m *Map) LoadOrStore(k, v any) (any, bool) {
	sched.Point("Map.LoadOrStore")
	return m.m.LoadOrStore(k, v)
}
func (m *Map) LoadAndDelete(k any) (any, bool) {
	sched.Point("Map.LoadAndDelete")
	return m.m.LoadAndDelete(k)
}
func (m *Map) Delete(k any)              { sched.Point("Map.Delete"); m.m.Delete(k) }
func (m *Map) Swap(k, v any) (any, bool) { sched.Point("Map.Swap"); return m.m.Swap(k, v) }
func (m *Map) CompareAndSwap(k, o, n any) bool {
	sched.Point("Map.CompareAndSwap")
	return m.m.CompareAndSwap(k, o, n)
}
func (m *Map) CompareAndDelete(k, o any) bool {
	sched.Point("Map.CompareAndDelete")
	return m.m.CompareAndDelete(k, o)
}
// Range visits the entries in a DETERMINISTIC order (sorted by the printed key). sync.Map promises no order and
// no consistent snapshot, so a fixed order over a snapshot is one of the behaviours the real type may show;
// harnesses that number the steps of an execution (fault enumeration) need the same order in every run and
// cover other orders by renaming the keys.
func (m *Map) Range(f func(k, v any) bool) {
	sched.Point("Map.Range")
	type kv struct {
		s    string
		k, v any
	}
	var all []kv
	m.m.Range(func(k, v any) bool {
		all = append(all, kv{fmt.Sprintf("%T:%v", k, k), k, v})
		return true
	})
	sort.Slice(all, func(i, j int) bool { return all[i].s < all[j].s })
	for _, e := range all {
		if !f(e.k, e.v) {
			return
		}
	}
}
