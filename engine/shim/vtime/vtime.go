// Package vtime is the virtual clock substituted (by overlay rewrite) for the clock-reading
// selectors of package time in the files that read the clock for a decision. The clock only ever
// runs ahead of real time: Now() = real now + offset, offset >= 0 set by the harness.
package vtime

import (
	"sync"
	"time"
)

var (
	mu     sync.Mutex
	offset time.Duration
	frozen *time.Time
)

// Advance moves the virtual clock forward by d.
func Advance(d time.Duration) { mu.Lock(); offset += d; mu.Unlock() }

// Set sets the offset to real time (>= 0).
func SetOffset(d time.Duration) { mu.Lock(); offset = d; mu.Unlock() }

// Freeze pins the clock at t (plus later Advance calls); Unfreeze returns to real time + offset.
func Freeze(t time.Time)    { mu.Lock(); frozen = &t; offset = 0; mu.Unlock() }
func Unfreeze()             { mu.Lock(); frozen = nil; mu.Unlock() }
func Reset()                { mu.Lock(); frozen = nil; offset = 0; mu.Unlock() }
func Offset() time.Duration { mu.Lock(); defer mu.Unlock(); return offset }

func Now() time.Time {
	mu.Lock()
	defer mu.Unlock()
	if frozen != nil {
		return frozen.Add(offset)
	}
	return time.Now().Add(offset)
}
func Since(t time.Time) time.Duration { return Now().Sub(t) }
func Until(t time.Time) time.Duration { return t.Sub(Now()) }

// Timers and tickers are not virtualised beyond delegating to real time: harnesses fire periodic work
// through explicit events and never wait for a timer.
func After(d time.Duration) <-chan time.Time          { return time.After(d) }
func AfterFunc(d time.Duration, f func()) *time.Timer { return time.AfterFunc(d, f) }
func NewTimer(d time.Duration) *time.Timer            { return time.NewTimer(d) }
func NewTicker(d time.Duration) *time.Ticker          { return time.NewTicker(d) }
func Tick(d time.Duration) <-chan time.Time           { return time.Tick(d) }
func Sleep(d time.Duration)                           { time.Sleep(d) }
