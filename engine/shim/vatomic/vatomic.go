// Package vatomic replaces the typed atomics of sync/atomic: every operation is a scheduling point.
package vatomic

import (
	"sync/atomic"

	"verif/sched"
)

type Uint32 struct{ v atomic.Uint32 }

func (x *Uint32) Load() uint32         { sched.Point("Uint32.Load"); return x.v.Load() }
func (x *Uint32) Store(n uint32)       { sched.Point("Uint32.Store"); x.v.Store(n) }
func (x *Uint32) Add(n uint32) uint32  { sched.Point("Uint32.Add"); return x.v.Add(n) }
func (x *Uint32) Swap(n uint32) uint32 { sched.Point("Uint32.Swap"); return x.v.Swap(n) }
func (x *Uint32) CompareAndSwap(o, n uint32) bool {
	sched.Point("Uint32.CAS")
	return x.v.CompareAndSwap(o, n)
}

type Uint64 struct{ v atomic.Uint64 }

func (x *Uint64) Load() uint64        { sched.Point("Uint64.Load"); return x.v.Load() }
func (x *Uint64) Store(n uint64)      { sched.Point("Uint64.Store"); x.v.Store(n) }
func (x *Uint64) Add(n uint64) uint64 { sched.Point("Uint64.Add"); return x.v.Add(n) }
func (x *Uint64) CompareAndSwap(o, n uint64) bool {
	sched.Point("Uint64.CAS")
	return x.v.CompareAndSwap(o, n)
}

type Int32 struct{ v atomic.Int32 }

func (x *Int32) Load() int32       { sched.Point("Int32.Load"); return x.v.Load() }
func (x *Int32) Store(n int32)     { sched.Point("Int32.Store"); x.v.Store(n) }
func (x *Int32) Add(n int32) int32 { sched.Point("Int32.Add"); return x.v.Add(n) }
func (x *Int32) CompareAndSwap(o, n int32) bool {
	sched.Point("Int32.CAS")
	return x.v.CompareAndSwap(o, n)
}

type Int64 struct{ v atomic.Int64 }

func (x *Int64) Load() int64       { sched.Point("Int64.Load"); return x.v.Load() }
func (x *Int64) Store(n int64)     { sched.Point("Int64.Store"); x.v.Store(n) }
func (x *Int64) Add(n int64) int64 { sched.Point("Int64.Add"); return x.v.Add(n) }
func (x *Int64) CompareAndSwap(o, n int64) bool {
	sched.Point("Int64.CAS")
	return x.v.CompareAndSwap(o, n)
}

type Bool struct{ v atomic.Bool }

func (x *Bool) Load() bool       { sched.Point("Bool.Load"); return x.v.Load() }
func (x *Bool) Store(n bool)     { sched.Point("Bool.Store"); x.v.Store(n) }
func (x *Bool) Swap(n bool) bool { sched.Point("Bool.Swap"); return x.v.Swap(n) }
func (x *Bool) CompareAndSwap(o, n bool) bool {
	sched.Point("Bool.CAS")
	return x.v.CompareAndSwap(o, n)
}

type Pointer[T any] struct{ v atomic.Pointer[T] }

func (x *Pointer[T]) Load() *T     { sched.Point("Pointer.Load"); return x.v.Load() }
func (x *Pointer[T]) Store(n *T)   { sched.Point("Pointer.Store"); x.v.Store(n) }
func (x *Pointer[T]) Swap(n *T) *T { sched.Point("Pointer.Swap"); return x.v.Swap(n) }
func (x *Pointer[T]) CompareAndSwap(o, n *T) bool {
	sched.Point("Pointer.CAS")
	return x.v.CompareAndSwap(o, n)
}

type Value = atomic.Value

func AddInt32(p *int32, d int32) int32     { sched.Point("AddInt32"); return atomic.AddInt32(p, d) }
func AddInt64(p *int64, d int64) int64     { sched.Point("AddInt64"); return atomic.AddInt64(p, d) }
func AddUint32(p *uint32, d uint32) uint32 { sched.Point("AddUint32"); return atomic.AddUint32(p, d) }
func AddUint64(p *uint64, d uint64) uint64 { sched.Point("AddUint64"); return atomic.AddUint64(p, d) }
func LoadInt32(p *int32) int32             { sched.Point("LoadInt32"); return atomic.LoadInt32(p) }
func LoadInt64(p *int64) int64             { sched.Point("LoadInt64"); return atomic.LoadInt64(p) }
func LoadUint32(p *uint32) uint32          { sched.Point("LoadUint32"); return atomic.LoadUint32(p) }
func LoadUint64(p *uint64) uint64          { sched.Point("LoadUint64"); return atomic.LoadUint64(p) }
func StoreInt32(p *int32, v int32)         { sched.Point("StoreInt32"); atomic.StoreInt32(p, v) }
func StoreInt64(p *int64, v int64)         { sched.Point("StoreInt64"); atomic.StoreInt64(p, v) }
func StoreUint32(p *uint32, v uint32)      { sched.Point("StoreUint32"); atomic.StoreUint32(p, v) }
func StoreUint64(p *uint64, v uint64)      { sched.Point("StoreUint64"); atomic.StoreUint64(p, v) }
func CompareAndSwapInt32(p *int32, o, n int32) bool {
	sched.Point("CASInt32")
	return atomic.CompareAndSwapInt32(p, o, n)
}
func CompareAndSwapUint32(p *uint32, o, n uint32) bool {
	sched.Point("CASUint32")
	return atomic.CompareAndSwapUint32(p, o, n)
}
