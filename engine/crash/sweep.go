package crash

import (
	"encoding/base64"
	"fmt"
	"os"
	"strconv"
	"strings"
	"time"

	"verif/enum"
	"verif/ev"
)

// ReplayCase is what a violation's replay file carries: the entry point, the description of the
// enumerated case (deterministic: the same description regenerates the same input) and the input itself.
type ReplayCase struct {
	Entry    string   `json:"entry"`
	Desc     string   `json:"desc"`
	Input    string   `json:"input,omitempty"`     // textual input (truncated)
	InputB64 string   `json:"input_b64,omitempty"` // binary input
	Site     string   `json:"site,omitempty"`
	Caller   string   `json:"caller,omitempty"`
	Panic    string   `json:"panic,omitempty"`
	Stack    []string `json:"stack,omitempty"`
}

// Sweep drives guarded calls of entry points and reports to the evidence collector.
type Sweep struct {
	R        *ev.Run
	Prop     string
	Deadline time.Duration
	// EntryDeadline overrides Deadline for CPU-only entry points whose normal cost is microseconds
	EntryDeadline map[string]time.Duration
	// OnAbandon replaces the fixture of a store-touching entry point (set by the harness around such sweeps)
	OnAbandon  func()
	pending    *Pending
	idx        int
	replay     *ReplayCase
	hung       map[string]bool
	Calls      int64
	Panics     int64
	stop       bool
	perEntry   map[string]int64
	ranCase    bool
	samples    int
	seq        int             // number of cases of this worker considered so far (journal position)
	resume     int             // cases below this position were executed by a predecessor process
	skip       map[string]bool // cases convicted / set aside by the supervisor
	journalPos int
	reported   map[string]bool
}

func NewSweep(r *ev.Run, prop string) *Sweep {
	s := &Sweep{R: r, Prop: prop, Deadline: 10 * time.Second, pending: NewPending(), hung: map[string]bool{}, perEntry: map[string]int64{}, EntryDeadline: map[string]time.Duration{}}
	var rc ReplayCase
	if r.ReplayCase(&rc) {
		s.replay = &rc
	} else if os.Getenv("VERIF_REPLAY") != "" {
		// the replayed case belongs to another part of the check: nothing to do here
		s.replay = &ReplayCase{Entry: "\x00other-part"}
	}
	s.skip = map[string]bool{}
	if os.Getenv("VERIF_CRASH_REPRO") == "" {
		s.resume, _ = strconv.Atoi(os.Getenv("VERIF_CRASH_RESUME"))
		for _, v := range loadVerdicts() {
			switch v.Kind {
			case "violation":
				// found by a predecessor process of this worker (which died later) or by the supervisor
				r.Violation(v.Sig, v.What, v.Case)
				if strings.Contains(v.Sig, "|process-killed|") && v.Case != nil {
					s.skip[v.Case.Entry+"\x1f"+v.Case.Desc] = true
				}
			case "skip":
				s.skip[v.Entry+"\x1f"+v.Desc] = true
				r.Observation("inconclusive-process-death:"+v.Entry, map[string]any{"desc": v.Desc, "note": v.Note})
				r.NotExhaustive("a case killed the sweep process once but not in isolation (inconclusive): " + v.Entry)
			}
		}
	}
	return s
}

// Replaying tells whether a single recorded case is being replayed.
func (s *Sweep) Replaying() bool { return s.replay != nil }

// ReplayEntry returns the entry point of the replayed case ("" when not replaying).
func (s *Sweep) ReplayEntry() string {
	if s.replay == nil {
		return ""
	}
	return s.replay.Entry
}

// WantEntry tells whether cases of this entry point have to be generated at all.
func (s *Sweep) WantEntry(entry string) bool {
	if s.stop || s.hung[entry] {
		return false
	}
	return s.replay == nil || s.replay.Entry == entry
}

// Stopped reports that the wall budget is used up.
func (s *Sweep) Stopped() bool { return s.stop }

// FirstShard tells whether this worker is the one that runs the entry points that are not sharded
// (cheap ones whose possible non-termination must not be multiplied over all workers).
func (s *Sweep) FirstShard() bool {
	i, _ := s.R.Shard()
	return i == 0 || s.replay != nil
}

// Mine is the shard filter for callers that shard on an outer index themselves (pairs).
func (s *Sweep) Mine(i int) bool { return s.replay != nil || s.R.Mine(i) }

// PerEntry returns the number of executed calls per entry point.
func (s *Sweep) PerEntry() map[string]int64 { return s.perEntry }

// RanReplay tells whether the replayed case was found and executed.
func (s *Sweep) RanReplay() bool { return s.ranCase }

func printable(b []byte) bool {
	for _, c := range b {
		if c < 0x20 && c != '\n' && c != '\t' || c > 0x7e {
			return false
		}
	}
	return true
}

// Case executes one enumerated case (if it belongs to this shard). sharded=false means the caller has
// already applied the shard filter. store=true marks entry points that touch a bbolt store (the input
// is written to the pending file before the call). prep builds the input (only when the case really
// runs) and returns it together with the call; the call returns a short outcome class.
// ran=false: the case was skipped (other shard / other replay case / entry disabled).
func (s *Sweep) Case(entry, desc string, sharded, store bool, prep func() ([]byte, func() string)) (res Result, ran bool) {
	if s.stop || s.hung[entry] {
		return Result{}, false
	}
	if s.replay != nil {
		if s.replay.Entry != entry || s.replay.Desc != desc {
			return Result{}, false
		}
		s.ranCase = true
	} else if sharded {
		i := s.idx
		s.idx++
		if !s.R.Mine(i) {
			return Result{}, false
		}
	}
	if s.Calls%256 == 0 && s.R.Expired() {
		s.stop = true
		return Result{}, false
	}
	if s.replay == nil {
		pos := s.seq
		s.seq++
		if pos < s.resume {
			// executed by a predecessor process of this worker (its verdicts were re-reported at start)
			s.R.Eval(entry + "|" + desc)
			return Result{}, false
		}
		if s.skip[entry+"\x1f"+desc] {
			s.R.Eval(entry + "|" + desc)
			return Result{}, false
		}
		s.journalPos = pos
	}
	s.Calls++
	s.perEntry[entry]++
	input, f := prep()
	if s.replay == nil {
		s.pending.Journal(s.journalPos, entry, desc, input)
	}
	deadline := s.Deadline
	if d, ok := s.EntryDeadline[entry]; ok {
		deadline = d
	}
	running := Start(f)
	var grace time.Duration
	res, finished := running.Wait(deadline)
	if !finished {
		// deadline passed: is the callee stuck or the machine loaded? Measure a fixed piece of work and keep waiting
		// for the SAME call: grace = 1500 x the calibration time (about 10 ms on an idle core), at least 6 x the deadline, at most 200 s.
		cal := Calibrate()
		grace = 1500 * cal
		if grace < 6*deadline {
			grace = 6 * deadline
		}
		if grace > 200*time.Second {
			grace = 200 * time.Second
		}
		if _, micro := s.EntryDeadline[entry]; micro {
			// entry points whose normal cost is far below their (already shortened) deadline: a fixed grace keeps the
			// tier inside its budget while a real non-termination is present; the stall check below still applies
			grace = 6 * deadline
		}
		res, finished = running.Wait(grace)
		if finished {
			s.R.Observation("slow-call:"+entry, map[string]any{"desc": desc, "seconds": res.Elapsed.Seconds(), "calibration_ms": cal.Seconds() * 1000})
		}
	}
	s.R.Eval(entry + "|" + desc)
	mk := func() ReplayCase {
		rc := ReplayCase{Entry: entry, Desc: desc, Site: res.Site, Caller: res.Caller, Panic: res.Value, Stack: res.Stack}
		in := input
		if len(in) > 6000 {
			in = in[:6000]
		}
		if printable(in) {
			rc.Input = string(in)
		} else {
			rc.InputB64 = base64.StdEncoding.EncodeToString(in)
		}
		return rc
	}
	switch {
	case res.Panicked:
		s.Panics++
		s.R.Outcome(entry + ":PANIC")
		what := fmt.Sprintf("panic in %s at %s", entry, res.Site)
		if res.Caller != res.Site {
			what += " (called from " + res.Caller + ")"
		}
		what += ": " + res.Value + " [case " + truncate(desc, 120) + "]"
		s.violation(s.Prop+"|"+entry+"|"+res.Site, what, mk())
	case res.TimedOut:
		// reproduce: the statement is about non-termination, a single stuck call proves nothing. Store-touching
		// entry points are reproduced on a fresh fixture (the abandoned call may still hold the store's lock).
		n := 1
		if store && s.OnAbandon == nil {
			n = 0
		}
		for k := 0; k < 2 && n > 0; k++ {
			if store {
				s.OnAbandon()
			}
			_, f2 := prep()
			if _, ok := Start(f2).Wait(grace); !ok {
				n++
			} else {
				break
			}
		}
		if n == 3 && Calibrate() > 150*time.Millisecond {
			// the worker itself is stalled (a 10 ms piece of work takes more than 150 ms): no verdict
			n = -1
		}
		if store && s.OnAbandon != nil {
			s.OnAbandon()
		}
		if n == 3 {
			s.R.Outcome(entry + ":TIMEOUT")
			s.violation(s.Prop+"|"+entry+"|timeout", fmt.Sprintf("%s did not return within %s (reproduced 3x, each time on a fresh fixture) [case %s]", entry, grace, truncate(desc, 120)), mk())
			s.hung[entry] = true
			// the abandoned goroutines keep running (and possibly allocating): end this worker's sweep as soon as possible
			s.stop = true
			s.R.NotExhaustive("sweep of this worker ended after a reproduced time-out in " + entry)
		} else {
			s.R.Observation("inconclusive-timeout:"+entry, map[string]any{"desc": desc, "timeouts": n, "waited_s": grace.Seconds()})
			s.R.NotExhaustive("a call did not return within its grace period but did not reproduce (inconclusive): " + entry)
		}
	case strings.HasPrefix(res.Outcome, "!"):
		// the call itself judged another clause of the statement (e.g. "!state-changed: ...")
		clause, detail, _ := strings.Cut(strings.TrimPrefix(res.Outcome, "!"), ":")
		s.R.Outcome(entry + ":" + clause)
		s.violation(s.Prop+"|"+entry+"|"+clause, fmt.Sprintf("%s: %s%s [case %s]", entry, clause, truncate(detail, 300), truncate(desc, 120)), mk())
	default:
		o := res.Outcome
		if i := strings.IndexByte(o, '\n'); i >= 0 {
			o = o[:i]
		}
		s.R.Outcome(entry + ":" + truncate(o, 40))
		if s.samples < 3 && s.Calls%97 == 1 {
			s.samples++
			s.R.Sample(map[string]any{"entry": entry, "case": desc, "input": truncate(string(input), 300), "outcome": o})
		}
	}
	return res, true
}

// JSON sweeps every single mutant of doc (and, when pairs is set, every single mutant of every single
// mutant; sharded on the first mutation) through run. inst names the valid instance. run turns the
// mutated document into the input bytes and the call.
func (s *Sweep) JSON(entry, inst string, doc any, o enum.Options, pairs, store bool, run func(doc any) ([]byte, func() string)) {
	if !s.WantEntry(entry) {
		return
	}
	var want1, want2 string
	if s.replay != nil {
		d := strings.TrimPrefix(s.replay.Desc, inst+":")
		if d == s.replay.Desc {
			return // other instance
		}
		if i := strings.Index(d, " + "); i >= 0 {
			want1, want2 = d[:i], d[i+3:]
			pairs = true
		} else {
			want1 = d
		}
	}
	singles := enum.Singles(doc, o)
	if want2 == "" {
		for _, m := range singles {
			if s.stop {
				return
			}
			m := m
			if want1 != "" && m.Desc() != want1 {
				continue
			}
			s.Case(entry, inst+":"+m.Desc(), true, store, func() ([]byte, func() string) { return run(m.Doc) })
		}
	}
	if !pairs || (s.replay != nil && want2 == "") {
		return
	}
	o2 := o
	o2.Hostile = false
	for i, m1 := range singles {
		if s.stop || s.hung[entry] {
			return
		}
		if want1 != "" {
			if m1.Desc() != want1 {
				continue
			}
		} else if !s.R.Mine(i) {
			continue
		}
		for _, m2 := range enum.Singles(m1.Doc, o2) {
			m2 := m2
			if want2 != "" && m2.Desc() != want2 {
				continue
			}
			s.Case(entry, inst+":"+m1.Desc()+" + "+m2.Desc(), false, store, func() ([]byte, func() string) { return run(m2.Doc) })
			if s.stop {
				return
			}
		}
	}
}

// violation reports to the collector and persists the verdict for a successor process of this worker.
func (s *Sweep) violation(sig, what string, rc ReplayCase) {
	if !s.reported[sig] {
		if s.reported == nil {
			s.reported = map[string]bool{}
		}
		s.reported[sig] = true
		if s.replay == nil {
			appendVerdict(verdict{Kind: "violation", Sig: sig, What: what, Case: &rc})
		}
	}
	s.R.Violation(sig, what, rc)
}

// Done marks the journal: the sweep of this worker ended in an orderly way (the report follows).
func (s *Sweep) Done() { s.pending.Done() }
