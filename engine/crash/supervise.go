package crash

import (
	"bufio"
	"context"
	"encoding/json"
	"fmt"
	"os"
	"os/exec"
	"path/filepath"
	"regexp"
	"strconv"
	"strings"
	"testing"
	"time"
)

// A Go runtime FATAL error (out of memory, stack overflow, concurrent map writes) is not a panic: recover() does
// not see it and the whole process dies. The sweep therefore runs in a CHILD process of the worker (a re-exec of
// the test binary); the child journals every case before it executes it. When the child dies, the supervisor
// re-executes the journalled case alone in fresh children (up to 3x, hard timeout): dies each time => a
// violation "process-killed" is recorded in the verdict file; survives => recorded as inconclusive. The sweep is
// then resumed in a new child right after that case. Verdicts found before a death are persisted in the verdict
// file and re-reported by the successor, so the worker always ends with a report.

type verdict struct {
	Kind  string      `json:"kind"` // "violation" | "skip"
	Sig   string      `json:"sig,omitempty"`
	What  string      `json:"what,omitempty"`
	Case  *ReplayCase `json:"case,omitempty"`
	Entry string      `json:"entry,omitempty"`
	Desc  string      `json:"desc,omitempty"`
	Note  string      `json:"note,omitempty"`
}

func stateFile(kind string) string {
	dir := os.Getenv("VERIF_RUNDIR")
	if dir == "" {
		return ""
	}
	shard := strings.ReplaceAll(os.Getenv("VERIF_SHARD"), "/", "of")
	return filepath.Join(dir, fmt.Sprintf("log_%s_%s_%s.txt", kind, os.Getenv("VERIF_PART"), shard))
}

func appendVerdict(v verdict) {
	p := stateFile("verdicts")
	if p == "" {
		return
	}
	f, err := os.OpenFile(p, os.O_APPEND|os.O_CREATE|os.O_WRONLY, 0o644)
	if err != nil {
		return
	}
	defer f.Close()
	b, _ := json.Marshal(v)
	_, _ = f.Write(append(b, '\n'))
}

func loadVerdicts() []verdict {
	p := stateFile("verdicts")
	if p == "" {
		return nil
	}
	f, err := os.Open(p)
	if err != nil {
		return nil
	}
	defer f.Close()
	var out []verdict
	sc := bufio.NewScanner(f)
	sc.Buffer(make([]byte, 1<<20), 1<<24)
	for sc.Scan() {
		var v verdict
		if json.Unmarshal(sc.Bytes(), &v) == nil {
			out = append(out, v)
		}
	}
	return out
}

type journalEntry struct {
	Seq   int    `json:"seq"`
	Entry string `json:"entry"`
	Desc  string `json:"desc"`
	Input string `json:"input,omitempty"`
	Done  bool   `json:"done,omitempty"`
}

func readJournal() *journalEntry {
	p := stateFile("pending")
	if p == "" {
		return nil
	}
	b, err := os.ReadFile(p)
	if err != nil {
		return nil
	}
	var j journalEntry
	if json.Unmarshal(b, &j) != nil {
		return nil
	}
	return &j
}

var digits = regexp.MustCompile(`[0-9]+`)

// fatalLine extracts the first line that names the cause of death from a child's output.
func fatalLine(out string, err error) string {
	for _, line := range strings.Split(out, "\n") {
		l := strings.TrimSpace(line)
		if strings.HasPrefix(l, "fatal error:") || strings.HasPrefix(l, "runtime: out of memory") || strings.HasPrefix(l, "signal:") || strings.HasPrefix(l, "SIG") {
			return strings.TrimSpace(digits.ReplaceAllString(l, "N"))
		}
	}
	if err != nil {
		return digits.ReplaceAllString(err.Error(), "N")
	}
	return "unknown"
}

// Supervise turns the calling test process into the supervisor of a child that runs the same test. It returns
// true when this process WAS the supervisor (the test function must return right away), false when the caller is
// the child (or supervision is off: no run directory, or a driver replay) and has to do the work itself.
func Supervise(t *testing.T) bool {
	if os.Getenv("VERIF_CRASH_CHILD") != "" || os.Getenv("VERIF_RUNDIR") == "" || os.Getenv("VERIF_REPLAY") != "" || os.Getenv("VERIF_NO_SUPERVISOR") != "" {
		return false
	}
	_ = os.Remove(stateFile("pending"))
	_ = os.Remove(stateFile("verdicts"))
	resume := 0
	for round := 0; round < 200; round++ {
		cmd := childCommand(context.Background())
		cmd.Env = append(os.Environ(), "VERIF_CRASH_CHILD=1", "VERIF_CRASH_RESUME="+strconv.Itoa(resume))
		cmd.Stdout, cmd.Stderr = os.Stdout, os.Stderr
		err := cmd.Run()
		j := readJournal()
		if j != nil && j.Done {
			// the child finished its sweep and wrote the report; its exit code says whether there are violations
			if err != nil {
				t.Errorf("violations reported by the sweep process (%v)", err)
			}
			return true
		}
		if j == nil || j.Seq < resume {
			t.Errorf("the sweep process died outside a journalled case (%v): machinery failure", err)
			return true
		}
		// the child died while case j was pending: reproduce it alone
		fmt.Printf("SUPERVISOR: sweep process died (%v) while case #%d %s | %s was pending; reproducing in isolation\n", err, j.Seq, j.Entry, truncate(j.Desc, 150))
		rp := filepath.Join(os.TempDir(), fmt.Sprintf("crash-repro-%d.json", j.Seq))
		rb, _ := json.Marshal(map[string]any{"property": os.Getenv("VERIF_PROP"), "part": os.Getenv("VERIF_PART"), "case": ReplayCase{Entry: j.Entry, Desc: j.Desc}})
		_ = os.WriteFile(rp, rb, 0o644)
		deaths, cause := 0, ""
		for k := 0; k < 3; k++ {
			ctx, cancel := context.WithTimeout(context.Background(), 150*time.Second)
			c := childCommand(ctx)
			c.Env = append(os.Environ(), "VERIF_CRASH_CHILD=1", "VERIF_REPLAY="+rp, "VERIF_REPORT="+rp+".report", "VERIF_CRASH_REPRO=1")
			out, cerr := c.CombinedOutput()
			timedOut := ctx.Err() != nil
			cancel()
			rep, rerr := os.ReadFile(rp + ".report")
			_ = os.Remove(rp + ".report")
			if rerr == nil && len(rep) > 0 {
				// the child survived (it wrote its report): it either passed or found an ordinary violation
				if cerr != nil {
					// an ordinary (recoverable) violation: let the resumed sweep NOT skip it... it already died once on it, so keep the verdict
					var r struct {
						Violations []struct{ Signature, What string } `json:"violations"`
					}
					_ = json.Unmarshal(rep, &r)
					for _, v := range r.Violations {
						appendVerdict(verdict{Kind: "violation", Sig: v.Signature, What: v.What, Case: &ReplayCase{Entry: j.Entry, Desc: j.Desc, Input: j.Input}})
					}
				}
				break
			}
			if timedOut {
				cause = "no answer within 150 s"
				break
			}
			deaths++
			cause = fatalLine(string(out), cerr)
		}
		_ = os.Remove(rp)
		if deaths == 3 {
			sig := fmt.Sprintf("%s|%s|process-killed|%s", os.Getenv("VERIF_PROP"), j.Entry, cause)
			appendVerdict(verdict{Kind: "violation", Sig: sig, What: fmt.Sprintf("%s: the process is killed by a runtime fatal error that recover() cannot catch (%s; reproduced in 3 fresh processes) [case %s]", j.Entry, cause, truncate(j.Desc, 120)),
				Case: &ReplayCase{Entry: j.Entry, Desc: j.Desc, Input: j.Input, Panic: cause}})
		} else {
			appendVerdict(verdict{Kind: "skip", Entry: j.Entry, Desc: j.Desc, Note: fmt.Sprintf("the sweep process died once on this case but %d of the isolated re-executions survived (%s): inconclusive", 3-deaths, cause)})
		}
		resume = j.Seq + 1
	}
	t.Errorf("supervisor: too many restarts")
	return true
}

// MarkDone is called by a harness right after it has written its report: the sweep of this process ended in an
// orderly way (whatever its verdict).
func MarkDone() {
	if os.Getenv("VERIF_CRASH_REPRO") != "" {
		return
	}
	NewPending().Done()
}

// childCommand re-executes the test binary under a tighter address-space limit than the worker's own (a callee that
// allocates without bound is stopped at 8 GiB instead of filling the machine); VERIF_CRASH_ULIMIT_KB overrides it.
func childCommand(ctx context.Context) *exec.Cmd {
	limit := os.Getenv("VERIF_CRASH_ULIMIT_KB")
	if limit == "" {
		limit = strconv.Itoa(8 * 1024 * 1024)
	}
	if bash, err := exec.LookPath("bash"); err == nil {
		args := append([]string{"-c", "ulimit -v " + limit + " 2>/dev/null; exec \"$@\"", "x", os.Args[0]}, os.Args[1:]...)
		return exec.CommandContext(ctx, bash, args...)
	}
	return exec.CommandContext(ctx, os.Args[0], os.Args[1:]...)
}
