package crash

import (
	"crypto/ecdsa"
	"crypto/elliptic"
	"crypto/rand"
	"crypto/sha256"
	"encoding/base64"
	"encoding/json"
	"math/big"
)

// FixedKey returns a deterministic P-256 key derived from the seed (key material is the only thing a seed may drive).
func FixedKey(seed int64, n int) *ecdsa.PrivateKey {
	h := sha256.Sum256([]byte{byte(seed), byte(seed >> 8), byte(seed >> 16), byte(n), 'v', 'e', 'r', 'i', 'f'})
	d := new(big.Int).SetBytes(h[:])
	c := elliptic.P256()
	d.Mod(d, new(big.Int).Sub(c.Params().N, big.NewInt(1)))
	d.Add(d, big.NewInt(1))
	k := &ecdsa.PrivateKey{D: d}
	k.Curve = c
	k.X, k.Y = c.ScalarBaseMult(d.Bytes())
	return k
}

func B64(b []byte) string { return base64.RawURLEncoding.EncodeToString(b) }

// PublicJWK renders the public key as a JWK object (decoded JSON).
func PublicJWK(k *ecdsa.PrivateKey) map[string]any {
	pad := func(b []byte) []byte {
		if len(b) >= 32 {
			return b
		}
		return append(make([]byte, 32-len(b)), b...)
	}
	return map[string]any{"kty": "EC", "crv": "P-256", "x": B64(pad(k.X.Bytes())), "y": B64(pad(k.Y.Bytes()))}
}

// SignRaw signs protected||"."||payload (both already base64url) with ES256 whatever the header says,
// so that a mutated header still carries a cryptographically valid signature of the original key.
func SignRaw(protectedB64, payloadB64 string, k *ecdsa.PrivateKey) string {
	h := sha256.Sum256([]byte(protectedB64 + "." + payloadB64))
	r, s, err := ecdsa.Sign(rand.Reader, k, h[:])
	if err != nil {
		panic(err)
	}
	sig := make([]byte, 64)
	r.FillBytes(sig[:32])
	s.FillBytes(sig[32:])
	return B64(sig)
}

// Compact builds a compact JWS from a (possibly mutated) header document and a payload.
func Compact(header any, payload []byte, k *ecdsa.PrivateKey) string {
	hb, _ := json.Marshal(header)
	p, pl := B64(hb), B64(payload)
	return p + "." + pl + "." + SignRaw(p, pl, k)
}

// CompactJSON is Compact with a JSON document as payload (JWT claims).
func CompactJSON(header any, claims any, k *ecdsa.PrivateKey) string {
	cb, _ := json.Marshal(claims)
	return Compact(header, cb, k)
}

// JSONSerialisations returns the flattened and the general JWS JSON serialisation (as decoded JSON
// documents, ready for structural mutation) of the same signed content, plus variants with an
// unprotected header, without a protected header and with two signatures.
func JSONSerialisations(header any, payload []byte, k *ecdsa.PrivateKey) map[string]any {
	hb, _ := json.Marshal(header)
	p, pl := B64(hb), B64(payload)
	sig := SignRaw(p, pl, k)
	out := map[string]any{}
	out["flattened"] = map[string]any{"payload": pl, "protected": p, "signature": sig}
	out["general"] = map[string]any{"payload": pl, "signatures": []any{map[string]any{"protected": p, "signature": sig}}}
	out["general-unprotected"] = map[string]any{"payload": pl, "signatures": []any{map[string]any{"protected": p, "header": map[string]any{"kid": "unprotected-kid"}, "signature": sig}}}
	out["general-noprotected"] = map[string]any{"payload": pl, "signatures": []any{map[string]any{"header": header, "signature": sig}}}
	out["general-two"] = map[string]any{"payload": pl, "signatures": []any{map[string]any{"protected": p, "signature": sig}, map[string]any{"protected": p, "signature": SignRaw(p, pl, k)}}}
	return out
}

// CompactOddities returns raw re-encodings / truncations of a compact JWS that structural mutation of
// the decoded header cannot express.
func CompactOddities(compact string) map[string]string {
	parts := splitDots(compact)
	out := map[string]string{
		"empty":            "",
		"one-dot":          ".",
		"two-dots":         "..",
		"three-dots":       "...",
		"no-signature":     parts[0] + "." + parts[1] + ".",
		"no-payload":       parts[0] + ".." + parts[2],
		"no-header":        "." + parts[1] + "." + parts[2],
		"only-header":      parts[0],
		"header-payload":   parts[0] + "." + parts[1],
		"extra-part":       compact + "." + parts[2],
		"padded":           parts[0] + "=." + parts[1] + "=." + parts[2] + "=",
		"whitespace":       " " + parts[0] + " . " + parts[1] + " . " + parts[2] + " ",
		"newline-inside":   parts[0][:len(parts[0])/2] + "\n" + parts[0][len(parts[0])/2:] + "." + parts[1] + "." + parts[2],
		"std-alphabet":     parts[0] + "+/." + parts[1] + "." + parts[2],
		"nul-byte":         parts[0] + "\x00." + parts[1] + "." + parts[2],
		"non-utf8":         parts[0] + ".\xff\xfe." + parts[2],
		"header-not-json":  B64([]byte("not json")) + "." + parts[1] + "." + parts[2],
		"header-array":     B64([]byte("[]")) + "." + parts[1] + "." + parts[2],
		"header-null":      B64([]byte("null")) + "." + parts[1] + "." + parts[2],
		"header-string":    B64([]byte(`"x"`)) + "." + parts[1] + "." + parts[2],
		"payload-not-json": parts[0] + "." + B64([]byte("not json")) + "." + parts[2],
		"payload-array":    parts[0] + "." + B64([]byte("[]")) + "." + parts[2],
		"payload-null":     parts[0] + "." + B64([]byte("null")) + "." + parts[2],
		"payload-empty":    parts[0] + "." + B64([]byte("")) + "." + parts[2],
		"sig-short":        parts[0] + "." + parts[1] + "." + parts[2][:10],
		"sig-long":         parts[0] + "." + parts[1] + "." + parts[2] + parts[2],
		"json-object":      "{}",
		"json-array":       "[]",
		"json-null":        "null",
		"json-string":      `"` + compact + `"`,
	}
	// truncation at every 16th character
	for i := 0; i < len(compact); i += 16 {
		out["trunc-"+itoa(i)] = compact[:i]
	}
	return out
}

func itoa(i int) string {
	b, _ := json.Marshal(i)
	return string(b)
}

func splitDots(s string) [3]string {
	var out [3]string
	n := 0
	cur := ""
	for _, c := range s {
		if c == '.' && n < 2 {
			out[n] = cur
			cur = ""
			n++
			continue
		}
		cur += string(c)
	}
	out[n] = cur
	return out
}
