// Package crash is the crash / non-termination oracle used by the input-enumeration checks (C19, C12):
// every call of an entry point of the real code runs in its own goroutine under recover() and a
// generous per-call deadline. A panic is turned into a stable "panic site" (file:line of the deepest
// stack frame that lies inside nuts-node or its go-did / jwx dependencies); a call that does not
// return before the deadline is re-tried and only reported when it reproduces.
package crash

import (
	"crypto/sha256"
	"encoding/json"
	"fmt"
	"os"
	"path/filepath"
	"runtime"
	"strings"
	"time"
)

// Result of one guarded call.
type Result struct {
	Outcome  string // what the callee returned ("" when it panicked or timed out)
	Panicked bool
	Site     string // panic site, e.g. "crypto/dpop/dpop.go:218"
	Caller   string // deepest nuts-node frame (equals Site unless the site is inside a dependency)
	Value    string // panic value
	Stack    []string
	TimedOut bool
	Elapsed  time.Duration
}

type frameInfo struct {
	site string
	mod  string // "nuts-node" | "go-did" | "jwx" | ""
}

const nutsMod = "github.com/nuts-foundation/nuts-node/"

// classify maps a runtime frame to (module, module-relative file:line).
func classify(fr runtime.Frame) frameInfo {
	fn := fr.Function
	base := filepath.Base(fr.File)
	if strings.HasPrefix(base, "zz_verif_") || strings.HasPrefix(fr.File, "/verif/") || strings.HasPrefix(fn, "verif/") {
		return frameInfo{}
	}
	pkgOf := func(prefix string) string {
		rest := strings.TrimPrefix(fn, prefix)
		// rest = "crypto/dpop.DPoP.HTU" or "vcr/pe.apply[...]" -> package path is up to the first '.' after the last '/'
		slash := strings.LastIndex(rest, "/")
		dot := strings.Index(rest[slash+1:], ".")
		if dot < 0 {
			return rest
		}
		return rest[:slash+1+dot]
	}
	switch {
	case strings.HasPrefix(fn, nutsMod):
		return frameInfo{site: fmt.Sprintf("%s/%s:%d", pkgOf(nutsMod), base, fr.Line), mod: "nuts-node"}
	case strings.HasPrefix(fn, "github.com/nuts-foundation/go-did/"):
		return frameInfo{site: fmt.Sprintf("go-did/%s/%s:%d", pkgOf("github.com/nuts-foundation/go-did/"), base, fr.Line), mod: "go-did"}
	case strings.HasPrefix(fn, "github.com/nuts-foundation/go-did."):
		return frameInfo{site: fmt.Sprintf("go-did/%s:%d", base, fr.Line), mod: "go-did"}
	case strings.HasPrefix(fn, "github.com/lestrrat-go/jwx/v2/"):
		return frameInfo{site: fmt.Sprintf("jwx/%s/%s:%d", pkgOf("github.com/lestrrat-go/jwx/v2/"), base, fr.Line), mod: "jwx"}
	}
	return frameInfo{}
}

// analyse walks the stack captured inside the deferred recover (it still contains the panicking frames).
func analyse(pcs []uintptr) (site, caller string, stack []string) {
	frames := runtime.CallersFrames(pcs)
	for {
		fr, more := frames.Next()
		if len(stack) < 24 {
			stack = append(stack, fmt.Sprintf("%s %s:%d", fr.Function, filepath.Base(fr.File), fr.Line))
		}
		fi := classify(fr)
		if fi.mod != "" {
			if site == "" {
				site = fi.site
			}
			if caller == "" && fi.mod == "nuts-node" {
				caller = fi.site
			}
		}
		if !more {
			break
		}
	}
	if site == "" {
		site = "unknown-site"
	}
	if caller == "" {
		caller = site
	}
	return
}

// Running is a guarded call in flight.
type Running struct {
	done  chan Result
	start time.Time
}

// Start runs f in its own goroutine under recover().
func Start(f func() string) *Running {
	r := &Running{done: make(chan Result, 1), start: time.Now()}
	go func() {
		var res Result
		defer func() {
			if p := recover(); p != nil {
				pcs := make([]uintptr, 64)
				n := runtime.Callers(2, pcs)
				res.Panicked = true
				res.Value = truncate(fmt.Sprint(p), 300)
				res.Site, res.Caller, res.Stack = analyse(pcs[:n])
			}
			res.Elapsed = time.Since(r.start)
			r.done <- res
		}()
		res.Outcome = f()
	}()
	return r
}

// Wait waits until the call has been running for `total` (measured from its start). ok=false: still running.
func (r *Running) Wait(total time.Duration) (Result, bool) {
	left := total - time.Since(r.start)
	if left < 0 {
		left = 0
	}
	timer := time.NewTimer(left)
	defer timer.Stop()
	select {
	case res := <-r.done:
		return res, true
	case <-timer.C:
		return Result{TimedOut: true, Elapsed: time.Since(r.start)}, false
	}
}

// Calibrate measures how long a fixed piece of CPU work (about 10 ms on an idle core) takes right now:
// the yardstick that keeps a loaded machine from being mistaken for a non-terminating callee.
func Calibrate() time.Duration {
	best := time.Duration(1<<62 - 1)
	buf := make([]byte, 1<<20)
	for k := 0; k < 3; k++ {
		t0 := time.Now()
		var acc [32]byte
		for i := 0; i < 4; i++ {
			buf[0] = byte(i)
			acc = sha256.Sum256(buf)
		}
		_ = acc
		if d := time.Since(t0); d < best {
			best = d
		}
	}
	return best
}

// Call runs f under recover() and the deadline. When the deadline passes the goroutine is abandoned
// (it cannot be killed); the caller decides what to do with TimedOut.
func Call(deadline time.Duration, f func() string) Result {
	done := make(chan Result, 1)
	start := time.Now()
	go func() {
		var res Result
		defer func() {
			if p := recover(); p != nil {
				pcs := make([]uintptr, 64)
				n := runtime.Callers(2, pcs)
				res.Panicked = true
				res.Value = truncate(fmt.Sprint(p), 300)
				res.Site, res.Caller, res.Stack = analyse(pcs[:n])
			}
			res.Elapsed = time.Since(start)
			done <- res
		}()
		res.Outcome = f()
	}()
	timer := time.NewTimer(deadline)
	defer timer.Stop()
	select {
	case res := <-done:
		return res
	case <-timer.C:
		return Result{TimedOut: true, Elapsed: time.Since(start)}
	}
}

func truncate(s string, n int) string {
	if len(s) > n {
		return s[:n] + "..."
	}
	return s
}

// Pending is the journal of a worker: the case that is about to be executed is written to a file in the run
// directory BEFORE the call, so that a supervisor (or the driver's logs) knows what killed or blocked the process.
type Pending struct{ path string }

func NewPending() *Pending { return &Pending{path: stateFile("pending")} }

// Journal records the case at position seq as pending.
func (p *Pending) Journal(seq int, entry, desc string, input []byte) {
	if p.path == "" {
		return
	}
	if len(input) > 2048 {
		input = input[:2048]
	}
	b, _ := json.Marshal(journalEntry{Seq: seq, Entry: entry, Desc: desc, Input: string(input)})
	_ = os.WriteFile(p.path, b, 0o644)
}

// Done marks an orderly end of the sweep.
func (p *Pending) Done() {
	if p.path == "" {
		return
	}
	b, _ := json.Marshal(journalEntry{Seq: -1, Done: true})
	_ = os.WriteFile(p.path, b, 0o644)
}
