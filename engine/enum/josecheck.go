package enum

import (
	"crypto"
	"fmt"
	"strings"
)

// JOSEConsumer describes, for the reference predicate, what the protocol of one consumer of signed tokens says.
type JOSEConsumer struct {
	Name        string
	EmbeddedKey bool     // the protocol carries the verification key inside the token: the private-key clause applies
	BytesAreID  bool     // the received bytes are the object's identity (DAG: reference = SHA-256 of the bytes)
	AlgFromKey  bool     // the protocol derives the algorithm from the resolved key and treats the JWS header as opaque signed bytes (JSON-LD proofs)
	Allowed     []string // algorithm labels the node documents as allowed for this consumer
	// KeyFor names the key the PROTOCOL designates for the protected header as received (nil: none, must be refused)
	KeyFor func(f JOSEFacts) crypto.PublicKey
}

// JOSEVerdict is the reference predicate's answer for one variant, evaluated on its bytes as sent.
type JOSEVerdict struct {
	Strict  bool   // satisfies every clause under the strict reading
	Lenient bool   // satisfies every clause under the strict or the liberal reading
	Clause  string // first clause failed
	Alg     string // fitting algorithm under which the signature verifies
}

func isMacOrNone(a string) bool {
	return strings.EqualFold(a, "none") || strings.HasPrefix(strings.ToUpper(a), "HS")
}

// JOSEReference transcribes the statement of C17:
// exactly one signature; made with an asymmetric algorithm that fits the verification key; verified over the bytes
// received; the key is the one the protocol names; embedded private keys are refused.
func JOSEReference(c JOSEConsumer, v JOSEVariant, signingPayload string) JOSEVerdict {
	f := v.Facts(signingPayload)
	if !f.Readable || f.Header == nil {
		return JOSEVerdict{Clause: "not-a-jws"}
	}
	if f.NumSigs != 1 {
		return JOSEVerdict{Clause: "signature-count"}
	}
	if c.EmbeddedKey && f.PrivateJWK {
		return JOSEVerdict{Clause: "private-jwk"}
	}
	key := c.KeyFor(f)
	if key == nil {
		return JOSEVerdict{Clause: "key-source"}
	}
	a := VerifyAnyFitting(key, f.Input, f.Sig)
	if a == "" {
		cl := "signature-invalid-under-protocol-key"
		if isMacOrNone(f.Alg) {
			cl = "alg-none-or-mac"
		} else if len(f.Alg) == 5 && strings.HasPrefix(f.Alg, "ES") && VerifyECDSALoose(f.Alg, key, f.Input, f.Sig) {
			// verifies with the key's primitive under the hash the LABEL names although the label does not fit the key
			cl = "alg-key-mismatch"
		}
		return JOSEVerdict{Clause: cl}
	}
	if !c.AlgFromKey && f.Alg != a {
		// a genuine signature by the right key, but made with ANOTHER algorithm than the protected header names
		return JOSEVerdict{Clause: "alg-label-mismatch", Alg: a}
	}
	return JOSEVerdict{Strict: f.Strict, Lenient: true, Alg: a}
}

// JOSEFinding is what an ACCEPTED variant amounts to.
type JOSEFinding struct {
	Kind      string // "ok" | "violation" | "observation"
	Signature string // violation signature / observation kind
	What      string
	Reenc     bool
}

// JOSEJudgeAccepted classifies the acceptance of variant v by consumer c. Refusals are never judged: the statement
// says "accepted only if".
func JOSEJudgeAccepted(prop string, c JOSEConsumer, v JOSEVariant, signingPayload, family string) JOSEFinding {
	vd := JOSEReference(c, v, signingPayload)
	switch {
	case c.BytesAreID && vd.Lenient && !(vd.Strict && v.Form == "compact"):
		cl := v.Reenc
		if cl == "" {
			cl = "json-serialisation"
		}
		return JOSEFinding{Kind: "violation", Signature: prop + "|bytes-received|" + c.Name + "|" + cl,
			What: fmt.Sprintf("%s accepts variant %q (%s): the signature is not verified over the bytes received, yet those bytes (their SHA-256) become the transaction reference - anyone can mint further 'validly signed' transactions from a signed one", c.Name, v.Name, cl)}
	case vd.Strict:
		f := v.Facts(signingPayload)
		if f.Alg != vd.Alg {
			return JOSEFinding{Kind: "observation", Signature: "alg-label-not-inspected|" + c.Name,
				What: fmt.Sprintf("variant %s: label %q, signature made with %s", v.Name, f.Alg, vd.Alg)}
		}
		ok := false
		for _, a := range c.Allowed {
			ok = ok || a == f.Alg
		}
		if !ok {
			return JOSEFinding{Kind: "violation", Signature: prop + "|alg-not-allowed|" + c.Name + "|" + v.Class,
				What: fmt.Sprintf("%s accepts a token signed with %s, which is outside the algorithms the node allows for this consumer (%s key)", c.Name, f.Alg, family)}
		}
		return JOSEFinding{Kind: "ok"}
	case vd.Lenient:
		return JOSEFinding{Kind: "observation", Reenc: true, Signature: "reencoding-accepted|" + c.Name + "|" + v.Reenc,
			What: fmt.Sprintf("variant %s (%s key)", v.Name, family)}
	}
	return JOSEFinding{Kind: "violation", Signature: prop + "|" + vd.Clause + "|" + c.Name + "|" + v.Class,
		What: fmt.Sprintf("%s accepts variant %q of a valid %s token although it fails the clause %q (evaluated on the bytes as sent)", c.Name, v.Name, family, vd.Clause)}
}
