// JOSE variant generator (shared by every consumer of signed tokens, property C17; also usable by C01/C04).
//
// From ONE valid compact JWS it derives a finite, deterministic list of hostile variants:
// algorithm lattice, signature count (JSON serialisations), unprotected-header smuggling, key-carrying
// headers, foreign kid, embedded private JWKs of every type, a flip at every character position and
// transport re-encodings. Each variant carries its own structure AS SENT, so that a reference predicate
// can be evaluated on the bytes of the variant and not on the label of the operator that made it.
//
// Nothing here uses a JOSE library: signing, MACs, JWK conversion and the reference verification are
// written on the standard library so that the reference does not share code with the implementation
// under test.
package enum

import (
	"bytes"
	"crypto"
	"crypto/ecdsa"
	"crypto/ed25519"
	"crypto/elliptic"
	"crypto/hmac"
	"crypto/rand"
	"crypto/rsa"
	"crypto/sha256"
	"crypto/sha512"
	"crypto/x509"
	"crypto/x509/pkix"
	"encoding/base64"
	"encoding/binary"
	"encoding/json"
	"encoding/pem"
	"errors"
	"fmt"
	"hash"
	"math/big"
	"sort"
	"strings"
	"time"
)

// Families of asymmetric keys.
const (
	FamP256    = "P-256"
	FamP384    = "P-384"
	FamP521    = "P-521"
	FamRSA     = "RSA"
	FamEd25519 = "Ed25519"
)

// AllFamilies in a fixed order.
var AllFamilies = []string{FamP256, FamP384, FamP521, FamRSA, FamEd25519}

// JOSEKey is a party's key pair and the key id under which consumers may resolve it.
type JOSEKey struct {
	Name   string
	Family string
	Priv   crypto.Signer
	Kid    string
}

func (k JOSEKey) Public() crypto.PublicKey { return k.Priv.Public() }

// GenerateJOSEKey makes a fresh key of the family (RSA: 2048 bits).
func GenerateJOSEKey(name, family string) (JOSEKey, error) {
	var p crypto.Signer
	var err error
	switch family {
	case FamP256:
		p, err = ecdsa.GenerateKey(elliptic.P256(), rand.Reader)
	case FamP384:
		p, err = ecdsa.GenerateKey(elliptic.P384(), rand.Reader)
	case FamP521:
		p, err = ecdsa.GenerateKey(elliptic.P521(), rand.Reader)
	case FamRSA:
		p, err = rsa.GenerateKey(rand.Reader, 2048)
	case FamEd25519:
		_, priv, e := ed25519.GenerateKey(rand.Reader)
		p, err = priv, e
	default:
		err = fmt.Errorf("unknown family %s", family)
	}
	return JOSEKey{Name: name, Family: family, Priv: p}, err
}

// FamilyOf names the family of a public key ("" when unknown).
func FamilyOf(pub crypto.PublicKey) string {
	switch k := pub.(type) {
	case *ecdsa.PublicKey:
		switch k.Curve.Params().BitSize {
		case 256:
			return FamP256
		case 384:
			return FamP384
		case 521:
			return FamP521
		}
	case ecdsa.PublicKey:
		return FamilyOf(&k)
	case *rsa.PublicKey, rsa.PublicKey:
		return FamRSA
	case ed25519.PublicKey:
		return FamEd25519
	}
	return ""
}

// FittingAlgs lists the JOSE algorithms that fit a key of the family (RFC 7518 §3.1, RFC 8037): the curve
// is part of the ES* algorithm definitions.
func FittingAlgs(family string) []string {
	switch family {
	case FamP256:
		return []string{"ES256"}
	case FamP384:
		return []string{"ES384"}
	case FamP521:
		return []string{"ES512"}
	case FamRSA:
		return []string{"PS256", "PS384", "PS512", "RS256", "RS384", "RS512"}
	case FamEd25519:
		return []string{"EdDSA"}
	}
	return nil
}

// DefaultAlg is the algorithm the node itself would pick for the family.
func DefaultAlg(family string) string {
	if family == FamRSA {
		return "PS256"
	}
	return FittingAlgs(family)[0]
}

func hashFor(alg string) (crypto.Hash, func() hash.Hash) {
	switch alg[len(alg)-3:] {
	case "256":
		return crypto.SHA256, sha256.New
	case "384":
		return crypto.SHA384, sha512.New384
	case "512":
		return crypto.SHA512, sha512.New
	}
	return 0, nil
}

func digest(alg string, in []byte) (crypto.Hash, []byte) {
	h, f := hashFor(alg)
	if f == nil {
		return 0, nil
	}
	w := f()
	w.Write(in)
	return h, w.Sum(nil)
}

// SignRaw signs input under the LABEL alg with whatever key is given, as long as the key family can execute
// the primitive: an ES* label with a key on ANY curve (that is the curve-mismatch variant), PS*/RS* with RSA,
// EdDSA with Ed25519.
func SignRaw(alg string, key crypto.Signer, input []byte) ([]byte, error) {
	switch {
	case strings.HasPrefix(alg, "ES") && len(alg) == 5:
		k, ok := key.(*ecdsa.PrivateKey)
		if !ok {
			return nil, errors.New("not an EC key")
		}
		_, d := digest(alg, input)
		if d == nil {
			return nil, errors.New("unknown hash")
		}
		r, s, err := ecdsa.Sign(rand.Reader, k, d)
		if err != nil {
			return nil, err
		}
		n := (k.Curve.Params().BitSize + 7) / 8
		out := make([]byte, 2*n)
		r.FillBytes(out[:n])
		s.FillBytes(out[n:])
		return out, nil
	case strings.HasPrefix(alg, "PS") && len(alg) == 5:
		k, ok := key.(*rsa.PrivateKey)
		if !ok {
			return nil, errors.New("not an RSA key")
		}
		h, d := digest(alg, input)
		if d == nil {
			return nil, errors.New("unknown hash")
		}
		return rsa.SignPSS(rand.Reader, k, h, d, &rsa.PSSOptions{SaltLength: rsa.PSSSaltLengthEqualsHash})
	case strings.HasPrefix(alg, "RS") && len(alg) == 5:
		k, ok := key.(*rsa.PrivateKey)
		if !ok {
			return nil, errors.New("not an RSA key")
		}
		h, d := digest(alg, input)
		if d == nil {
			return nil, errors.New("unknown hash")
		}
		return rsa.SignPKCS1v15(rand.Reader, k, h, d)
	case alg == "EdDSA":
		k, ok := key.(ed25519.PrivateKey)
		if !ok {
			return nil, errors.New("not an Ed25519 key")
		}
		return ed25519.Sign(k, input), nil
	}
	return nil, fmt.Errorf("cannot sign with %s", alg)
}

// MacRaw computes HS256/384/512.
func MacRaw(alg string, secret, input []byte) []byte {
	_, f := hashFor(alg)
	if f == nil {
		return nil
	}
	m := hmac.New(f, secret)
	m.Write(input)
	return m.Sum(nil)
}

// VerifyRaw is the strict reference verification: alg must FIT the key (family and curve), the signature must
// have the exact length the algorithm defines, and must verify over input.
func VerifyRaw(alg string, pub crypto.PublicKey, input, sig []byte) bool {
	fam := FamilyOf(pub)
	fits := false
	for _, a := range FittingAlgs(fam) {
		fits = fits || a == alg
	}
	if !fits {
		return false
	}
	switch k := pub.(type) {
	case ecdsa.PublicKey:
		return VerifyRaw(alg, &k, input, sig)
	case rsa.PublicKey:
		return VerifyRaw(alg, &k, input, sig)
	case *ecdsa.PublicKey:
		n := (k.Curve.Params().BitSize + 7) / 8
		if len(sig) != 2*n {
			return false
		}
		_, d := digest(alg, input)
		return ecdsa.Verify(k, d, new(big.Int).SetBytes(sig[:n]), new(big.Int).SetBytes(sig[n:]))
	case *rsa.PublicKey:
		h, d := digest(alg, input)
		if strings.HasPrefix(alg, "PS") {
			return rsa.VerifyPSS(k, h, d, sig, &rsa.PSSOptions{SaltLength: rsa.PSSSaltLengthAuto}) == nil
		}
		return rsa.VerifyPKCS1v15(k, h, d, sig) == nil
	case ed25519.PublicKey:
		return ed25519.Verify(k, input, sig)
	}
	return false
}

// VerifyAnyFitting reports the fitting algorithm (if any) under which sig verifies over input with pub.
func VerifyAnyFitting(pub crypto.PublicKey, input, sig []byte) string {
	for _, a := range FittingAlgs(FamilyOf(pub)) {
		if VerifyRaw(a, pub, input, sig) {
			return a
		}
	}
	return ""
}

// ---------------------------------------------------------------------------------- JWK conversion

func b64u(b []byte) string { return base64.RawURLEncoding.EncodeToString(b) }

// B64 is base64url without padding.
func B64(b []byte) string { return b64u(b) }

func crvName(c elliptic.Curve) string {
	switch c.Params().BitSize {
	case 256:
		return "P-256"
	case 384:
		return "P-384"
	case 521:
		return "P-521"
	}
	return ""
}

// PublicJWK renders the public key as a JWK member map.
func PublicJWK(pub crypto.PublicKey) map[string]any {
	switch k := pub.(type) {
	case *ecdsa.PublicKey:
		n := (k.Curve.Params().BitSize + 7) / 8
		x, y := make([]byte, n), make([]byte, n)
		k.X.FillBytes(x)
		k.Y.FillBytes(y)
		return map[string]any{"kty": "EC", "crv": crvName(k.Curve), "x": b64u(x), "y": b64u(y)}
	case *rsa.PublicKey:
		return map[string]any{"kty": "RSA", "n": b64u(k.N.Bytes()), "e": b64u(big.NewInt(int64(k.E)).Bytes())}
	case ed25519.PublicKey:
		return map[string]any{"kty": "OKP", "crv": "Ed25519", "x": b64u(k)}
	}
	return nil
}

// PrivateJWK renders the PRIVATE key as a JWK member map (with "d" and, for RSA, the CRT members).
func PrivateJWK(priv crypto.Signer) map[string]any {
	m := PublicJWK(priv.Public())
	switch k := priv.(type) {
	case *ecdsa.PrivateKey:
		n := (k.Curve.Params().BitSize + 7) / 8
		d := make([]byte, n)
		k.D.FillBytes(d)
		m["d"] = b64u(d)
	case *rsa.PrivateKey:
		k.Precompute()
		m["d"] = b64u(k.D.Bytes())
		m["p"] = b64u(k.Primes[0].Bytes())
		m["q"] = b64u(k.Primes[1].Bytes())
		m["dp"] = b64u(k.Precomputed.Dp.Bytes())
		m["dq"] = b64u(k.Precomputed.Dq.Bytes())
		m["qi"] = b64u(k.Precomputed.Qinv.Bytes())
	case ed25519.PrivateKey:
		m["d"] = b64u(k.Seed())
	}
	return m
}

// JWKToPublic converts a JWK member map (as found in a received header) to a public key and tells whether the
// JWK carries private (or symmetric) key material.
func JWKToPublic(m map[string]any) (pub crypto.PublicKey, private bool, err error) {
	str := func(k string) string { s, _ := m[k].(string); return s }
	dec := func(k string) []byte {
		b, _ := base64.RawURLEncoding.DecodeString(strings.TrimRight(str(k), "="))
		return b
	}
	for _, k := range []string{"d", "p", "q", "dp", "dq", "qi", "k", "oth"} {
		if _, ok := m[k]; ok {
			private = true
		}
	}
	switch str("kty") {
	case "EC":
		var c elliptic.Curve
		switch str("crv") {
		case "P-256":
			c = elliptic.P256()
		case "P-384":
			c = elliptic.P384()
		case "P-521":
			c = elliptic.P521()
		default:
			return nil, private, errors.New("unknown curve")
		}
		x, y := new(big.Int).SetBytes(dec("x")), new(big.Int).SetBytes(dec("y"))
		if !c.IsOnCurve(x, y) {
			return nil, private, errors.New("point not on curve")
		}
		return &ecdsa.PublicKey{Curve: c, X: x, Y: y}, private, nil
	case "RSA":
		n, e := new(big.Int).SetBytes(dec("n")), new(big.Int).SetBytes(dec("e"))
		if n.Sign() == 0 || !e.IsInt64() || e.Int64() < 3 {
			return nil, private, errors.New("bad rsa key")
		}
		return &rsa.PublicKey{N: n, E: int(e.Int64())}, private, nil
	case "OKP":
		if str("crv") != "Ed25519" || len(dec("x")) != ed25519.PublicKeySize {
			return nil, private, errors.New("bad okp key")
		}
		return ed25519.PublicKey(dec("x")), private, nil
	case "oct":
		return nil, true, errors.New("symmetric key")
	}
	return nil, private, errors.New("unknown kty")
}

// Thumbprint is the RFC 7638 SHA-256 thumbprint (base64url) of the public part.
func Thumbprint(pub crypto.PublicKey) string {
	m := PublicJWK(pub)
	keys := make([]string, 0, len(m))
	for k := range m {
		keys = append(keys, k)
	}
	sort.Strings(keys)
	var sb strings.Builder
	sb.WriteString("{")
	for i, k := range keys {
		if i > 0 {
			sb.WriteString(",")
		}
		fmt.Fprintf(&sb, "%q:%q", k, m[k])
	}
	sb.WriteString("}")
	s := sha256.Sum256([]byte(sb.String()))
	return b64u(s[:])
}

// PublicKeyEncodings lists byte encodings of a public key that an algorithm-confusion attacker would try as an
// HMAC secret.
func PublicKeyEncodings(pub crypto.PublicKey, kid string) []struct {
	Name string
	B    []byte
} {
	type enc = struct {
		Name string
		B    []byte
	}
	var out []enc
	if der, err := x509.MarshalPKIXPublicKey(pub); err == nil {
		out = append(out, enc{"pkix-der", der})
		out = append(out, enc{"pkix-pem", pem.EncodeToMemory(&pem.Block{Type: "PUBLIC KEY", Bytes: der})})
	}
	j, _ := json.Marshal(PublicJWK(pub))
	out = append(out, enc{"jwk-json", j})
	switch k := pub.(type) {
	case *ecdsa.PublicKey:
		out = append(out, enc{"ec-uncompressed", elliptic.Marshal(k.Curve, k.X, k.Y)})
		out = append(out, enc{"ssh-wire", sshWireEC(k)})
	case *rsa.PublicKey:
		out = append(out, enc{"rsa-n", k.N.Bytes()})
		if k1 := x509.MarshalPKCS1PublicKey(k); k1 != nil {
			out = append(out, enc{"pkcs1-der", k1})
		}
		out = append(out, enc{"ssh-wire", sshWireRSA(k)})
	case ed25519.PublicKey:
		out = append(out, enc{"ed-raw", []byte(k)})
		out = append(out, enc{"ssh-wire", sshWire("ssh-ed25519", []byte(k))})
	}
	out = append(out, enc{"kid", []byte(kid)})
	out = append(out, enc{"empty", []byte{}})
	return out
}

func sshString(b []byte) []byte {
	o := make([]byte, 4+len(b))
	binary.BigEndian.PutUint32(o, uint32(len(b)))
	copy(o[4:], b)
	return o
}
func sshWire(parts ...any) []byte {
	var o []byte
	for _, p := range parts {
		switch v := p.(type) {
		case string:
			o = append(o, sshString([]byte(v))...)
		case []byte:
			o = append(o, sshString(v)...)
		}
	}
	return o
}
func sshMpint(n *big.Int) []byte {
	b := n.Bytes()
	if len(b) > 0 && b[0]&0x80 != 0 {
		b = append([]byte{0}, b...)
	}
	return b
}
func sshWireEC(k *ecdsa.PublicKey) []byte {
	id := map[int]string{256: "nistp256", 384: "nistp384", 521: "nistp521"}[k.Curve.Params().BitSize]
	return sshWire("ecdsa-sha2-"+id, id, elliptic.Marshal(k.Curve, k.X, k.Y))
}
func sshWireRSA(k *rsa.PublicKey) []byte {
	return sshWire("ssh-rsa", sshMpint(big.NewInt(int64(k.E))), sshMpint(k.N))
}

// SelfSignedCertB64 returns a standard-base64 DER certificate (x5c entry) over the key.
func SelfSignedCertB64(k crypto.Signer) string {
	tpl := &x509.Certificate{SerialNumber: big.NewInt(1), Subject: pkix.Name{CommonName: "verif"},
		NotBefore: time.Now().Add(-time.Hour), NotAfter: time.Now().Add(24 * time.Hour)}
	der, err := x509.CreateCertificate(rand.Reader, tpl, tpl, k.Public(), k)
	if err != nil {
		return ""
	}
	return base64.StdEncoding.EncodeToString(der)
}

// ---------------------------------------------------------------------------------- variants

// JOSESig is one signature of a variant as sent.
type JOSESig struct {
	Protected   string         `json:"protected"`        // protected-header member as sent
	Signature   string         `json:"signature"`        // signature member as sent
	Unprotected map[string]any `json:"header,omitempty"` // unprotected header (JSON serialisations)
}

// JOSEVariant is one hostile (or control) rendering of the token.
type JOSEVariant struct {
	Class string `json:"class"` // stable structural class, e.g. "alg/none"
	Name  string `json:"name"`  // class plus parameters (position, algorithm, encoding)
	Token string `json:"token"` // what is sent to the consumer
	// Structure as sent. Form "malformed" means that no strict reading as a JWS exists; Sigs/Payload then hold
	// the LENIENT reading, if there is one (LenientOnly), otherwise nothing.
	Form        string    `json:"form"` // compact | flattened | general | malformed
	Payload     string    `json:"payload"`
	Sigs        []JOSESig `json:"sigs"`
	LenientOnly bool      `json:"lenient_only,omitempty"`
	Reenc       string    `json:"reenc,omitempty"` // which liberal reading is needed (for the explicit class list)
}

// JOSEInput describes the valid original.
type JOSEInput struct {
	Token string // valid compact JWS "protected.payload.signature"; for a detached one "protected..signature"
	// SigningPayload is what stands between the dots of the signing input. Empty: the payload segment of Token.
	// For a detached token (LD proof: b64=false) the raw bytes that were signed.
	SigningPayload string
	Signer         JOSEKey // legitimate signer (Kid = the key id in the token, may be "")
	Foreign        JOSEKey // ANOTHER party whose key the consumer can resolve under Foreign.Kid
	Rogue          JOSEKey // attacker key that nothing resolves
	// NearMiss are further resolvable parties whose DID (and hence kid) is a near-miss of the signer's (see NearMissDIDs),
	// each with its own key; Name = the kind of near-miss
	NearMiss    []JOSEKey
	FlipStride  int  // payload-segment flip stride (header and signature segments are always flipped at every position); <=1: every position
	FlipAllBits bool // flip each of the six bits of every flipped character (default: the lowest bit; all six only in the last two characters)
	// KeepHeader lists protected-header members the re-signing variants must not drop (default: all are kept).
	NoJSON bool // consumer input cannot carry JSON serialisations at all (skips nothing, only a hint)
}

const b64alphabet = "ABCDEFGHIJKLMNOPQRSTUVWXYZabcdefghijklmnopqrstuvwxyz0123456789-_"

// JOSEVariants generates the variant list. The first entry is the identity (control).
func JOSEVariants(in JOSEInput) ([]JOSEVariant, error) {
	seg := strings.Split(in.Token, ".")
	if len(seg) != 3 {
		return nil, errors.New("original must be a compact JWS")
	}
	prot0, pay0, sig0 := seg[0], seg[1], seg[2]
	hb, err := base64.RawURLEncoding.DecodeString(prot0)
	if err != nil {
		return nil, err
	}
	var hdr0 map[string]any
	if err := json.Unmarshal(hb, &hdr0); err != nil {
		return nil, err
	}
	alg0, _ := hdr0["alg"].(string)
	sp := in.SigningPayload
	detached := pay0 == "" && sp != ""
	if sp == "" {
		sp = pay0
	}
	var out []JOSEVariant
	compact := func(class, name, prot, sig string) {
		out = append(out, JOSEVariant{Class: class, Name: name, Token: prot + "." + pay0 + "." + sig, Form: "compact",
			Payload: pay0, Sigs: []JOSESig{{Protected: prot, Signature: sig}}})
	}
	hdrWith := func(mod func(h map[string]any)) string {
		h := Clone(any(hdr0)).(map[string]any)
		mod(h)
		b, _ := json.Marshal(h)
		return b64u(b)
	}
	// sign the given protected segment with key under the label alg; "" when the primitive cannot run
	signSeg := func(prot string, key crypto.Signer, alg string) string {
		s, err := SignRaw(alg, key, []byte(prot+"."+sp))
		if err != nil {
			return ""
		}
		return b64u(s)
	}
	resign := func(class, name string, key JOSEKey, alg string, mod func(h map[string]any)) {
		prot := hdrWith(func(h map[string]any) {
			h["alg"] = alg
			if mod != nil {
				mod(h)
			}
		})
		sig := signSeg(prot, key.Priv, alg)
		if sig == "" {
			return
		}
		compact(class, name, prot, sig)
	}

	// 0. control
	compact("identity", "identity", prot0, sig0)

	// 1. algorithm header swapped, signature kept
	for _, a := range []any{"none", "HS256", "HS384", "HS512", "ES256", "ES384", "ES512", "ES256K", "PS256", "PS384", "PS512",
		"RS256", "RS384", "RS512", "EdDSA", "", nil, float64(5), []any{alg0}, strings.ToLower(alg0)} {
		if s, ok := a.(string); ok && s == alg0 {
			continue
		}
		a := a
		compact("alg/swap-keep-sig", fmt.Sprintf("alg/swap-keep-sig:%v", a), hdrWith(func(h map[string]any) { h["alg"] = a }), sig0)
	}
	compact("alg/swap-keep-sig", "alg/swap-keep-sig:missing", hdrWith(func(h map[string]any) { delete(h, "alg") }), sig0)
	// 2. "none"
	for _, spelling := range []string{"none", "None", "NONE", "nOnE"} {
		spelling := spelling
		p := hdrWith(func(h map[string]any) { h["alg"] = spelling })
		compact("alg/none", "alg/none-empty-sig:"+spelling, p, "")
		out = append(out, JOSEVariant{Class: "alg/none", Name: "alg/none-two-segments:" + spelling, Token: p + "." + pay0, Form: "malformed"})
	}
	// 3. MAC keyed with public material (algorithm confusion)
	for _, hs := range []string{"HS256", "HS384", "HS512"} {
		for _, e := range PublicKeyEncodings(in.Signer.Public(), in.Signer.Kid) {
			p := hdrWith(func(h map[string]any) { h["alg"] = hs })
			compact("alg/hmac-public-key", "alg/hmac-public-key:"+hs+":"+e.Name, p, b64u(MacRaw(hs, e.B, []byte(p+"."+sp))))
		}
	}
	// 4. the legitimate key signs under every label its primitive can execute (curve / hash / padding mismatch)
	for _, a := range []string{"ES256", "ES384", "ES512", "PS256", "PS384", "PS512", "RS256", "RS384", "RS512", "EdDSA"} {
		if a == alg0 {
			continue
		}
		resign("alg/relabel-by-signer", "alg/relabel-by-signer:"+a, in.Signer, a, nil)
	}
	// 4b. label lies: signed with the fitting algorithm, labelled otherwise
	for _, a := range []string{"none", "HS256", "ES256", "ES384", "ES512", "PS256", "RS256", "EdDSA"} {
		if a == alg0 {
			continue
		}
		p := hdrWith(func(h map[string]any) { h["alg"] = a })
		if s := signSeg(p, in.Signer.Priv, alg0); s != "" {
			compact("alg/label-lies", "alg/label-lies:"+a, p, s)
		}
	}
	// 5. key source
	fAlg, rAlg := DefaultAlg(in.Foreign.Family), DefaultAlg(in.Rogue.Family)
	_, hadKid := hdr0["kid"]
	_, hadJWK := hdr0["jwk"]
	setKid := func(k string) func(h map[string]any) {
		return func(h map[string]any) {
			if hadKid || !hadJWK {
				h["kid"] = k
			}
			if hadJWK {
				h["jwk"] = PublicJWK(in.Foreign.Public())
			}
		}
	}
	resign("key/foreign-party", "key/foreign-party-own-kid", in.Foreign, fAlg, setKid(in.Foreign.Kid))
	resign("key/foreign-party", "key/foreign-party-victim-kid", in.Foreign, fAlg, nil)
	for _, nm := range in.NearMiss {
		nm := nm
		if !hadKid {
			break
		}
		resign("key/near-miss", "key/near-miss:"+nm.Name, nm, DefaultAlg(nm.Family), func(h map[string]any) { h["kid"] = nm.Kid })
	}
	resign("key/rogue", "key/rogue-victim-kid", in.Rogue, rAlg, nil)
	resign("key/rogue", "key/rogue-no-kid", in.Rogue, rAlg, func(h map[string]any) { delete(h, "kid") })
	resign("key/rogue", "key/rogue-empty-kid", in.Rogue, rAlg, func(h map[string]any) { h["kid"] = "" })
	resign("key/rogue+jwk", "key/rogue+jwk-victim-kid", in.Rogue, rAlg, func(h map[string]any) { h["jwk"] = PublicJWK(in.Rogue.Public()) })
	resign("key/rogue+jwk", "key/rogue+jwk-no-kid", in.Rogue, rAlg, func(h map[string]any) {
		delete(h, "kid")
		h["jwk"] = PublicJWK(in.Rogue.Public())
	})
	resign("key/rogue+jwk", "key/rogue+jwk-with-kid-member", in.Rogue, rAlg, func(h map[string]any) {
		j := PublicJWK(in.Rogue.Public())
		j["kid"] = in.Signer.Kid
		h["jwk"] = j
	})
	resign("key/rogue+jku", "key/rogue+jku", in.Rogue, rAlg, func(h map[string]any) { h["jku"] = "https://attacker.example/jwks.json" })
	resign("key/rogue+x5u", "key/rogue+x5u", in.Rogue, rAlg, func(h map[string]any) { h["x5u"] = "https://attacker.example/cert.pem" })
	if c := SelfSignedCertB64(in.Rogue.Priv); c != "" {
		resign("key/rogue+x5c", "key/rogue+x5c", in.Rogue, rAlg, func(h map[string]any) { h["x5c"] = []any{c} })
		resign("key/rogue+x5c", "key/rogue+x5c-no-kid", in.Rogue, rAlg, func(h map[string]any) {
			delete(h, "kid")
			h["x5c"] = []any{c}
		})
	}
	// key-ish headers on a token signed by the RIGHT key (acceptable when the key is still taken from the right place)
	resign("key/signer+extra", "key/signer+own-public-jwk", in.Signer, alg0, func(h map[string]any) { h["jwk"] = PublicJWK(in.Signer.Public()) })
	resign("key/signer+extra", "key/signer+rogue-public-jwk", in.Signer, alg0, func(h map[string]any) { h["jwk"] = PublicJWK(in.Rogue.Public()) })
	resign("key/signer+extra", "key/signer+jku", in.Signer, alg0, func(h map[string]any) { h["jku"] = "https://attacker.example/jwks.json" })
	resign("key/signer+extra", "key/signer+x5u", in.Signer, alg0, func(h map[string]any) { h["x5u"] = "https://attacker.example/cert.pem" })
	if c := SelfSignedCertB64(in.Rogue.Priv); c != "" {
		resign("key/signer+extra", "key/signer+rogue-x5c", in.Signer, alg0, func(h map[string]any) { h["x5c"] = []any{c} })
	}
	// 5b. two places to read the algorithm from. The embedded JWK's OWN optional members are a dimension: its `alg` may
	// disagree with the protected `alg` header, and the signature may be made with either. (For tokens without a `jwk`
	// header the signer's public key is added as one.) The statement: the signature must be made with the algorithm the
	// PROTECTED header names.
	{
		canRun := func(a string) bool { _, err := SignRaw(a, in.Signer.Priv, []byte("probe")); return err == nil }
		hdrAlgs := []string{alg0}
		for _, a := range []string{"ES256", "ES384", "ES512", "PS256", "PS384", "PS512", "EdDSA"} {
			if a != alg0 {
				hdrAlgs = append(hdrAlgs, a)
			}
		}
		jwkAlgs := []string{"", "ES256", "ES384", "ES512", "PS256", "PS384", "PS512", "RS256", "RS384", "RS512", "EdDSA", "none", "HS256"}
		withJWKAlg := func(ja string) func(h map[string]any) {
			return func(h map[string]any) {
				j := PublicJWK(in.Signer.Public())
				if ja != "" {
					j["alg"] = ja
				}
				h["jwk"] = j
			}
		}
		for _, ha := range hdrAlgs {
			for _, ja := range jwkAlgs {
				name := fmt.Sprintf("jwk-member/alg:header=%s,jwk=%s", ha, map[bool]string{true: "absent", false: ja}[ja == ""])
				mod := withJWKAlg(ja)
				// (i) signature made with the algorithm the HEADER names
				if canRun(ha) && !(ha == alg0 && ja == "" && hadJWK) {
					resign("jwk-member/alg", name+",made-with=header", in.Signer, ha, mod)
				}
				// (ii) signature made with the algorithm the JWK names
				if ja == "" || ja == ha {
					continue
				}
				p := hdrWith(func(h map[string]any) { h["alg"] = ha; mod(h) })
				switch {
				case ja == "none":
					compact("jwk-member/alg", name+",made-with=jwk", p, "")
				case ja == "HS256":
					for _, e := range PublicKeyEncodings(in.Signer.Public(), in.Signer.Kid)[:3] {
						compact("jwk-member/alg", name+",made-with=jwk:"+e.Name, p, b64u(MacRaw("HS256", e.B, []byte(p+"."+sp))))
					}
				case canRun(ja):
					if sg := signSeg(p, in.Signer.Priv, ja); sg != "" {
						compact("jwk-member/alg", name+",made-with=jwk", p, sg)
					}
				}
			}
		}
		// other optional members of the embedded key, on a token signed correctly
		for _, mm := range []struct {
			n string
			k string
			v any
		}{{"use=sig", "use", "sig"}, {"use=enc", "use", "enc"}, {"key_ops=verify", "key_ops", []any{"verify"}}, {"key_ops=sign", "key_ops", []any{"sign"}},
			{"key_ops=encrypt", "key_ops", []any{"encrypt"}}, {"kid=other", "kid", "some-other-kid"}, {"kid=foreign", "kid", in.Foreign.Kid}, {"x5u", "x5u", "https://attacker.example/c.pem"}} {
			mm := mm
			resign("jwk-member/other", "jwk-member/"+mm.n, in.Signer, alg0, func(h map[string]any) {
				j := PublicJWK(in.Signer.Public())
				j[mm.k] = mm.v
				h["jwk"] = j
			})
		}
		// the unprotected header names another algorithm than the protected one; the signature is made with the unprotected one
		for _, ua := range []string{"ES256", "ES384", "ES512", "PS256", "PS384", "PS512", "RS256", "RS512", "EdDSA", "none", "HS256"} {
			if ua == alg0 {
				continue
			}
			var sg string
			switch {
			case ua == "none":
				sg = ""
			case ua == "HS256":
				sg = b64u(MacRaw("HS256", PublicKeyEncodings(in.Signer.Public(), in.Signer.Kid)[0].B, []byte(prot0+"."+sp)))
			case canRun(ua):
				sg = signSeg(prot0, in.Signer.Priv, ua)
			default:
				continue
			}
			for _, form := range []string{"flattened", "general"} {
				pl := pay0
				m := map[string]any{}
				if !detached {
					m["payload"] = pl
				}
				one := map[string]any{"protected": prot0, "signature": sg, "header": map[string]any{"alg": ua}}
				if form == "flattened" {
					for k, v := range one {
						m[k] = v
					}
				} else {
					m["signatures"] = []any{one}
				}
				b, _ := json.Marshal(m)
				out = append(out, JOSEVariant{Class: "algsrc/unprotected", Name: "algsrc/unprotected:" + form + ":unprotected=" + ua + ",made-with=unprotected", Token: string(b), Form: form,
					Payload: pay0, Sigs: []JOSESig{{Protected: prot0, Signature: sg, Unprotected: map[string]any{"alg": ua}}}})
			}
		}
	}

	// 6. embedded PRIVATE keys of every type
	for _, fam := range AllFamilies {
		pk, err := cachedKey(fam)
		if err != nil {
			return nil, err
		}
		rk := JOSEKey{Name: "rogue-" + fam, Family: fam, Priv: pk}
		a := DefaultAlg(fam)
		resign("privjwk/rogue", "privjwk/rogue-"+fam+"-victim-kid", rk, a, func(h map[string]any) { h["jwk"] = PrivateJWK(pk) })
		resign("privjwk/rogue", "privjwk/rogue-"+fam+"-no-kid", rk, a, func(h map[string]any) {
			delete(h, "kid")
			h["jwk"] = PrivateJWK(pk)
		})
		// the right key signs, somebody else's private key rides along
		resign("privjwk/signer+foreign-private", "privjwk/signer+private-"+fam, in.Signer, alg0, func(h map[string]any) { h["jwk"] = PrivateJWK(pk) })
	}
	resign("privjwk/signer-own", "privjwk/signer-own-private-jwk", in.Signer, alg0, func(h map[string]any) { h["jwk"] = PrivateJWK(in.Signer.Priv) })
	resign("privjwk/signer-own", "privjwk/signer-own-private-jwk-no-kid", in.Signer, alg0, func(h map[string]any) {
		delete(h, "kid")
		h["jwk"] = PrivateJWK(in.Signer.Priv)
	})
	resign("privjwk/oct", "privjwk/signer+oct", in.Signer, alg0, func(h map[string]any) {
		h["jwk"] = map[string]any{"kty": "oct", "k": b64u([]byte("0123456789abcdef0123456789abcdef"))}
	})
	{ // MAC with an embedded symmetric key
		k := []byte("0123456789abcdef0123456789abcdef")
		p := hdrWith(func(h map[string]any) {
			h["alg"] = "HS256"
			h["jwk"] = map[string]any{"kty": "oct", "k": b64u(k)}
		})
		compact("privjwk/oct", "privjwk/hmac-with-embedded-oct", p, b64u(MacRaw("HS256", k, []byte(p+"."+sp))))
		p2 := hdrWith(func(h map[string]any) {
			h["alg"] = "HS256"
			delete(h, "kid")
			h["jwk"] = map[string]any{"kty": "oct", "k": b64u(k)}
		})
		compact("privjwk/oct", "privjwk/hmac-with-embedded-oct-no-kid", p2, b64u(MacRaw("HS256", k, []byte(p2+"."+sp))))
	}

	// 7. signature count: JSON serialisations
	jsonTok := func(class, name, form string, payload *string, sigs []JOSESig, extra map[string]any) {
		m := map[string]any{}
		if payload != nil && !detached {
			m["payload"] = *payload
		}
		one := func(s JOSESig) map[string]any {
			o := map[string]any{"protected": s.Protected, "signature": s.Signature}
			if s.Unprotected != nil {
				o["header"] = s.Unprotected
			}
			return o
		}
		if form == "flattened" {
			for k, v := range one(sigs[0]) {
				m[k] = v
			}
		} else {
			arr := []any{}
			for _, s := range sigs {
				arr = append(arr, one(s))
			}
			m["signatures"] = arr
		}
		for k, v := range extra {
			m[k] = v
		}
		b, _ := json.Marshal(m)
		out = append(out, JOSEVariant{Class: class, Name: name, Token: string(b), Form: form, Payload: pay0, Sigs: sigs})
	}
	orig := JOSESig{Protected: prot0, Signature: sig0}
	mk := func(key JOSEKey, alg string, mod func(h map[string]any)) JOSESig {
		p := hdrWith(func(h map[string]any) {
			h["alg"] = alg
			if mod != nil {
				mod(h)
			}
		})
		return JOSESig{Protected: p, Signature: signSeg(p, key.Priv, alg)}
	}
	rogueOwn := mk(in.Rogue, rAlg, func(h map[string]any) {
		if hadKid {
			h["kid"] = "rogue-kid"
		}
		if hadJWK {
			h["jwk"] = PublicJWK(in.Rogue.Public())
		}
	})
	rogueVictimKid := mk(in.Rogue, rAlg, nil)
	foreignOwn := mk(in.Foreign, fAlg, setKid(in.Foreign.Kid))
	garbage := JOSESig{Protected: prot0, Signature: b64u(bytes.Repeat([]byte{1}, 64))}
	noneSig := JOSESig{Protected: hdrWith(func(h map[string]any) { h["alg"] = "none" }), Signature: ""}
	jsonTok("sigs/json-1", "sigs/flattened-1", "flattened", &pay0, []JOSESig{orig}, nil)
	jsonTok("sigs/json-1", "sigs/general-1", "general", &pay0, []JOSESig{orig}, nil)
	jsonTok("sigs/json-0", "sigs/general-0", "general", &pay0, []JOSESig{}, nil)
	out = append(out, JOSEVariant{Class: "sigs/json-0", Name: "sigs/flattened-no-signature-member", Form: "malformed",
		Token: fmt.Sprintf(`{"payload":%q,"protected":%q}`, pay0, prot0)})
	jsonTok("sigs/json-0", "sigs/flattened-empty-signature", "flattened", &pay0, []JOSESig{{Protected: prot0, Signature: ""}}, nil)
	others := []struct {
		n string
		s JOSESig
	}{{"rogue-own-kid", rogueOwn}, {"rogue-victim-kid", rogueVictimKid}, {"foreign-party", foreignOwn}, {"duplicate", orig}, {"garbage", garbage}, {"none", noneSig}}
	for _, o := range others {
		jsonTok("sigs/general-2", "sigs/general-2:valid-first+"+o.n, "general", &pay0, []JOSESig{orig, o.s}, nil)
		jsonTok("sigs/general-2", "sigs/general-2:"+o.n+"+valid-last", "general", &pay0, []JOSESig{o.s, orig}, nil)
	}
	jsonTok("sigs/general-3", "sigs/general-3:valid-first", "general", &pay0, []JOSESig{orig, rogueOwn, rogueVictimKid}, nil)
	jsonTok("sigs/general-3", "sigs/general-3:valid-last", "general", &pay0, []JOSESig{rogueVictimKid, rogueOwn, orig}, nil)
	jsonTok("sigs/general-2", "sigs/general-2:two-rogues", "general", &pay0, []JOSESig{rogueVictimKid, rogueOwn}, nil)
	out = append(out, JOSEVariant{Class: "sigs/mixed", Name: "sigs/flattened+signatures-member", Form: "malformed",
		Token: fmt.Sprintf(`{"payload":%q,"protected":%q,"signature":%q,"signatures":[{"protected":%q,"signature":%q}]}`, pay0, prot0, sig0, rogueOwn.Protected, rogueOwn.Signature)})
	// additional segments after the signature: no JWS reading; a liberal reader may stop after the third segment
	out = append(out, JOSEVariant{Class: "sigs/compact-segments", Name: "sigs/compact-4-segments", Form: "malformed", Token: in.Token + "." + rogueOwn.Signature,
		LenientOnly: true, Reenc: "trailing-segments", Payload: pay0, Sigs: []JOSESig{orig}})
	out = append(out, JOSEVariant{Class: "sigs/compact-segments", Name: "sigs/compact-5-segments", Form: "malformed", Token: in.Token + "." + rogueOwn.Protected + "." + rogueOwn.Signature,
		LenientOnly: true, Reenc: "trailing-segments", Payload: pay0, Sigs: []JOSESig{orig}})
	out = append(out, JOSEVariant{Class: "sigs/compact-segments", Name: "sigs/compact-4-segments-rogue-first", Form: "malformed",
		Token: rogueVictimKid.Protected + "." + pay0 + "." + rogueVictimKid.Signature + "." + sig0})
	out = append(out, JOSEVariant{Class: "sigs/compact-segments", Name: "sigs/compact-2-segments", Form: "malformed", Token: prot0 + "." + pay0})
	out = append(out, JOSEVariant{Class: "sigs/compact-segments", Name: "sigs/compact-no-signature", Form: "compact", Token: prot0 + "." + pay0 + ".",
		Payload: pay0, Sigs: []JOSESig{{Protected: prot0, Signature: ""}}})
	out = append(out, JOSEVariant{Class: "sigs/compact-segments", Name: "sigs/compact-1-segment", Form: "malformed", Token: prot0})

	// 8. unprotected-header smuggling (JSON serialisations)
	smuggle := []struct {
		n string
		h map[string]any
	}{
		{"alg-none", map[string]any{"alg": "none"}}, {"alg-HS256", map[string]any{"alg": "HS256"}},
		{"kid-foreign", map[string]any{"kid": in.Foreign.Kid}}, {"kid-rogue", map[string]any{"kid": "rogue-kid"}},
		{"jwk-rogue-public", map[string]any{"jwk": PublicJWK(in.Rogue.Public())}},
		{"jwk-rogue-private", map[string]any{"jwk": PrivateJWK(in.Rogue.Priv)}},
		{"jku", map[string]any{"jku": "https://attacker.example/jwks.json"}}, {"x5u", map[string]any{"x5u": "https://attacker.example/c.pem"}},
		{"x5c", map[string]any{"x5c": []any{SelfSignedCertB64(in.Rogue.Priv)}}},
		{"typ", map[string]any{"typ": "other"}}, {"crit", map[string]any{"crit": []any{"exp"}}}, {"b64", map[string]any{"b64": false}},
	}
	for _, s := range smuggle {
		for _, form := range []string{"flattened", "general"} {
			// (a) the valid signature with an additional unprotected member
			jsonTok("unprotected/valid-sig+member", "unprotected/"+form+":valid-sig+"+s.n, form, &pay0, []JOSESig{{Protected: prot0, Signature: sig0, Unprotected: s.h}}, nil)
			// (b) the attacker's signature; the unprotected header carries what would make it verify
			rs := rogueVictimKid
			rs.Unprotected = s.h
			jsonTok("unprotected/rogue-sig+member", "unprotected/"+form+":rogue-sig+"+s.n, form, &pay0, []JOSESig{rs}, nil)
		}
	}
	{ // kid only in the unprotected header
		p := hdrWith(func(h map[string]any) { h["alg"] = rAlg; delete(h, "kid") })
		rs := JOSESig{Protected: p, Signature: signSeg(p, in.Rogue.Priv, rAlg), Unprotected: map[string]any{"kid": in.Signer.Kid}}
		jsonTok("unprotected/rogue-sig+member", "unprotected/flattened:rogue-sig-kid-only-unprotected", "flattened", &pay0, []JOSESig{rs}, nil)
		// nothing protected at all
		rs2 := JOSESig{Protected: "", Signature: "", Unprotected: map[string]any{"alg": "none", "kid": in.Signer.Kid}}
		jsonTok("unprotected/rogue-sig+member", "unprotected/flattened:no-protected-alg-none", "flattened", &pay0, []JOSESig{rs2}, nil)
	}

	// 9. a flip at every character position of each segment
	flipAt := func(s string, i int, xor int) string {
		idx := strings.IndexByte(b64alphabet, s[i])
		if idx < 0 {
			return s
		}
		return s[:i] + string(b64alphabet[(idx^xor)&63]) + s[i+1:]
	}
	stride := in.FlipStride
	if stride < 1 {
		stride = 1
	}
	for si, s := range []string{prot0, pay0, sig0} {
		segName := []string{"protected", "payload", "signature"}[si]
		for i := 0; i < len(s); i++ {
			if si == 1 && i%stride != 0 && i < len(s)-3 {
				continue
			}
			xors := []int{1}
			if i >= len(s)-2 || in.FlipAllBits {
				xors = []int{1, 2, 4, 8, 16, 32} // the last characters carry padding bits: flip every bit
			}
			for _, x := range xors {
				f := flipAt(s, i, x)
				if f == s {
					continue
				}
				segs := []string{prot0, pay0, sig0}
				segs[si] = f
				v := JOSEVariant{Class: "flip/" + segName, Name: fmt.Sprintf("flip/%s@%d^%d", segName, i, x), Token: strings.Join(segs, "."),
					Form: "compact", Payload: segs[1], Sigs: []JOSESig{{Protected: segs[0], Signature: segs[2]}}}
				if !canonicalB64(f) {
					// only padding bits changed or became non-zero: no strict reading
					v.Form, v.LenientOnly, v.Reenc = "malformed", true, "trailing-bits"
				}
				out = append(out, v)
			}
		}
	}
	// truncations and extensions of the signature
	if len(sig0) > 4 {
		compact("flip/signature", "flip/signature-truncated-1", prot0, sig0[:len(sig0)-1])
		compact("flip/signature", "flip/signature-truncated-4", prot0, sig0[:len(sig0)-4])
		compact("flip/signature", "flip/signature-extended", prot0, sig0+"AAAA")
		compact("flip/signature", "flip/signature-zero", prot0, b64u(make([]byte, len(sig0)*3/4)))
	}

	// 10. transport re-encodings: every one of them decodes, under a liberal reading, to the original triple
	lenient := func(class, name, tok, reenc string) {
		out = append(out, JOSEVariant{Class: class, Name: name, Token: tok, Form: "malformed", LenientOnly: true, Reenc: reenc,
			Payload: pay0, Sigs: []JOSESig{orig}})
	}
	pad := func(s string) string {
		if len(s)%4 == 0 {
			return s
		}
		return s + strings.Repeat("=", 4-len(s)%4)
	}
	if pad(prot0) != prot0 {
		lenient("reenc/padding", "reenc/padding:protected", pad(prot0)+"."+pay0+"."+sig0, "padding")
	}
	if pad(pay0) != pay0 {
		lenient("reenc/padding", "reenc/padding:payload", prot0+"."+pad(pay0)+"."+sig0, "padding")
	}
	if pad(sig0) != sig0 {
		lenient("reenc/padding", "reenc/padding:signature", prot0+"."+pay0+"."+pad(sig0), "padding")
	}
	lenient("reenc/padding", "reenc/padding:all", pad(prot0)+"."+pad(pay0)+"."+pad(sig0), "padding")
	out = append(out, JOSEVariant{Class: "reenc/padding", Name: "reenc/padding:excess", Form: "malformed", Token: prot0 + "." + pay0 + "." + sig0 + "===="})
	std := func(s string) string { return strings.NewReplacer("-", "+", "_", "/").Replace(s) }
	if std(in.Token) != in.Token {
		lenient("reenc/std-alphabet", "reenc/std-alphabet", std(prot0)+"."+std(pay0)+"."+std(sig0), "std-alphabet")
		lenient("reenc/std-alphabet", "reenc/std-alphabet+padding", pad(std(prot0))+"."+pad(std(pay0))+"."+pad(std(sig0)), "std-alphabet")
	}
	for _, w := range []struct{ n, pre, post string }{{"leading-space", " ", ""}, {"trailing-space", "", " "}, {"trailing-lf", "", "\n"},
		{"trailing-crlf", "", "\r\n"}, {"leading-tab", "\t", ""}, {"leading-lf", "\n", ""}} {
		lenient("reenc/whitespace-around", "reenc/whitespace-around:"+w.n, w.pre+in.Token+w.post, "whitespace-around")
	}
	for si, s := range []string{prot0, pay0, sig0} {
		if len(s) < 8 {
			continue
		}
		segName := []string{"protected", "payload", "signature"}[si]
		for _, ws := range []struct{ n, c string }{{"lf", "\n"}, {"crlf", "\r\n"}, {"space", " "}} {
			segs := []string{prot0, pay0, sig0}
			segs[si] = s[:4] + ws.c + s[4:]
			cl := "crlf-inside"
			if ws.n == "space" {
				cl = "space-inside"
			}
			lenient("reenc/whitespace-inside", "reenc/whitespace-inside:"+ws.n+":"+segName, strings.Join(segs, "."), cl)
		}
	}
	lenient("reenc/whitespace-inside", "reenc/whitespace-inside:space-after-dot", prot0+". "+pay0+"."+sig0, "space-inside")
	out = append(out, JOSEVariant{Class: "reenc/junk", Name: "reenc/junk:trailing-nul", Form: "malformed", Token: in.Token + "\x00"})
	out = append(out, JOSEVariant{Class: "reenc/junk", Name: "reenc/junk:trailing-dot", Form: "malformed", Token: in.Token + ".",
		LenientOnly: true, Reenc: "trailing-segments", Payload: pay0, Sigs: []JOSESig{orig}})
	out = append(out, JOSEVariant{Class: "reenc/junk", Name: "reenc/junk:percent-encoded-dots", Form: "malformed", Token: strings.ReplaceAll(in.Token, ".", "%2E")})
	out = append(out, JOSEVariant{Class: "reenc/junk", Name: "reenc/junk:quoted", Form: "malformed", Token: `"` + in.Token + `"`})
	out = append(out, JOSEVariant{Class: "reenc/junk", Name: "reenc/junk:bearer-prefix", Form: "malformed", Token: "Bearer:" + in.Token})
	// JSON serialisation with insignificant white space (a strict reading exists: JSON allows it)
	out = append(out, JOSEVariant{Class: "reenc/json-whitespace", Name: "reenc/json-whitespace:flattened", Form: "flattened", Payload: pay0, Sigs: []JOSESig{orig},
		Token: func() string {
			if detached {
				return fmt.Sprintf("{\n \"protected\": %q,\n \"signature\": %q\n}", prot0, sig0)
			}
			return fmt.Sprintf("{\n \"payload\": %q,\n \"protected\": %q,\n \"signature\": %q\n}", pay0, prot0, sig0)
		}()})
	// general serialisation whose "protected" member is raw JSON text instead of base64url (accepted by some libraries)
	out = append(out, JOSEVariant{Class: "reenc/protected-raw-json", Name: "reenc/protected-raw-json:general", Form: "malformed", LenientOnly: true, Reenc: "protected-raw-json",
		Payload: pay0, Sigs: []JOSESig{orig},
		Token: fmt.Sprintf(`{"payload":%q,"signatures":[{"protected":%q,"signature":%q}]}`, pay0, string(hb), sig0)})
	return out, nil
}

var keyCache = map[string]crypto.Signer{}

func cachedKey(fam string) (crypto.Signer, error) {
	if k, ok := keyCache[fam]; ok {
		return k, nil
	}
	k, err := GenerateJOSEKey("cached-"+fam, fam)
	if err != nil {
		return nil, err
	}
	keyCache[fam] = k.Priv
	return k.Priv, nil
}

func canonicalB64(s string) bool {
	b, err := base64.RawURLEncoding.Strict().DecodeString(s)
	return err == nil && b64u(b) == s
}

// ---------------------------------------------------------------------------------- reference reading

// JOSEFacts is what a strict reader finds in a variant as sent.
type JOSEFacts struct {
	Readable   bool           // a reading exists (strict, or liberal when LenientOnly)
	Strict     bool           // the reading is the strict one
	NumSigs    int            // signatures carried
	Header     map[string]any // protected header of the first signature (nil when undecodable)
	Alg        string         // its alg label ("" when not a string)
	Kid        string
	HasKid     bool
	JWK        map[string]any // embedded jwk member of the protected header
	PrivateJWK bool           // ... and it carries private or symmetric key material
	Input      []byte         // signing input of the first signature: protected AS SENT + "." + payload AS SENT
	Sig        []byte         // decoded first signature
}

// Facts reads the variant. signingPayload overrides the payload part of the signing input (detached tokens).
func (v JOSEVariant) Facts(signingPayload string) JOSEFacts {
	f := JOSEFacts{}
	if v.Form == "malformed" && !v.LenientOnly {
		return f
	}
	f.Readable, f.Strict, f.NumSigs = true, v.Form != "malformed", len(v.Sigs)
	if len(v.Sigs) == 0 {
		return f
	}
	s := v.Sigs[0]
	dec := func(x string) ([]byte, bool) {
		b, err := base64.RawURLEncoding.Strict().DecodeString(x)
		if err != nil || b64u(b) != x {
			if !v.LenientOnly {
				return nil, false
			}
			b, err = base64.RawURLEncoding.DecodeString(strings.TrimRight(x, "="))
			if err != nil {
				return nil, false
			}
		}
		return b, true
	}
	hb, ok := dec(s.Protected)
	if !ok {
		f.Readable = false
		return f
	}
	if json.Unmarshal(hb, &f.Header) != nil {
		f.Header = nil
	}
	f.Alg, _ = f.Header["alg"].(string)
	if k, ok := f.Header["kid"]; ok {
		f.HasKid = true
		f.Kid, _ = k.(string)
	}
	if j, ok := f.Header["jwk"].(map[string]any); ok {
		f.JWK = j
		_, f.PrivateJWK, _ = JWKToPublic(j)
	}
	sig, ok := dec(s.Signature)
	if !ok {
		f.Readable = false
		return f
	}
	f.Sig = sig
	pl := v.Payload
	prot := s.Protected
	if v.LenientOnly {
		// liberal reading: a liberal verifier signs over the canonical re-encoding of what it decoded
		prot = b64u(hb)
		if pb, ok := dec(pl); ok {
			pl = b64u(pb)
		}
	}
	if signingPayload != "" {
		pl = signingPayload
	}
	f.Input = []byte(prot + "." + pl)
	return f
}

// VerifyECDSALoose verifies an ECDSA signature with the hash the LABEL names on whatever curve the key has
// (what a library does that does not bind the curve to the algorithm). Used only to CLASSIFY a refusal reason.
func VerifyECDSALoose(alg string, pub crypto.PublicKey, input, sig []byte) bool {
	k, ok := pub.(*ecdsa.PublicKey)
	if !ok || len(sig) == 0 || len(sig)%2 != 0 {
		return false
	}
	_, d := digest(alg, input)
	if d == nil {
		return false
	}
	n := len(sig) / 2
	return ecdsa.Verify(k, d, new(big.Int).SetBytes(sig[:n]), new(big.Int).SetBytes(sig[n:]))
}

// NearMissDIDs derives from a DID the identifiers that a sloppy comparison (prefix, case-insensitive, method-blind,
// separator-blind) would take for it.
func NearMissDIDs(d string) []struct{ Kind, DID string } {
	type nm = struct{ Kind, DID string }
	out := []nm{
		{"ext-colon-seg", d + ":evil"}, {"ext-dot-host", d + ".evil"}, {"ext-dash-2", d + "-2"}, {"ext-char", d + "x"}, {"ext-digit", d + "2"},
		{"ext-slash-path", d + "/evil"}, {"ext-percent", d + "%3Aevil"},
	}
	if len(d) > 12 {
		out = append(out, nm{"proper-prefix", d[:len(d)-1]})
	}
	// case change of the last letter of the method-specific id
	b := []byte(d)
	for i := len(b) - 1; i > 8; i-- {
		if (b[i] >= 'a' && b[i] <= 'z') || (b[i] >= 'A' && b[i] <= 'Z') {
			b[i] ^= 0x20
			out = append(out, nm{"case-change", string(b)})
			break
		}
	}
	parts := strings.SplitN(d, ":", 3)
	if len(parts) == 3 {
		other := "web"
		if parts[1] == "web" {
			other = "nuts"
		}
		out = append(out, nm{"other-method", "did:" + other + ":" + parts[2]})
		out = append(out, nm{"method-ext", "did:" + parts[1] + "x:" + parts[2]})
		if i := strings.LastIndex(parts[2], ":"); i > 0 {
			out = append(out, nm{"parent", "did:" + parts[1] + ":" + parts[2][:i]}) // e.g. the host's root DID of a did:web tenant
		}
	}
	return out
}
