// Package enum provides bounded-exhaustive, structure-aware mutation of JSON documents: a finite
// operator alphabet applied at EVERY position of a valid instance (all single applications; pairs
// are obtained by applying Singles to every single mutant). Nothing is random.
package enum

import (
	"encoding/json"
	"fmt"
	"sort"
	"strconv"
	"strings"
)

// Mutant is one mutated copy of a document.
type Mutant struct {
	Path string // JSON-pointer-like path of the mutated position
	Op   string // operator name (+ parameter)
	Doc  any    // mutated deep copy (decoded JSON: map[string]any, []any, string, float64/json.Number, bool, nil)
}

func (m Mutant) Desc() string { return m.Op + "@" + m.Path }

// Bytes marshals the mutant.
func (m Mutant) Bytes() []byte { b, _ := json.Marshal(m.Doc); return b }

// Replacement values tried at every position (type confusion, extremes).
var Replacements = []struct {
	Name string
	V    any
}{
	{"null", nil}, {"true", true}, {"0", float64(0)}, {"-1", float64(-1)}, {"1e308", 1e308}, {"1.5", 1.5},
	{"emptystr", ""}, {"x", "x"}, {"emptyarr", []any{}}, {"nestedarr", []any{[]any{}}}, {"emptyobj", map[string]any{}},
	{"atbase", map[string]any{"@base": float64(5)}}, {"arr-null", []any{nil}}, {"arr-empty-str", []any{""}},
}

// ExtremeIntegers replace number leaves when Options.ExtremeInts is set: 2^31-1, 2^31, 2^32, 2^63-1, -1, -2^63, 1e9, 1e11.
var ExtremeIntegers = []string{"2147483647", "2147483648", "4294967296", "9223372036854775807", "-1", "-9223372036854775808", "1000000000", "100000000000"}

// HostileStrings replace string leaves.
var HostileStrings = []string{" ", "%zz", "http://a b/", "../", "\x00", "did:nuts:", "did:web:", "#", "a#b#c", "\xff\xfe", strings.Repeat("a", 65536)}

// Decode parses JSON keeping numbers as float64.
func Decode(b []byte) (any, error) {
	var v any
	err := json.Unmarshal(b, &v)
	return v, err
}

// Clone deep-copies a decoded JSON value.
func Clone(v any) any {
	switch x := v.(type) {
	case map[string]any:
		o := make(map[string]any, len(x))
		for k, e := range x {
			o[k] = Clone(e)
		}
		return o
	case []any:
		o := make([]any, len(x))
		for i, e := range x {
			o[i] = Clone(e)
		}
		return o
	}
	return v
}

type step struct {
	key string
	idx int
	arr bool
}

func get(root any, path []step) any {
	cur := root
	for _, s := range path {
		if s.arr {
			cur = cur.([]any)[s.idx]
		} else {
			cur = cur.(map[string]any)[s.key]
		}
	}
	return cur
}

// set replaces the value at path in root (root itself when path is empty) and returns the new root.
func set(root any, path []step, v any) any {
	if len(path) == 0 {
		return v
	}
	parent := get(root, path[:len(path)-1])
	last := path[len(path)-1]
	if last.arr {
		parent.([]any)[last.idx] = v
	} else {
		parent.(map[string]any)[last.key] = v
	}
	return root
}

func pathString(path []step) string {
	var sb strings.Builder
	for _, s := range path {
		if s.arr {
			sb.WriteString("[" + strconv.Itoa(s.idx) + "]")
		} else {
			sb.WriteString("/" + s.key)
		}
	}
	if sb.Len() == 0 {
		return "/"
	}
	return sb.String()
}

// Options select operator groups.
type Options struct {
	Hostile      bool     // also replace string leaves by the hostile list
	NoBigString  bool     // skip the 64 KiB string
	SkipPaths    []string // path prefixes left alone
	UndefinedKey string   // name of the undefined sibling member (default "verifUndefined")
	ExtremeInts  bool     // also replace number leaves by each of ExtremeIntegers (as exact JSON integers)
}

// Singles returns every single-operator mutant of doc, in a deterministic, simplest-first order.
func Singles(doc any, o Options) []Mutant {
	var out []Mutant
	undef := o.UndefinedKey
	if undef == "" {
		undef = "verifUndefined"
	}
	var walk func(path []step)
	emit := func(path []step, op string, f func(root any) any) {
		ps := pathString(path)
		for _, sp := range o.SkipPaths {
			if strings.HasPrefix(ps, sp) {
				return
			}
		}
		root := Clone(doc)
		root = f(root)
		out = append(out, Mutant{Path: ps, Op: op, Doc: root})
	}
	walk = func(path []step) {
		cur := get(doc, path)
		p := append([]step{}, path...)
		// delete (member of object / element of array)
		if len(p) > 0 {
			last := p[len(p)-1]
			emit(p, "delete", func(root any) any {
				parent := get(root, p[:len(p)-1])
				if last.arr {
					a := parent.([]any)
					na := append(append([]any{}, a[:last.idx]...), a[last.idx+1:]...)
					return set(root, p[:len(p)-1], na)
				}
				delete(parent.(map[string]any), last.key)
				return root
			})
			if !last.arr {
				emit(p, "rename", func(root any) any {
					parent := get(root, p[:len(p)-1]).(map[string]any)
					parent[last.key+"X"] = parent[last.key]
					delete(parent, last.key)
					return root
				})
			}
		}
		for _, rv := range Replacements {
			rv := rv
			emit(p, "replace:"+rv.Name, func(root any) any { return set(root, p, Clone(rv.V)) })
		}
		// wrap / unwrap
		emit(p, "wrap-array", func(root any) any { return set(root, p, []any{Clone(cur)}) })
		emit(p, "wrap-array2", func(root any) any { return set(root, p, []any{Clone(cur), Clone(cur)}) })
		switch x := cur.(type) {
		case map[string]any:
			emit(p, "add-undefined", func(root any) any {
				get(root, p).(map[string]any)[undef] = "verif-undefined-value"
				return root
			})
			emit(p, "add-undefined-obj", func(root any) any {
				get(root, p).(map[string]any)[undef] = map[string]any{"a": []any{float64(1)}}
				return root
			})
			keys := make([]string, 0, len(x))
			for k := range x {
				keys = append(keys, k)
			}
			sort.Strings(keys)
			for _, k := range keys {
				walk(append(append([]step{}, p...), step{key: k}))
			}
		case []any:
			if len(x) == 1 {
				emit(p, "unwrap-array", func(root any) any { return set(root, p, Clone(x[0])) })
			}
			if len(x) >= 2 {
				emit(p, "reverse", func(root any) any {
					a := get(root, p).([]any)
					for i, j := 0, len(a)-1; i < j; i, j = i+1, j-1 {
						a[i], a[j] = a[j], a[i]
					}
					return root
				})
			}
			if len(x) >= 1 {
				emit(p, "dup-first", func(root any) any {
					a := get(root, p).([]any)
					return set(root, p, append([]any{Clone(a[0])}, a...))
				})
				emit(p, "append-null", func(root any) any { return set(root, p, append(get(root, p).([]any), nil)) })
				emit(p, "append-str", func(root any) any { return set(root, p, append(get(root, p).([]any), "x")) })
				emit(p, "append-obj", func(root any) any {
					return set(root, p, append(get(root, p).([]any), map[string]any{}))
				})
			}
			for i := range x {
				walk(append(append([]step{}, p...), step{idx: i, arr: true}))
			}
		case string:
			emit(p, "str-append", func(root any) any { return set(root, p, x+"x") })
			if len(x) > 0 {
				emit(p, "str-chop", func(root any) any { return set(root, p, x[:len(x)-1]) })
				emit(p, "str-flipcase", func(root any) any { return set(root, p, flipCase(x)) })
				emit(p, "str-prefix-space", func(root any) any { return set(root, p, " "+x) })
			}
			if o.Hostile {
				for i, h := range HostileStrings {
					if o.NoBigString && len(h) > 1000 {
						continue
					}
					h := h
					emit(p, fmt.Sprintf("hostile:%d", i), func(root any) any { return set(root, p, h) })
				}
			}
		case float64:
			emit(p, "num+1", func(root any) any { return set(root, p, x+1) })
			emit(p, "num-1", func(root any) any { return set(root, p, x-1) })
			emit(p, "num-neg", func(root any) any { return set(root, p, -x-1) })
			emit(p, "num-2^32", func(root any) any { return set(root, p, float64(4294967296)) })
			emit(p, "num-2^63", func(root any) any { return set(root, p, float64(9223372036854775807)) })
			emit(p, "num-str", func(root any) any { return set(root, p, strconv.FormatFloat(x, 'f', -1, 64)) })
			if o.ExtremeInts {
				// exact integers (json.Number keeps them out of float rounding) for fields that size an allocation, a loop or an offset
				for _, n := range ExtremeIntegers {
					n := n
					emit(p, "int:"+n, func(root any) any { return set(root, p, json.Number(n)) })
				}
			}
		case bool:
			emit(p, "bool-flip", func(root any) any { return set(root, p, !x) })
		}
	}
	walk(nil)
	return out
}

func flipCase(s string) string {
	b := []byte(s)
	for i, c := range b {
		if c >= 'a' && c <= 'z' {
			b[i] = c - 32
			return string(b)
		}
		if c >= 'A' && c <= 'Z' {
			b[i] = c + 32
			return string(b)
		}
	}
	return s
}

// Truncations returns the prefixes of b cut at every JSON token boundary (after each of `{ } [ ] , : "`),
// plus the empty input.
func Truncations(b []byte) [][]byte {
	out := [][]byte{{}}
	for i, c := range b {
		switch c {
		case '{', '}', '[', ']', ',', ':', '"':
			if i+1 < len(b) {
				out = append(out, append([]byte{}, b[:i+1]...))
			}
		}
	}
	return out
}

// DuplicateMembers returns raw-text variants of the object b in which each top-level member is emitted twice
// (the second time with the given alternative value), which a decoded map cannot express.
func DuplicateMembers(b []byte, alt string) [][]byte {
	var m map[string]json.RawMessage
	if json.Unmarshal(b, &m) != nil {
		return nil
	}
	keys := make([]string, 0, len(m))
	for k := range m {
		keys = append(keys, k)
	}
	sort.Strings(keys)
	var out [][]byte
	for _, dup := range keys {
		for _, first := range []bool{true, false} {
			var sb strings.Builder
			sb.WriteString("{")
			n := 0
			w := func(k string, v string) {
				if n > 0 {
					sb.WriteString(",")
				}
				kb, _ := json.Marshal(k)
				sb.Write(kb)
				sb.WriteString(":")
				sb.WriteString(v)
				n++
			}
			for _, k := range keys {
				if k == dup && first {
					w(k, alt)
				}
				w(k, string(m[k]))
				if k == dup && !first {
					w(k, alt)
				}
			}
			sb.WriteString("}")
			out = append(out, []byte(sb.String()))
		}
	}
	return out
}

// Permutations calls f with every permutation of 0..n-1 (Heap's algorithm); f returns false to stop.
func Permutations(n int, f func(perm []int) bool) {
	perm := make([]int, n)
	for i := range perm {
		perm[i] = i
	}
	c := make([]int, n)
	if !f(append([]int{}, perm...)) {
		return
	}
	for i := 0; i < n; {
		if c[i] < i {
			if i%2 == 0 {
				perm[0], perm[i] = perm[i], perm[0]
			} else {
				perm[c[i]], perm[i] = perm[i], perm[c[i]]
			}
			if !f(append([]int{}, perm...)) {
				return
			}
			c[i]++
			i = 0
		} else {
			c[i] = 0
			i++
		}
	}
}

// Subsets calls f with every subset of 0..n-1 of size <= k, smallest first.
func Subsets(n, k int, f func(idx []int) bool) {
	var rec func(start int, cur []int, size int) bool
	for size := 0; size <= k && size <= n; size++ {
		rec = func(start int, cur []int, size int) bool {
			if len(cur) == size {
				return f(append([]int{}, cur...))
			}
			for i := start; i < n; i++ {
				if !rec(i+1, append(cur, i), size) {
					return false
				}
			}
			return true
		}
		if !rec(0, nil, size) {
			return
		}
	}
}
