// Package space is an explicit-state breadth-first search over EVENT HISTORIES of real objects.
// A state is the history that reaches it; the successor of a state is obtained by building a fresh
// real instance, replaying the history and applying one more event (live objects rarely copy).
// States are de-duplicated by a canonical key that the harness computes from the real instance.
package space

import (
	"crypto/sha256"
	"time"
)

// System is what a harness provides. E is the event type (must be replayable on a fresh instance).
type System[E any] struct {
	// Build creates a fresh real instance and replays hist on it. It returns the instance handle and a
	// cleanup function. Replay must be deterministic.
	Build func(hist []E) (inst any, cleanup func())
	// Enabled lists the events that can be applied in the state reached by hist (small finite menu).
	Enabled func(inst any, hist []E) []E
	// Canon returns the canonical form of the state (sorted, property-relevant fields only).
	Canon func(inst any) string
	// Invariant is evaluated in every state reached (including duplicates), after the last event of hist.
	Invariant func(inst any, hist []E)
	// MaxDepth bounds the history length.
	MaxDepth int
	// Budget returns true when exploration must stop early (deadline) -> result is non-exhaustive.
	Budget func() bool
	// Mine selects which depth-1 subtrees this worker explores (sharding); nil = all.
	Mine func(firstEventIndex int) bool
}

// Result of a search.
type Result struct {
	States      int64
	Transitions int64
	MaxDepth    int
	Exhaustive  bool
	Elapsed     time.Duration
}

type node[E any] struct {
	hist []E
}

// BFS explores the state graph to MaxDepth.
func BFS[E any](s System[E]) Result {
	start := time.Now()
	res := Result{Exhaustive: true}
	seen := map[[32]byte]struct{}{}
	inst, cleanup := s.Build(nil)
	if s.Invariant != nil {
		s.Invariant(inst, nil)
	}
	seen[sha256.Sum256([]byte(s.Canon(inst)))] = struct{}{}
	res.States = 1
	first := s.Enabled(inst, nil)
	cleanup()
	frontier := []node[E]{}
	// depth 1 is expanded here so that sharding by first event is possible
	expand := func(hist []E, evs []E, depth int, shard bool) []node[E] {
		var next []node[E]
		for i, e := range evs {
			if shard && s.Mine != nil && !s.Mine(i) {
				continue
			}
			if s.Budget != nil && s.Budget() {
				res.Exhaustive = false
				return next
			}
			nh := append(append([]E{}, hist...), e)
			inst, cleanup := s.Build(nh)
			res.Transitions++
			if s.Invariant != nil {
				s.Invariant(inst, nh)
			}
			k := sha256.Sum256([]byte(s.Canon(inst)))
			if _, dup := seen[k]; !dup {
				seen[k] = struct{}{}
				res.States++
				if depth > res.MaxDepth {
					res.MaxDepth = depth
				}
				next = append(next, node[E]{hist: nh})
			}
			cleanup()
		}
		return next
	}
	if s.MaxDepth >= 1 {
		frontier = expand(nil, first, 1, true)
	}
	for depth := 2; depth <= s.MaxDepth && len(frontier) > 0; depth++ {
		var next []node[E]
		for _, n := range frontier {
			if s.Budget != nil && s.Budget() {
				res.Exhaustive = false
				break
			}
			inst, cleanup := s.Build(n.hist)
			evs := s.Enabled(inst, n.hist)
			cleanup()
			next = append(next, expand(n.hist, evs, depth, false)...)
		}
		frontier = next
	}
	res.Elapsed = time.Since(start)
	return res
}
