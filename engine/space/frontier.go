package space

import (
	"crypto/sha256"
	"time"
)

// FrontierOpts configures BFSFrontier.
type FrontierOpts struct {
	// SplitDepth: levels 1..SplitDepth are explored by EVERY worker (they must be cheap and deterministic
	// across processes: same Enabled order, same Canon strings); the new states found at SplitDepth are then
	// dealt round-robin over the workers, which continue an ordinary BFS below their share.
	SplitDepth    int
	Shard, Shards int
}

// BFSFrontier is BFS with frontier-level sharding (better balance than sharding by first event).
// During the shared prefix, s.Invariant is called for a NEW state only on the worker that owns the state's
// index (index modulo Shards), and never for duplicates; states and transitions of the shared prefix are
// counted by worker 0 only. Below the split every worker behaves like BFS (Invariant on every state
// reached, duplicates included). Workers do not share their seen-sets below the split, so a state can be
// visited by several workers (counts are per worker).
func BFSFrontier[E any](s System[E], o FrontierOpts) Result {
	start := time.Now()
	if o.Shards < 1 {
		o.Shards = 1
	}
	res := Result{Exhaustive: true}
	seen := map[[32]byte]struct{}{}
	count := func() bool { return o.Shard == 0 }
	owner := 0 // running index of new states in the shared prefix
	own := func() bool {
		mine := owner%o.Shards == o.Shard
		owner++
		return mine
	}
	inst, cleanup := s.Build(nil)
	if s.Invariant != nil && own() {
		s.Invariant(inst, nil)
	}
	seen[sha256.Sum256([]byte(s.Canon(inst)))] = struct{}{}
	if count() {
		res.States = 1
	}
	cleanup()
	frontier := []node[E]{{hist: nil}}
	stop := false
	for depth := 1; depth <= s.MaxDepth && len(frontier) > 0 && !stop; depth++ {
		shared := depth <= o.SplitDepth
		var next []node[E]
		for _, n := range frontier {
			if s.Budget != nil && s.Budget() {
				res.Exhaustive, stop = false, true
				break
			}
			inst, cleanup := s.Build(n.hist)
			evs := s.Enabled(inst, n.hist)
			cleanup()
			for _, e := range evs {
				if s.Budget != nil && s.Budget() {
					res.Exhaustive, stop = false, true
					break
				}
				nh := append(append([]E{}, n.hist...), e)
				inst, cleanup := s.Build(nh)
				if !shared || count() {
					res.Transitions++
				}
				k := sha256.Sum256([]byte(s.Canon(inst)))
				_, dup := seen[k]
				if shared {
					if !dup && s.Invariant != nil && own() {
						s.Invariant(inst, nh)
					}
				} else if s.Invariant != nil {
					s.Invariant(inst, nh)
				}
				if !dup {
					seen[k] = struct{}{}
					if !shared || count() {
						res.States++
					}
					if depth > res.MaxDepth {
						res.MaxDepth = depth
					}
					next = append(next, node[E]{hist: nh})
				}
				cleanup()
			}
		}
		if depth == o.SplitDepth {
			var mine []node[E]
			for i, n := range next {
				if i%o.Shards == o.Shard {
					mine = append(mine, n)
				}
			}
			next = mine
		}
		frontier = next
	}
	res.Elapsed = time.Since(start)
	return res
}
