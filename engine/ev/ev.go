// Package ev collects what one run of a check covered and found, and writes the part report
// that /verif/vcheck merges into /verif/evidence/<id>.json.
package ev

import (
	"crypto/sha256"
	"encoding/hex"
	"encoding/json"
	"fmt"
	"os"
	"path/filepath"
	"sort"
	"strconv"
	"strings"
	"sync"
	"testing"
	"time"
)

type finding struct {
	Property  string `json:"property"`
	Status    string `json:"status"` // "known" | "fixed"
	Signature string `json:"signature"`
	What      string `json:"what"`
	Commit    string `json:"commit,omitempty"`
}

type violation struct {
	Signature string `json:"signature"`
	What      string `json:"what"`
	Replay    string `json:"replay,omitempty"`
}

// Run is the collector of one worker process.
type Run struct {
	mu          sync.Mutex
	t           testing.TB
	Prop        string
	tier        string
	seed        int64
	shard, nsh  int
	start       time.Time
	deadline    time.Time
	evaluations int64
	distinct    map[[8]byte]struct{}
	states      int64
	transitions int64
	traces      int64
	samples     []any
	autoSamples []any // case keys kept from Eval, used when the harness wrote out no sample itself
	outcomes    map[string]int64
	obs         []any
	obsSeen     map[string]bool
	achecks     []any
	rule        string
	bounds      map[string]any
	extra       map[string]any
	assumptions []string
	violations  []violation
	known       []violation
	seenSig     map[string]bool
	exhaustive  bool
	notes       []string
	findings    []finding
	finished    bool
}

// Start creates the collector; environment comes from vcheck (defaults allow running a harness by hand).
func Start(t testing.TB, prop string) *Run {
	r := &Run{t: t, Prop: prop, tier: "quick", seed: 1, nsh: 1, start: time.Now(), exhaustive: true,
		distinct: map[[8]byte]struct{}{}, outcomes: map[string]int64{}, obsSeen: map[string]bool{},
		bounds: map[string]any{}, extra: map[string]any{}, seenSig: map[string]bool{}}
	if v := os.Getenv("VERIF_TIER"); v == "thorough" {
		r.tier = v
	}
	if v, err := strconv.ParseInt(os.Getenv("VERIF_SEED"), 10, 64); err == nil {
		r.seed = v
	}
	if v := os.Getenv("VERIF_SHARD"); v != "" {
		fmt.Sscanf(v, "%d/%d", &r.shard, &r.nsh)
		if r.nsh < 1 {
			r.nsh = 1
		}
	}
	budget := 600
	if v, err := strconv.Atoi(os.Getenv("VERIF_BUDGET_S")); err == nil && v > 0 {
		budget = v
	}
	r.deadline = r.start.Add(time.Duration(budget) * time.Second)
	dir := os.Getenv("VERIF_DIR")
	if dir == "" {
		dir = "/verif"
	}
	if b, err := os.ReadFile(filepath.Join(dir, "known_findings.json")); err == nil {
		var f struct {
			Findings []finding `json:"findings"`
		}
		if err := json.Unmarshal(b, &f); err != nil {
			t.Fatalf("known_findings.json: %v", err)
		}
		r.findings = f.Findings
	}
	return r
}

func (r *Run) Tier() string      { return r.tier }
func (r *Run) Thorough() bool    { return r.tier == "thorough" }
func (r *Run) Seed() int64       { return r.seed }
func (r *Run) Shard() (int, int) { return r.shard, r.nsh }

// Mine tells whether case number idx belongs to this worker's shard.
func (r *Run) Mine(idx int) bool { return idx%r.nsh == r.shard }

// Expired reports that the internal wall-clock budget is used up; callers stop and the run is
// marked non-exhaustive (never an alarm).
func (r *Run) Expired() bool {
	if time.Now().After(r.deadline) {
		r.NotExhaustive("wall-clock budget reached")
		return true
	}
	return false
}

func (r *Run) Rule(s string) { r.mu.Lock(); r.rule = s; r.mu.Unlock() }
func (r *Run) Bound(k string, v any) {
	r.mu.Lock()
	r.bounds[k] = v
	r.mu.Unlock()
}
func (r *Run) Extra(k string, v any) { r.mu.Lock(); r.extra[k] = v; r.mu.Unlock() }
func (r *Run) AddExtra(k string, n int64) {
	r.mu.Lock()
	cur, _ := r.extra[k].(int64)
	r.extra[k] = cur + n
	r.mu.Unlock()
}
func (r *Run) Assume(s string) { r.mu.Lock(); r.assumptions = append(r.assumptions, s); r.mu.Unlock() }

// Eval counts one explored case. key identifies the case for the distinct count; an empty key marks a
// trivial case (counted as evaluation only).
func (r *Run) Eval(key string) {
	r.mu.Lock()
	r.evaluations++
	if key != "" && len(r.autoSamples) < 6 && (r.evaluations == 1 || r.evaluations == 10 || r.evaluations == 100 || r.evaluations == 1000 || r.evaluations == 10000 || r.evaluations == 100000) {
		r.autoSamples = append(r.autoSamples, map[string]any{"case_key": key, "ordinal": r.evaluations})
	}
	if key != "" {
		h := sha256.Sum256([]byte(key))
		var k [8]byte
		copy(k[:], h[:8])
		r.distinct[k] = struct{}{}
	}
	r.mu.Unlock()
}

func (r *Run) States(n int64)      { r.mu.Lock(); r.states += n; r.mu.Unlock() }
func (r *Run) Transitions(n int64) { r.mu.Lock(); r.transitions += n; r.traces += n; r.mu.Unlock() }

// Outcome counts distinct observed outcomes (vacuity guard: one outcome from many executions means nothing collided).
func (r *Run) Outcome(s string) { r.mu.Lock(); r.outcomes[s]++; r.mu.Unlock() }

// Sample keeps up to 6 written-out cases.
func (r *Run) Sample(v any) {
	r.mu.Lock()
	if len(r.samples) < 6 {
		r.samples = append(r.samples, v)
	}
	r.mu.Unlock()
}

// Observation records behaviour that no clause of the statement forbids. Never influences the exit code.
func (r *Run) Observation(kind string, detail any) {
	r.mu.Lock()
	if !r.obsSeen[kind] {
		r.obsSeen[kind] = true
		r.obs = append(r.obs, map[string]any{"kind": kind, "example": detail})
	}
	r.mu.Unlock()
}

// AssumptionCheck records the result of a check on the validity of the exploration itself.
func (r *Run) AssumptionCheck(name string, ok bool, detail string) {
	r.mu.Lock()
	r.achecks = append(r.achecks, map[string]any{"name": name, "ok": ok, "detail": detail})
	r.mu.Unlock()
}

func (r *Run) NotExhaustive(reason string) {
	r.mu.Lock()
	r.exhaustive = false
	for _, n := range r.notes {
		if n == reason {
			r.mu.Unlock()
			return
		}
	}
	r.notes = append(r.notes, reason)
	r.mu.Unlock()
}

func sigMatch(pat, sig string) bool {
	if strings.HasSuffix(pat, "*") {
		return strings.HasPrefix(sig, strings.TrimSuffix(pat, "*"))
	}
	return pat == sig
}

// Violation reports a contradiction of the statement on the real code. sig is the stable structural
// signature; replay is the minimal case (schedule, history, input) that is written to a replay file.
func (r *Run) Violation(sig, what string, replay any) {
	r.mu.Lock()
	defer r.mu.Unlock()
	if r.seenSig[sig] {
		return
	}
	r.seenSig[sig] = true
	for _, f := range r.findings {
		if f.Property == r.Prop && f.Status == "known" && sigMatch(f.Signature, sig) {
			r.known = append(r.known, violation{Signature: sig, What: f.What})
			return
		}
	}
	dir := os.Getenv("VERIF_DIR")
	if dir == "" {
		dir = "/verif"
	}
	h := sha256.Sum256([]byte(sig))
	rdir := filepath.Join(dir, "replays")
	if v := os.Getenv("VERIF_REPLAYS"); v != "" {
		rdir = v
	}
	path := filepath.Join(rdir, r.Prop, hex.EncodeToString(h[:4])+".json")
	_ = os.MkdirAll(filepath.Dir(path), 0o755)
	b, _ := json.MarshalIndent(map[string]any{"property": r.Prop, "signature": sig, "what": what, "case": replay,
		"part": os.Getenv("VERIF_PART")}, "", " ")
	// several workers may report the same signature at the same time: write to a private file, then rename
	tmp := fmt.Sprintf("%s.%d.tmp", path, os.Getpid())
	if os.WriteFile(tmp, b, 0o644) == nil {
		_ = os.Rename(tmp, path)
	}
	r.violations = append(r.violations, violation{Signature: sig, What: what, Replay: path})
	fmt.Printf("VIOLATION-CANDIDATE property=%s signature=%q what=%q\n", r.Prop, sig, what)
}

// ReplayCase returns the `case` member of the replay file given with --replay, if any.
func (r *Run) ReplayCase(into any) bool {
	p := os.Getenv("VERIF_REPLAY")
	if p == "" {
		return false
	}
	b, err := os.ReadFile(p)
	if err != nil {
		r.t.Fatalf("replay file: %v", err)
	}
	var f struct {
		Part string          `json:"part"`
		Case json.RawMessage `json:"case"`
	}
	if err := json.Unmarshal(b, &f); err != nil {
		r.t.Fatalf("replay file: %v", err)
	}
	if f.Part != "" && os.Getenv("VERIF_PART") != "" && f.Part != os.Getenv("VERIF_PART") {
		return false
	}
	if err := json.Unmarshal(f.Case, into); err != nil {
		r.t.Fatalf("replay case: %v", err)
	}
	return true
}

// Violations returns the number of (not known) violations so far.
func (r *Run) Violations() int { r.mu.Lock(); defer r.mu.Unlock(); return len(r.violations) }

// Finish writes the part report. The test fails iff there are violations that are not known findings.
func (r *Run) Finish() {
	r.mu.Lock()
	defer r.mu.Unlock()
	if r.finished {
		return
	}
	r.finished = true
	if len(r.samples) == 0 {
		r.samples = r.autoSamples
	}
	outs := make([]string, 0, len(r.outcomes))
	for k := range r.outcomes {
		outs = append(outs, k)
	}
	sort.Strings(outs)
	om := map[string]int64{}
	for i, k := range outs {
		if i < 40 {
			om[k] = r.outcomes[k]
		}
	}
	rep := map[string]any{
		"evaluations": r.evaluations, "distinct_nontrivial": len(r.distinct), "states": r.states,
		"transitions": r.transitions, "traces_validated_against_impl": r.traces, "samples": r.samples,
		"observations": r.obs, "assumption_checks": r.achecks, "rule": r.rule, "bounds": r.bounds,
		"extra": r.extra, "assumptions": r.assumptions, "violations": r.violations, "known": r.known,
		"exhaustive": r.exhaustive, "outcomes": om, "wall_s": time.Since(r.start).Seconds(),
	}
	if len(r.notes) > 0 {
		r.extra["not_exhaustive_because"] = r.notes
	}
	if len(outs) > 0 {
		r.extra["distinct_outcomes"] = int64(len(outs))
	}
	b, err := json.Marshal(rep)
	if err != nil {
		r.t.Fatalf("report: %v", err)
	}
	if p := os.Getenv("VERIF_REPORT"); p != "" {
		if err := os.WriteFile(p, b, 0o644); err != nil {
			r.t.Fatalf("report: %v", err)
		}
	} else {
		fmt.Printf("REPORT %s\n", b)
	}
	if len(r.violations) > 0 {
		r.t.Errorf("%d violation(s)", len(r.violations))
	}
}

// Key renders any value as a canonical string usable with Eval / Outcome.
func Key(v any) string {
	b, _ := json.Marshal(v)
	return string(b)
}
